#!/usr/bin/env python3
"""Regenerates /verif/MANIFEST.json from the table below (kept in one place so the manifest stays valid)."""
import json, os, subprocess
ROOT = os.path.dirname(os.path.dirname(os.path.abspath(__file__)))

TRUST = "trusted base: the harness's own reference model (8086 manual; ALU double-implemented and self-checked at start-up), rustc, the hook records of the verif_hooks feature for CLI-plane checks; held only on the executions generated"
C = {
 "C01": ("reference-model monitor, exhaustive 8-bit sweep + 16-bit lattice + random, whole-state diff; lock-step and mixed-family instruction histories; operands aimed at the end of memory",
         "every ADD/ADC/SUB/SBB/CMP/INC/DEC/NEG executed (function, IR-instruction and source planes) is compared with an independent 8086 ALU model on result, all six flags and the whole rest of the machine state; all 2^16 byte pairs x carry-in are swept exhaustively, words on a boundary lattice plus random (thorough: all 2^32 word pairs)", "6 C01"),
 "C02": ("reference-model monitor, exhaustive value x count sweep (0..255), whole-state diff; lock-step, call-order and mixed-family instruction histories",
         "logic ops, NOT and the 7 shifts/rotates are compared with an iterated single-bit-step reference for every 8-bit value x every count 0..255 x carry-in, 16-bit lattice x all counts (thorough: all 65536 words); a panic for any count is a violation", "6 C02"),
 "C03": ("reference-model monitor, exhaustive byte forms + adjust instructions, lattice/random word forms, lock-step and mixed-family histories, CLI divide-error runs",
         "MUL/IMUL/DIV/IDIV byte forms over all 2^16 AX x 256 operands, adjust instructions over all AX x AF x CF, word forms on a lattice + random 48-bit triples; INT 0 outcome and unchanged registers on divide error; divide-error programs through the real binary", "6 C03"),
 "C04": ("reference-model monitor of effective addresses: memory-diff for stores, position-dependent pattern for loads, hostile segment/offset states",
         "every addressing shape x override x base/index x displacement x access kind is executed under register states that wrap at 2^16 and 2^20; the set of changed cells must equal the predicted set", "6 C04"),
 "C05": ("lock-step reference stack/transfer model over random operation histories (own family and all 13 instruction classes mixed), whole-state diff after every step",
         "MOV/XCHG/PUSH/POP/PUSHF/POPF/LAHF/SAHF/XLAT in every operand-kind pair, random push/pop histories, compared after every step with a reference machine", "6 C05"),
 "C06": ("exhaustive predicate sweep: every jump/loop spelling x all 2^16 flag words (x all CX for the LOOP family); whole programs through the real driver in five placements incl. repeated activation and beyond instruction index 65535",
         "each mnemonic spelling is assembled by the real assembler and the emitted line executed under all 65536 flag words; taken/not-taken must equal the Intel predicate, synonyms must agree, complements must be complementary, nothing else may change", "6 C06"),
 "C07": ("reference-model monitor of string steps and REP loops driven through the driver's REPEAT protocol, full memory diff, instruction histories, CLI end-to-end (free, -i, trap flag)",
         "all string ops x width x DF x prefix x CX 0..64 x hostile DS/ES/SI/DI; final state, iteration count and flags compared with the reference REP loop", "6 C07"),
 "C08": ("trace monitor: executed-instruction trace of driver-loop replica and of the real binary (hook records) vs a reference interpreter over the program AST",
         "bounded-exhaustive block sequences plus random structured programs; the sequence of executed source instructions, the way the run ends and the final registers must equal the reference; the real driver's hook trace must equal the replica's", "6 C08"),
 "C09": ("panic/abort monitor (overflow-checked build, catch_unwind, exit status) over every emitted instruction form x hostile machine states, console interrupts through the binary",
         "every IR form the assembler can emit is executed under hostile register/segment/count/divisor states in a build with overflow checks and debug assertions; any unwind, exit 101/134 or signal is a violation", "6 C09"),
 "C10": ("exhaustive enumeration of source instruction shapes; every accepted program's emitted lines are fed to the downstream parsers",
         "for every production alternative x mnemonic spelling x operand shape: if the assembler accepts, DataParser/Interpreter/PrintParser must accept every emitted line in that program's context; documented shapes must be accepted", "6 C10"),
 "C11": ("independent IR decoder (structural oracle) + metamorphic comparison of two renderings of the same AST",
         "random programs rendered with random case/radix/whitespace/comments; emitted lines must denote the AST's operations and operands, and two spellings of the same AST must produce identical code/data/labels", "6 C11"),
 "C12": ("independent memory-image oracle compared with the full 1 MiB after the loader ran (in process and through the binary's memory dump)",
         "random SET/DB/DW layouts incl. 64 KiB boundaries and 1 MiB wrap; full memory image and label offsets compared; overflow of a segment must be diagnosed", "6 C12"),
 "C13": ("differential monitor: macro program vs hand-expanded program through the same assembler; cyclic/deep chains in watchdog-supervised children",
         "random macro libraries with prefix-related parameter names; outputs must equal the expansion, recursion and bad expansions must be diagnosed at the use site, every run terminates", "6 C13"),
 "C14": ("mutation monitor: every applicable single semantic mutation of valid generated programs must be refused in process and by the binary with zero executed instructions (hook records)",
         "valid parents are accepted, each mutant (undefined/duplicate/data-label jump target, code label as data operand, non-procedure call, out-of-range constant by one at every constant position, width mix, two memory operands, unsupported mnemonic/interrupt, missing start) must be refused with a non-empty diagnostic and no hook record", "6 C14"),
 "C15": ("crash/hang monitor: seeded byte- and token-level mutations and pathological size families against the four parsers (catch_unwind) and the binary (exit status, watchdog, output cap)",
         "no panic, abort, signal, stack overflow or spin for any generated text as source file, parser input or prompt input; size families measured at n,2n,4n,8n", "6 C15"),
 "C16": ("position oracle: generator-known token positions vs source map (in process) and vs line numbers/text in every CLI message",
         "programs with known instruction lines; every 'Output of line', 'Int 3', divide-error, unsupported-interrupt and 'About to execute' message and every diagnostic must cite the right line number and text", "6 C16"),
 "C17": ("output-parsing monitor: print reg/flags/mem output parsed back and compared with hook-reported state and reference memory; state records before/after must be equal",
         "random machine states, ranges of every length class, 1 MiB edge, DS-relative, all radices, at the prompt and in source", "6 C17"),
 "C18": ("reference-model monitor of the console services over (registers, memory, stdin) -> (stdout, post-state) using hook state records",
         "every supported (interrupt, AH) x hostile registers x stdin variants; all 256 AH values for both interrupts", "6 C18"),
 "C19": ("repeated-run determinism monitor (8 processes per program), interleaving/isolation monitor in process, fresh-vs-used parser objects, 16-thread run",
         "byte-identical stdout and exit status across runs incl. programs with several simultaneous errors; interleaved streams on two machines equal isolated runs; used parser objects answer like fresh ones; VM::new state", "6 C19"),
 "C20": ("trace monitor over scripted prompt histories: hook records vs prompts, transparency against the plain run",
         "random terminating programs x stepping by -i / trap flag / int 3 x prompt scripts (next, prints, garbage, quit, EOF at every position)", "6 C20"),
}
NOT_BUILT = os.environ.get("NOT_BUILT", "").split()

def main():
    hook = subprocess.run(["git", "-C", "/repo", "log", "--format=%h", "--grep=^verif hooks"], capture_output=True, text=True).stdout.split()
    m = {
        "version": 1,
        "setup_cmd": "./check --build-only",
        "hooks": {
            "guard": "verif_hooks (cargo feature of /repo, off by default)",
            "enable": "cargo build --release --offline --features verif_hooks --bin emulator_8086 --manifest-path /repo/Cargo.toml --target-dir /verif/target (done by ./check on every invocation)",
            "baseline_off_cmd": "cd /repo && cargo test --workspace --no-fail-fast --offline",
            "source_commits": hook,
            "add_only": True,
        },
        "engines": [{
            "name": "vharness", "path": "harness/",
            "serves_properties": [k for k in sorted(C) if k not in NOT_BUILT],
            "kind_free_text": "Rust harness: reference-model monitors over the library API (in process, overflow-checked build, catch_unwind) and over the hooked CLI binary (child processes with scripted stdin, watchdog, output cap)",
        }],
        "checks": [], "not_applicable": [],
        "notes": "exit 0 = held on everything explored (KNOWN-FINDING lines for the entries of KNOWN_FINDINGS.txt), exit 1 = VIOLATION line(s), exit 2 = inconclusive (build failure / event floor not met). VERIF_SEED moves only the random slice; the deterministic core and the known-finding fingerprints are seed independent.",
    }
    for k in sorted(C):
        tech, text, ref = C[k]
        if k in NOT_BUILT:
            m["not_applicable"].append({"property_id": k, "reason": "monitor not built yet (work in progress; design in DESIGN.md section 6)"})
            continue
        m["checks"].append({
            "property_id": k,
            "quick_cmd": f"./check {k} quick",
            "thorough_cmd": f"./check {k} thorough",
            "evidence_file": f"evidence/{k}.json",
            "replay_cmd_template": f"./check {k} --replay {{path}}",
            "engine": "vharness",
            "level_claimed": {"category": "exploration", "text": "runtime monitoring: " + text + ". Held on the executions observed, nothing more.", "design_ref": "DESIGN.md section " + ref},
            "level_note": TRUST,
            "technique": "runtime monitoring: " + tech,
        })
    json.dump(m, open(os.path.join(ROOT, "MANIFEST.json"), "w"), indent=1)
    print("checks:", len(m["checks"]), "not_applicable:", len(m["not_applicable"]))

main()
