#!/bin/bash
# maintenance helper: evaluate every seeded change against every check on scratch copies of /repo
# (never touches /repo's working tree).  tools/matrix.sh [parallelism] [names...]  -> seeded/<name>/detected.txt
# MATRIX_CHECKS="own" runs only the check of the property named in meta.json (default: all 20 checks)
par="${1:-4}"; shift
cd "$(dirname "$0")/.."
names="$*"; [ -z "$names" ] && names=$(ls seeded)
one() {
  name="$1"
  wt="/tmp/mx/$name"
  rm -rf "$wt"; git -C /repo worktree prune
  git -C /repo worktree add -f --detach "$wt" HEAD >/dev/null 2>&1 || { echo "$name: worktree failed"; return; }
  git -C "$wt" apply "/verif/seeded/$name/patch.diff" || { echo "$name: patch does not apply"; git -C /repo worktree remove --force "$wt"; return; }
  mkdir -p "$wt/.vroot"; cp /verif/KNOWN_FINDINGS.txt "$wt/.vroot/"
  out="/verif/seeded/$name/detected.txt"; : > "$out.tmp"
  ids="C01 C02 C03 C04 C05 C06 C07 C08 C09 C10 C11 C12 C13 C14 C15 C16 C17 C18 C19 C20"
  if [ "${MATRIX_CHECKS:-all}" = "own" ]; then ids=$(python3 -c "import json;print(json.load(open('/verif/seeded/$name/meta.json'))['property'])"); elif [ -n "${MATRIX_CHECKS:-}" ] && [ "${MATRIX_CHECKS}" != "all" ]; then ids="$MATRIX_CHECKS"; fi
  echo "# checks run: $ids" >> "$out.tmp"
  for id in $ids; do
    o=$(VERIF_REPO="$wt" VERIF_ROOT="$wt/.vroot" ./check $id quick 2>&1); rc=$?
    if [ $rc -eq 1 ]; then echo "$id FIRED $(echo "$o" | grep -c '^VIOLATION') $(echo "$o" | grep '^VIOLATION' | head -3 | sed 's/.* sig=\([^ ]*\) .*/\1/' | tr '\n' ' ')" >> "$out.tmp"
    elif [ $rc -ne 0 ]; then echo "$id rc=$rc $(echo "$o" | tail -1 | cut -c1-120)" >> "$out.tmp"; fi
  done
  mv "$out.tmp" "$out"
  git -C /repo worktree remove --force "$wt"
  echo "$name: $(grep -c FIRED "$out") checks fired: $(grep FIRED "$out" | cut -d' ' -f1 | tr '\n' ' ')"
}
export -f one
mkdir -p /tmp/mx
echo $names | tr ' ' '\n' | xargs -P "$par" -I{} bash -c 'one {}'
