#!/usr/bin/env python3
"""Maintenance helper: fills seeded/<name>/meta.json (what / needs / detected_by) and prints the markdown table of
DESIGN.md section 10 from seeded/*/meta.json and seeded/*/detected.txt (written by tools/matrix.sh)."""
import json, os, glob, sys
ROOT = os.path.dirname(os.path.dirname(os.path.abspath(__file__)))
D = {
 "C01a": ("word_adc computes the carry-out before adding the incoming carry", "16-bit ADC, CF=1 and op1+op2 == 0xFFFF exactly"),
 "C01b": ("interpreter: `op word <label>, imm` parses the immediate as a byte and sign-extends it", "word ADD/ADC/SUB/SBB/CMP with a data-label destination and an immediate outside -128..127"),
 "C01c": ("`op word <label>, imm` stores the result through a slice that does not wrap at 1 MiB", "label word at physical 0xFFFFF (high byte at 0): high byte silently stale, no panic"),
 "C02a": ("ROL/ROR reduce counts above the width modulo the width", "rotate count a multiple of the width (16, 24, ... / 32, 48, ...) and carry-in differing from the expected CF"),
 "C02b": ("`shift word [mem], CL` takes the count from CX instead of CL", "word memory destination in [..] form, CL count, CH != 0"),
 "C02c": ("`shift word <label>, CL` writes the high byte at m+1 without wrap", "word label at physical 0xFFFFF and the CL form (panic)"),
 "C03a": ("word IMUL sets CF/OF from 'DX is 0 or 0xFFFF' instead of 'DX is the sign extension of AX'", "signed products in 32768..65535 or -65536..-32769"),
 "C03b": ("AAD sets ZF from the 16-bit sum AH*10+AL instead of AL", "AH*10+AL a non-zero multiple of 256 (255 of 65536 AX values)"),
 "C03c": ("`mul/div word <label>` writes the operand back through a slice that does not wrap", "word label at physical 0xFFFFF (panic)"),
 "C04a": ("assembler drops a `ds` override on based-indexed operands", "source-level `ds[bp,si|di(,d)]` with SS != DS"),
 "C04b": ("assembler drops any override on based-indexed operands written without displacement", "source-level `es[bx,si]`-like operand, override segment != default segment"),
 "C04c": ("`xchg word <label>, reg` reads/writes the high byte at m+1 without wrap", "word label at physical 0xFFFFF (panic)"),
 "C05a": ("`pop word <label>` copies byte by byte", "label address == SS:SP+1 and low != high byte"),
 "C05b": ("assembler maps upper-case `DS` to `es` in push/pop operands", "`PUSH DS` / `POP DS` in upper case with DS != ES"),
 "C06a": ("LOOPNE tests the un-wrapped i32 count `> 0`", "LOOPNE/LOOPNZ entered with CX=0, ZF=0"),
 "C06b": ("assembler emits `jae` for upper-case `JNAE`", "spelling `JNAE` only"),
 "C06c": ("a taken jump whose target is itself returns HALT", "label placed on the jump/loop itself (`wait: loop wait`)"),
 "C07a": ("movs_word stores the low byte before reading the source high byte", "physical destination == source+1, differing bytes"),
 "C07c": ("movs_word chooses the byte order from SI/DI offsets, not physical addresses", "DS != ES with (ES-DS)*16+DI == SI+1"),
 "C08a": ("driver does not append its `hlt` when the program already ends in `hlt`", "written hlt last, a label after it, and a taken jump to that label (index out of bounds)"),
 "C08c": ("call stack entries become u16", "a `call` at instruction index >= 65535"),
 "C09a": ("INT 21h/0Ah copies with one slice: range end not wrapped", "buffer data area crossing 0xFFFFF"),
 "C09b": ("DAS subtracts 0x60 in u8", "DAS with CF=1 and adjusted AL < 0x60 (overflow panic)"),
 "C09c": ("INT 21h/0Ah slices a &str at `count`", "capacity cutting a multi-byte UTF-8 character of the input line"),
 "C10a": ("assembler accepts `print mem a : n` with a+n == 2^20", "exact sum 1048576; the printer refuses -> Internal Error"),
 "C10b": ("interpreter parses the displacement of `seg:[si|di, d]` as unsigned", "override + index-only form + negative displacement"),
 "C10c": ("driver dedups undefined-label entries by position", "one macro use with two forward jumps, the alphabetically first target defined later, the other never"),
 "C11a": ("assembler emits displacement 0 for based-indexed operands with override", "override + based-indexed + non-zero displacement"),
 "C11b": ("`dw \"str\"` advances the data counter by 2*len-2", "a label after a DW string used through OFFSET"),
 "C11c": ("macro parameters are matched case-insensitively at definition", "a body word differing from a parameter only in case"),
 "C12a": ("loader fills `db [v,n]` through a slice iterator (no 1 MiB wrap)", "filled byte array crossing 0xFFFFF"),
 "C12b": ("loader fills `db [v,n]` with a clamped slice fill", "same as C12a, different code"),
 "C12c": ("loader zero-fills `dw [n]` for (n<<1) computed in u16", "n == 32768 exactly, laid over earlier non-zero data"),
 "C13a": ("placeholder substitution stops at the first parameter absent from the body", "an unused parameter followed by a used one"),
 "C13b": ("word memory macro arguments keep the output spelling `es:[..]`", "word-sized memory argument with a segment override"),
 "C13c": ("placeholder regex matches one digit only", "macros with more than ten parameters"),
 "C14a": ("`op byte <label>, imm` range-checks the immediate as a word", "byte data-label destination and immediate outside -128..255"),
 "C14b": ("OFFSET in an 8-bit position accepts 256", "data label at offset exactly 256 used through OFFSET in a byte position"),
 "C14c": ("same change as C10c (dedup by position)", "see C10c"),
 "C15a": ("printer `a : n` check `>=` -> `>`", "prompt command with a+n == 2^20 (panic)"),
 "C15b": ("printer `: n` check `>=` -> `>`", "DS*16+n == 2^20 exactly, DS != 0 (panic)"),
 "C15c": ("assembler no longer reduces binary print constants mod 2^20", "`print mem 0b<32 ones> : n` (u32 add overflow panic)"),
 "C16a": ("SourceMapper::set_source ignores the lock", "macro used inside a macro: messages cite a wrong line"),
 "C16b": ("LexerHelper records character indices instead of byte offsets", "multi-byte whitespace (U+00A0) before the cited position"),
 "C16c": ("LexerHelper builds the newline table from str::lines()", "CRLF source files"),
 "C17a": ("printer `: n` uses the wrapping address helper", "DS*16+n >= 2^20: nothing printed, nothing reported"),
 "C17b": ("printer stops reducing decimal constants mod 2^20", "prompt command `a -> b` with b >= 2^20 (panic)"),
 "C17c": ("same change as C15a", "see C15a"),
 "C18a": ("INT 21h/0Ah trims all trailing whitespace", "input line ending in blanks/tabs"),
 "C18b": ("INT 21h/1 returns the low byte of the first *character*", "input line starting with a non-ASCII character"),
 "C18c": ("INT 21h/0Ah cuts to capacity before stripping CR/LF", "over-long line with a CR at index capacity-1"),
 "C19a": ("undefined labels sorted by position only (unstable sort)", "two undefined labels from the same macro use (position tie)"),
 "C19c": ("undefined labels sorted by position only (stable sort)", "same as C19a"),
 "C20a": ("prompt line buffer hoisted out of the loop without clear()", "a print/garbage command followed by another command at the same prompt"),
 "C20b": ("same change as C15a, judged through C20", "prompt command `print mem 1048575 : 1` during stepping"),
 "C20c": ("read error at the prompt `continue`s instead of returning", "stdin on which every read fails (a directory)"),
 "C01d": ("assembler emits `op byte <label>, imm` with the `word` keyword", "byte data-label destination with an immediate: carry/borrow out of the byte, or a non-zero neighbouring byte"),
 "C02d": ("assembler maps upper-case `SAR` to `shr`", "spelling `SAR`, operand with its sign bit set"),
 "C03d": ("word MUL no longer clears OF when the product fits", "OF=1 on entry and a product below 65536"),
 "C04d": ("assembler drops a `ds` override on register-indirect operands", "source-level `ds[bp]` with SS != DS (same change as C05d)"),
 "C05d": ("assembler drops a `ds` override on register-indirect operands", "source-level `ds[bp]` with SS != DS"),
 "C06d": ("driver ends the run when a jump lands on its own line unless the line starts with `loop `", "taken self-targeting LOOPE/LOOPNE through the real driver"),
 "C07d": ("assembler maps upper-case `REPNZ` to `repz`", "spelling `REPNZ` with CX >= 2"),
 "C08d": ("call refuses more than 128 stacked returns", "recursion deeper than 128 or > 128 abandoned frames"),
 "C09d": ("same change as C09c", "see C09c"),
 "C10d": ("same change as C14a, judged through C10", "byte data-label destination and an immediate <= -129 (Internal Error)"),
 "C11d": ("PreprocessorContext::clear() no longer resets the data counter", "library use: a context reused through clear() after a program that defined data; OFFSET in the second program"),
 "C12d": ("loader `dw [n]`: (n << 1) in u16 for fill and counter", "n == 32768 over earlier non-zero data"),
 "C13d": ("a single parameter named `_` is not substituted", "macro(_) whose body uses `_`, used with a real argument"),
 "C14d": ("labelled `dw \"\"` returns before the label is typed DATA", "jump to / `start` as the label of an empty wide string"),
 "C15d": ("prompt condition rewritten as `idx <= len - 2`", "-i on a program without instructions"),
 "C17d": ("`print mem : n` masks n to 16 bits", "DS-relative dump longer than 64 KiB"),
 "C18d": ("INT 21h/0Ah with capacity 0 returns before reading the line", "capacity 0 followed by another console read in the same run"),
 "C01e": ("register INC/DEC/NEG decide the write-back by a thread-local mark that only register forms of MUL/DIV consume", "a memory-form MUL/IMUL/DIV/IDIV earlier in the run, then INC/DEC/NEG of a register"),
 "C02e": ("one-entry memo of the last shift/rotate keyed by (operation, value, count, carry-in), operand width missing from the key", "shift/rotate with count >= 2, then the same operation, count, carry-in and numeric value at the other operand width"),
 "C03e": ("divide-error message slices the raw text with offsets of the comment-stripped text", "comments before the dividing line; multi-byte characters in them make the slice panic"),
 "C04e": ("data loader skips a `set` that names the segment already selected (counter not reset)", "second `set` of the same segment after data, then a label defined behind it"),
 "C05e": ("data-label address cached per (label, code line), DS not part of the key", "the same instruction executed twice with another DS in between (loop / procedure called twice)"),
 "C06e": ("driver 'endless jump' guard remembers flags/CX of the last self-targeting jump and is never reset", "a self-targeting LOOP activated twice, the second time with CX=2 and equal flags"),
 "C07e": ("driver runs REPE/REPNE CMPS/SCAS to CX=0 in an inner loop while single-stepping", "-i or trap flag, compare string instruction with REPE/REPNE that should stop early"),
 "C08e": ("driver memoises jump targets by bare name", "a label and a procedure with the same name, CALL of the one before JMP to the other"),
 "C09e": ("driver appends no HLT when the program already ends in HLT", "label behind the final written HLT reached by a taken jump (stepping: source-map lookup panics)"),
 "C10e": ("`print mem : n` merged into the `start : n` alternative: overflow now returns a parse error", "accepted `print mem : n` statement with DS*16+n beyond the last byte: the driver reaches its Internal Error path"),
 "C11e": ("macro placeholder respelled `$i` at definition and use", "macro with 11 or more parameters using the 11th or a later one"),
 "C12e": ("same change as C04e, judged through C12", "second `set` of the segment already selected, after data"),
 "C13e": ("successful macro expansions memoised by name+arguments, not invalidated by a new definition", "define, use, define again with another body, use again with the same arguments"),
 "C14e": ("undefined-label list de-duplicated by source position", "one macro use producing two forward jumps, the undefined label sorting after a defined one"),
 "C15e": ("LexerHelper::get_line continues from the line found last time; step-back loop lacks the `line > 0` guard", "executable statement on physical line 1, looked up after a lookup on a later line (loop / call, stepping or print)"),
 "C16e": ("driver keeps the looked-up source line of the last step prompt and reuses it for messages", "trap flag switched on and off again by the program, then a print / int 3 / divide error"),
 "C17e": ("one shared console line buffer: INT 21h leaves its line in it, the prompt appends", "INT 21h read of a non-blank line, then a prompt command"),
 "C18e": ("INT 21h reads through a persistent BufReader that swallows all available input", "console read followed by a prompt (int 3 / stepping) and further reads"),
 "C19e": ("undefined labels sorted by position only", "two undefined labels produced by one macro use (equal positions): report order follows hash order"),
 "C20e": ("one shared console line buffer: the prompt leaves `n` in it, INT 21h appends", "a prompt answered before a later INT 21h AH=1 / AH=0Ah read"),
 "C01f": ("data-label operands resolved through a signed 16-bit displacement helper", "data label at offset 0x8000 or more (32 KiB of data in front of it)"),
 "C02f": ("word shift/rotate on a data label writes back through a two-byte slice (no wrap at 1 MiB)", "word label whose low byte is physical 0xFFFFF"),
 "C03f": ("divide-error report takes the instruction index through the 16-bit IP register", "divide error at instruction index 65536 or more: the message cites another line (a C16 matter; the INT 0 outcome itself is unaffected)"),
 "C04f": ("same idea as C01f (label offset sign-extended)", "data label at offset 0x8000 or more"),
 "C05f": ("same idea as C01f, inlined", "data label at offset 0x8000 or more"),
 "C06f": ("`Label.map` narrowed to u16", "jump / loop target (or `start`) at instruction index 65536 or more"),
 "C07f": ("word string element: high byte at `lo + 1` without the wrap at 1 MiB", "word element whose low byte is physical 0xFFFFF (e.g. the 0x4000th iteration of a long REP)"),
 "C08f": ("`Label::new` masks the map to 16 bits", "code label defined after 65536 or more emitted instructions"),
 "C09f": ("INT 10h/13h prints strings longer than 1024 characters through one slice", "CX > 1024 and the string crossing the top of memory"),
 "C10f": ("CALL refuses a call stack deeper than 32768 (reported as a parse error = driver's Internal Error path)", "recursion at least 32769 levels deep"),
 "C11f": ("OFFSET in a byte position: range check replaced by a cast", "OFFSET of a label at offset 256 or more where a byte constant is expected"),
 "C12f": ("driver numbers the data items with `(0..=u16::MAX).zip(..)`", "more than 65536 data directives"),
 "C13f": ("macro placeholder index passed as u8", "macro with 257 or more parameters using one with index 256 or more"),
 "C14f": ("undefined-label set pruned with the wrong polarity once it holds 4096 entries", "more than 4096 forward references, an undefined one among the first 4096"),
 "C15f": ("get_line switches to a binary search above 1024 lines (newline position belongs to the next line)", "source of more than 1024 lines that stops in the middle of a construct directly before a newline"),
 "C16f": ("same binary search, threshold 256 lines", "more than 256 lines and a message citing a procedure's implied return while stepping"),
 "C17f": ("prompt reads at most 4096 bytes of a line", "prompt command longer than 4096 bytes (zero-padded number)"),
 "C18f": ("INT 21h reads at most 4096 bytes of a line", "input line of 4096 bytes or more followed by another console read"),
 "C19f": ("above 256 forward references the first undefined label is chosen by position only", "more than 256 forward references and two undefined labels from one macro use"),
 "C20f": ("prompt reads at most 8192 bytes of a line", "prompt line longer than 8191 bytes: one line becomes two commands"),
 "C01g": ("assembler maps upper-case `SBB` to `sub`", "spelling `SBB` with CF = 1"),
 "C02g": ("`shift word <label>, CL` reads the high byte at m+1 without wrap", "word label at physical 0xFFFFF, CL form (panic)"),
 "C03g": ("unary arithmetic on a word label reads the high byte at m+1 without wrap", "MUL/DIV (INC/DEC/NEG) of a word label at physical 0xFFFFF (panic)"),
 "C04g": ("`xchg word <label>, reg` writes the high byte at m+1 without wrap", "word label at physical 0xFFFFF (panic)"),
 "C05g": ("a memory operand passed as macro argument loses an explicit `ds` override", "macro argument `word ds[bp..]` with SS != DS"),
 "C06g": ("driver stops the run when a jump lands on itself (except ret)", "taken self-targeting LOOP/LOOPE/LOOPNE through the real driver"),
 "C07g": ("MOVS word copies byte by byte", "word MOVS whose destination starts one byte above its source"),
 "C08g": ("a procedure's entry is also recorded as a code label (overwriting an earlier label of that name)", "label and procedure with the same name, label first, taken jump to the label"),
 "C09g": ("no appended HLT when the program ends in HLT; prompt guard by source-map membership", "label behind the final written HLT reached by a taken jump (panic), free running and stepping"),
 "C10g": ("forward references kept as a map position -> name", "one macro use with two forward jumps, an earlier one undefined: accepted, Internal Error at run time"),
 "C11g": ("a numeric macro argument is re-rendered as i16", "macro argument >= 0x8000 in an unsigned-only position (logic immediates, `[p]`, `set`, forwarding to another macro)"),
 "C12g": ("`dw \"...\"` no longer writes the zero high bytes", "DW string placed (through `set`) over bytes an earlier definition made non-zero"),
 "C13g": ("macro definition skips the parameter named `_`", "parameter `_` used in the body and called with a real argument"),
 "C14g": ("undefined-label list de-duplicated by position (same idea as C14e)", "one macro use with two forward jumps, the undefined one sorting after a defined one"),
 "C15g": ("`dw \"...\"` writes the high byte at addr+1 without wrap", "DW string at an odd offset reaching physical 0xFFFFF (`set` >= 0xF001): loader panics"),
 "C16g": ("SourceMapper::set_source moves whenever the new offset is larger (also for nested uses, whose offsets are in expanded text)", "nested macro use behind a long, repeatedly substituted argument, near the top of the file"),
 "C17g": ("prompt `print mem a : n` accepts a+n == 2^20", "prompt command `print mem 1048575 : 1` (panic after printing)"),
 "C18g": ("the prompt reads through a persistent BufReader", "a prompt answered before an INT 21h read (piped stdin): the service sees end of input"),
 "C19g": ("undefined labels sorted by position only (same idea as C19e)", "two undefined labels from one macro use"),
 "C20g": ("the driver keeps one BufReader for prompt commands", "stepping / breakpoint prompts before console input on piped stdin"),
 "C11h": ("OFFSET in a byte position refused from 255 on (`>=` instead of `>`)", "data label at exactly offset 255 used through OFFSET where a byte constant is expected"),
 "C13h": ("macro placeholder respelled `#i` (same idea as C11e)", "macro with 11 or more parameters using the 11th or a later one"),
 "C15h": ("`Int 3 at line` takes the line from get_newline_before", "one-line source without any newline that executes `int 3` (panic)"),
 "C16h": ("`error!(end,start,..)` in the hex byte-constant range diagnostic", "byte position, hexadecimal constant >= 0x100: the diagnostic names the column of the END of the literal"),
 "C17h": ("`print mem a : n` breaks rows on the absolute address", "start address not a multiple of 16 and a range crossing a 16-byte boundary: rows are not 16 bytes long"),
 "C18h": ("INT 21h/0Ah strips all trailing whitespace of the line", "input line ending in blanks / tabs (shorter than the capacity)"),
 "C20h": ("prompt `print mem a : n` accepts a+n == 2^20 (same change as C17g)", "`print mem 1048575 : 1` typed while stepping: panic"),
 "C01h": ("INC/DEC/NEG of a word label skips the high byte when it would lie beyond the last byte", "word label at physical 0xFFFFF whose result changes the high byte (silently stale)"),
 "C02h": ("shifts clear AF, also for a count of 0", "SHL/SHR/SAR with count 0 and AF = 1 before"),
 "C03h": ("byte IMUL no longer clears OF when the product fits", "AH = 0xFF before (the pinned rule's clearing path) and OF = 1 on entry"),
 "C04h": ("`mov sreg, word [mem]` reads its word through a slice (no wrap)", "segment register loaded from the word at physical 0xFFFFF / 0 (high byte silently 0)"),
 "C05h": ("assembler maps upper-case `SS` as PUSH/POP operand to `ds`", "`PUSH SS` / `POP SS` in capitals with SS != DS"),
 "C06h": ("a taken jump to its own line returns NEXT", "self-targeting taken conditional jump / LOOP (interpreter level)"),
 "C07h": ("driver finishes a REP instruction in an inner loop while stepping (same idea as C07e)", "-i / trap flag and REPE/REPNE CMPS/SCAS ending on its comparison with CX > 0"),
 "C09h": ("INT 10h/13h reads its string with `iter().skip().take()` (stops at the end of memory)", "string crossing 0xFFFFF: silently cut off, no abort"),
 "C10h": ("assembler identifier regexes shortened to `\\w` (Unicode)", "label / data label / procedure name with a non-ASCII letter or digit, referenced by an instruction: Internal Error at run time"),
 "C09i": ("INT 21h/0Ah gets an end-of-input arm that forms DX+1 in 16 bits", "end of input (or only an unreadable line left) when INT 21h/0Ah runs with DX = 0xFFFF: overflow panic in the checked build"),
 "C12i": ("`dw [v , n]` pushes its data line before the 64 KiB check", "a definition refused for size, then further definitions on the same context/output without clear: the loader still places the refused one"),
 "C13i": ("macro nesting set: insert-then-check; the name of the 129th level stays in the set after a 'nested too deep' refusal (Context::clear does not reset the set)", "a refused chain deeper than 128, then - on the same context, cleared or not - a use of the macro with the leftover name: 'Recursive macros' though nothing recurses"),
 "C14i": ("the mapper stays locked when an expansion fails, and Context::clear returns early while it is locked", "a program refused inside a macro expansion, clear(), then an invalid program leaning on the leftover labels / procedures / start: accepted"),
 "C15i": ("a rejected prompt command ends in a recursive call of user_interface", "about 20000 rejected lines at one prompt: stack overflow"),
 "C16i": ("the mapper is unlocked only when the expansion succeeded", "a macro use whose expansion is refused, then further texts on the same context without clear: their instructions are mapped to the stale position"),
 "C17i": ("prompt line buffer hoisted; a non-ASCII line is refused on a fast path that skips the clear", "a valid-UTF-8 non-ASCII line at a prompt, then any command at the same prompt"),
 "C18i": ("INT 21h remembers 'input ended' when the buffer is empty after read_line (also after a read error)", "a console line that is not valid UTF-8, then further console reads in the same run"),
 "C19i": ("same change as C13i, judged through C19", "deep-chain refusal, clear(), then a program using the leftover macro name"),
 "C20i": ("the prompt remembers that stdin failed once and is never shown again", "a prompt line that is not valid UTF-8, then further prompts / breakpoints / q"),
 "C01i": ("INT 21h/0Ah falls through after a read error and stores a count of 0 (submitted for C01 and C02)", "a non-zero count byte in the buffer, then an unreadable console line: filed under C18"),
 "C03i": ("byte DIV/IDIV store the remainder in AH before the quotient check", "quotient overflow (INT 0): AX is half overwritten"),
 "C04i": ("a refused `set` (number beyond 16 bits) resets the assembler's data counter", "further data definitions on the same context after the refusal: filed under C19"),
 "C08i": ("a refused duplicate label overwrites the label table (insert-then-check)", "a piece re-defining a label is refused, later pieces jump to the label: filed under C19"),
 "C10i": ("`int N` emits its code line before the number is checked", "a refused `int 5`, then further pieces on the same context/output: filed under C19"),
}
rows = []
for d in sorted(glob.glob(os.path.join(ROOT, "seeded", "*"))):
    name = os.path.basename(d)
    mp = os.path.join(d, "meta.json")
    if not os.path.exists(mp):
        continue
    m = json.load(open(mp))
    what, needs = D.get(name, ("", "see demo/NOTES.md"))
    m["what"] = what
    m["needs_to_manifest"] = needs
    det = os.path.join(d, "detected.txt")
    fired = []
    if os.path.exists(det):
        ran = None
        for l in open(det):
            if l.startswith("# checks run:"):
                ran = l.split(":", 1)[1].split()
                continue
            p = l.split()
            if len(p) >= 2 and p[1] == "FIRED":
                fired.append(p[0])
        m["detected_by"] = fired
        m["checks_run_against_it"] = ran if ran else "all 20"
        m["detected_how"] = "tools/matrix.sh: every check's quick command against a scratch copy of /repo with patch.diff applied"
    json.dump(m, open(mp, "w"), indent=1)
    rows.append((name, m["property"], what, needs, m.get("detected_by", [])))
if "--table" in sys.argv:
    print("| seeded change | property | what was changed | what it needs to show | quick checks that fire |")
    print("|---|---|---|---|---|")
    for name, prop, what, needs, fired in rows:
        own = prop in fired
        fs = ", ".join(("**%s**" % f) if f == prop else f for f in fired) if fired else "(matrix not run)"
        print("| %s | %s | %s | %s | %s |" % (name, prop, what, needs, fs))
