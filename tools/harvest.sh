#!/bin/bash
# maintenance helper: validate a sub-agent's seeded change in its scratch worktree and store it under seeded/<name>/
#   tools/harvest.sh <worktree dir> <property id> <name>
set -u
wt="$1"; prop="$2"; name="$3"
dst="/verif/seeded/$name"
cd "$wt" || exit 2
git diff -- src > /tmp/harvest.$$.patch
if [ ! -s /tmp/harvest.$$.patch ]; then echo "no change in $wt/src"; exit 2; fi
echo "--- change:"; cat /tmp/harvest.$$.patch | head -60
echo "--- tests with the change:"
t=$(CARGO_NET_OFFLINE=true cargo test --workspace --no-fail-fast --offline 2>&1 | grep -E "^test result" | head -1); echo "$t"
echo "--- demo with the change (want exit 1):"
bash verif_demo/run.sh "$wt" >/tmp/harvest.$$.out1 2>&1; r1=$?; tail -5 /tmp/harvest.$$.out1; echo "exit=$r1"
git apply -R /tmp/harvest.$$.patch || { echo "cannot revert"; exit 2; }
echo "--- demo without the change (want exit 0):"
bash verif_demo/run.sh "$wt" >/tmp/harvest.$$.out0 2>&1; r0=$?; tail -3 /tmp/harvest.$$.out0; echo "exit=$r0"
git apply /tmp/harvest.$$.patch
ok=no
if echo "$t" | grep -q "68 passed; 0 failed" && [ $r1 -eq 1 ] && [ $r0 -eq 0 ]; then ok=yes; fi
echo "VALID=$ok"
if [ $ok = yes ]; then
  mkdir -p "$dst"
  cp /tmp/harvest.$$.patch "$dst/patch.diff"
  rm -rf "$dst/demo"; mkdir -p "$dst/demo"
  (cd verif_demo && for f in *; do case "$f" in target|*.patch) ;; *) cp -r "$f" "$dst/demo/";; esac; done)
  python3 - "$dst" "$prop" "$t" <<'PY'
import json,sys,os
dst,prop,t=sys.argv[1:4]
notes=open(os.path.join(dst,'demo','NOTES.md')).read() if os.path.exists(os.path.join(dst,'demo','NOTES.md')) else ''
meta={"property":prop,"origin":"independent sub-agent given only the property text and a scratch worktree","needs_to_manifest":"see demo/NOTES.md","validated":{"tests_with_change":t,"demo_with_change_exit":1,"demo_without_change_exit":0,"how":"tools/harvest.sh: cargo test --workspace --offline in the scratch worktree with the change; demo/run.sh <worktree> with the change (exit 1) and with it reverted (exit 0)"},"detected_by":[]}
json.dump(meta,open(os.path.join(dst,'meta.json'),'w'),indent=1)
PY
  echo "stored in $dst"
fi
rm -f /tmp/harvest.$$.*
