#!/bin/bash
# maintenance helper: run every quick check against a behaviour-preserving refactor living in a scratch worktree;
# anything that fires is either a mistake of the refactor or a false alarm of a monitor (triage by hand).
#   tools/refcheck.sh <worktree> [IDs...]
wt="$(cd "$1" && pwd)"; shift
ids="$*"; [ -z "$ids" ] && ids="C01 C02 C03 C04 C05 C06 C07 C08 C09 C10 C11 C12 C13 C14 C15 C16 C17 C18 C19 C20"
cd "$(dirname "$0")/.."
mkdir -p "$wt/.vroot"; cp KNOWN_FINDINGS.txt "$wt/.vroot/"
for id in $ids; do
  o=$(VERIF_REPO="$wt" VERIF_ROOT="$wt/.vroot" ./check $id quick 2>&1); rc=$?
  if [ $rc -eq 0 ]; then echo "$id silent"; else echo "== $id rc=$rc"; echo "$o" | grep -E "^VIOLATION|^INCONCLUSIVE|^HARNESS|^error" | sed 's/ replay=[^ ]*//' | cut -c1-240 | head -8; echo "$o" | tail -2 | cut -c1-200; fi
done
