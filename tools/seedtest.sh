#!/bin/bash
# maintenance helper (not a registered check): apply a seeded change to /repo, run checks, restore /repo.
#   tools/seedtest.sh <patch.diff> [tier] [ID ...]     (default tier quick, default: all 20 checks)
set -u
patch="$(realpath "$1")"; shift
tier="quick"; if [ "${1:-}" = "quick" ] || [ "${1:-}" = "thorough" ]; then tier="$1"; shift; fi
ids="$*"; [ -z "$ids" ] && ids="C01 C02 C03 C04 C05 C06 C07 C08 C09 C10 C11 C12 C13 C14 C15 C16 C17 C18 C19 C20"
cd "$(dirname "$0")/.."
if [ -n "$(git -C /repo status --porcelain --untracked-files=no)" ]; then echo "/repo is not clean"; exit 2; fi
# a background `vp run` rebuilds from /repo's working tree whenever one of its checks starts: patching /repo now would
# make that run judge the seeded tree (this happened to thorough run #5). Use tools/matrix.sh (scratch copies) instead.
if command -v vp >/dev/null 2>&1 && vp runs 2>/dev/null | grep -q " running "; then echo "a vp run is in progress: not touching /repo (use MATRIX_CHECKS=\"IDs\" tools/matrix.sh 1 <name>)"; exit 2; fi
git -C /repo apply "$patch" || { echo "patch does not apply"; exit 2; }
trap 'git -C /repo checkout -- . ' EXIT
fired=""
for id in $ids; do
  out=$(./check $id $tier 2>&1); rc=$?
  n=$(echo "$out" | grep -c '^VIOLATION')
  if [ $rc -eq 1 ]; then fired="$fired $id"; echo "== $id FIRED ($n signatures)"; echo "$out" | grep '^VIOLATION' | sed 's/ replay=[^ ]*//' | cut -c1-220 | head -6
  elif [ $rc -ne 0 ]; then echo "== $id rc=$rc (inconclusive/harness)"; echo "$out" | tail -3 | cut -c1-200
  else echo "== $id silent"; fi
done
echo "FIRED:$fired"
