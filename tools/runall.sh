#!/bin/bash
# maintenance helper: run every check at a tier/seed and summarise (not registered in the manifest)
tier="${1:-quick}"; seed="${2:-1}"
cd "$(dirname "$0")/.."
rc_all=0
for id in C01 C02 C03 C04 C05 C06 C07 C08 C09 C10 C11 C12 C13 C14 C15 C16 C17 C18 C19 C20; do
  out=$(VERIF_SEED=$seed ./check $id $tier 2>&1); rc=$?
  echo "$out" | grep -E "^VIOLATION|^INCONCLUSIVE|^HARNESS" | cut -c1-260
  echo "$out" | tail -1 | cut -c1-200
  echo "   rc=$rc"
  [ $rc -ne 0 ] && rc_all=1
done
exit $rc_all
