//! Seeded generators of operands, instructions and machine states.
use crate::ast::*;
use crate::util::Rng;

pub const DISPS: [i16; 12] = [0, 1, -1, 2, -2, 0x7F, -0x80, 0x100, 0x7FFF, -0x8000, 0x1234, -0x1235];

pub const BASES: [R16; 2] = [R16::BX, R16::BP];
pub const INDEXES: [R16; 2] = [R16::SI, R16::DI];
pub const SEG_OPTS: [Option<SR>; 5] = [None, Some(SR::ES), Some(SR::CS), Some(SR::SS), Some(SR::DS)];

/// every addressing shape × register choice × override, displacements set to `d`
pub fn mem_shapes(d: i16, direct: u16) -> Vec<Mem> {
    let mut v = Vec::new();
    for seg in SEG_OPTS {
        v.push(Mem { seg, form: MemForm::Direct(direct) });
        for r in [R16::BX, R16::BP, R16::SI, R16::DI] {
            v.push(Mem { seg, form: MemForm::Ind(r) });
        }
        for b in BASES {
            v.push(Mem { seg, form: MemForm::Based(b, d) });
        }
        for i in INDEXES {
            v.push(Mem { seg, form: MemForm::Indexed(i, d) });
        }
        for b in BASES {
            for i in INDEXES {
                v.push(Mem { seg, form: MemForm::BasedIndexed(b, i, Some(d)) });
                v.push(Mem { seg, form: MemForm::BasedIndexed(b, i, None) });
            }
        }
    }
    v
}

pub fn rand_disp(rng: &mut Rng) -> i16 {
    if rng.chance(2, 3) {
        *rng.pick(&DISPS)
    } else {
        rng.u16() as i16
    }
}

pub fn rand_mem(rng: &mut Rng) -> Mem {
    let seg = *rng.pick(&SEG_OPTS);
    let form = match rng.below(5) {
        0 => MemForm::Direct(rng.hostile16()),
        1 => MemForm::Ind(*rng.pick(&[R16::BX, R16::BP, R16::SI, R16::DI])),
        2 => MemForm::Based(*rng.pick(&BASES), rand_disp(rng)),
        3 => MemForm::Indexed(*rng.pick(&INDEXES), rand_disp(rng)),
        _ => MemForm::BasedIndexed(*rng.pick(&BASES), *rng.pick(&INDEXES), if rng.chance(1, 3) { None } else { Some(rand_disp(rng)) }),
    };
    Mem { seg, form }
}

pub fn rand_r8(rng: &mut Rng) -> R8 {
    *rng.pick(&ALL_R8)
}
pub fn rand_r16(rng: &mut Rng) -> R16 {
    *rng.pick(&ALL_R16)
}

/// the operand-form pairs of a two-operand ALU instruction, by index 0..16
pub const ALU2_FORMS: usize = 16;
pub fn alu2_form(k: usize, rng: &mut Rng, blabels: &[&str], wlabels: &[&str]) -> (Loc, Src) {
    let imm = |rng: &mut Rng| Src::Imm(rng.hostile16());
    match k {
        0 => (Loc::R8(rand_r8(rng)), Src::Loc(Loc::R8(rand_r8(rng)))),
        1 => (Loc::R16(rand_r16(rng)), Src::Loc(Loc::R16(rand_r16(rng)))),
        2 => (Loc::R8(rand_r8(rng)), Src::Loc(Loc::Mem(W::B, rand_mem(rng)))),
        3 => (Loc::R16(rand_r16(rng)), Src::Loc(Loc::Mem(W::W, rand_mem(rng)))),
        4 => (Loc::R8(rand_r8(rng)), Src::Loc(Loc::Label(W::B, rng.pick(blabels).to_string()))),
        5 => (Loc::R16(rand_r16(rng)), Src::Loc(Loc::Label(W::W, rng.pick(wlabels).to_string()))),
        6 => (Loc::Mem(W::B, rand_mem(rng)), Src::Loc(Loc::R8(rand_r8(rng)))),
        7 => (Loc::Mem(W::W, rand_mem(rng)), Src::Loc(Loc::R16(rand_r16(rng)))),
        8 => (Loc::Label(W::B, rng.pick(blabels).to_string()), Src::Loc(Loc::R8(rand_r8(rng)))),
        9 => (Loc::Label(W::W, rng.pick(wlabels).to_string()), Src::Loc(Loc::R16(rand_r16(rng)))),
        10 => (Loc::R8(rand_r8(rng)), Src::Imm(rng.hostile16() & 0xFF)),
        11 => (Loc::R16(rand_r16(rng)), imm(rng)),
        12 => (Loc::Mem(W::B, rand_mem(rng)), Src::Imm(rng.hostile16() & 0xFF)),
        13 => (Loc::Mem(W::W, rand_mem(rng)), imm(rng)),
        14 => (Loc::Label(W::B, rng.pick(blabels).to_string()), Src::Imm(rng.hostile16() & 0xFF)),
        _ => (Loc::Label(W::W, rng.pick(wlabels).to_string()), imm(rng)),
    }
}

/// the six operand forms of a one-operand instruction
pub const UN_FORMS: usize = 6;
pub fn un_form(k: usize, rng: &mut Rng, blabels: &[&str], wlabels: &[&str]) -> Loc {
    match k {
        0 => Loc::R8(rand_r8(rng)),
        1 => Loc::R16(rand_r16(rng)),
        2 => Loc::Mem(W::B, rand_mem(rng)),
        3 => Loc::Mem(W::W, rand_mem(rng)),
        4 => Loc::Label(W::B, rng.pick(blabels).to_string()),
        _ => Loc::Label(W::W, rng.pick(wlabels).to_string()),
    }
}
