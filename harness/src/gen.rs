//! Seeded generators of operands, instructions and machine states.
use crate::ast::*;
use crate::util::Rng;

pub const DISPS: [i16; 12] = [0, 1, -1, 2, -2, 0x7F, -0x80, 0x100, 0x7FFF, -0x8000, 0x1234, -0x1235];

pub const BASES: [R16; 2] = [R16::BX, R16::BP];
pub const INDEXES: [R16; 2] = [R16::SI, R16::DI];
pub const SEG_OPTS: [Option<SR>; 5] = [None, Some(SR::ES), Some(SR::CS), Some(SR::SS), Some(SR::DS)];

/// every addressing shape × register choice × override, displacements set to `d`
pub fn mem_shapes(d: i16, direct: u16) -> Vec<Mem> {
    let mut v = Vec::new();
    for seg in SEG_OPTS {
        v.push(Mem { seg, form: MemForm::Direct(direct) });
        for r in [R16::BX, R16::BP, R16::SI, R16::DI] {
            v.push(Mem { seg, form: MemForm::Ind(r) });
        }
        for b in BASES {
            v.push(Mem { seg, form: MemForm::Based(b, d) });
        }
        for i in INDEXES {
            v.push(Mem { seg, form: MemForm::Indexed(i, d) });
        }
        for b in BASES {
            for i in INDEXES {
                v.push(Mem { seg, form: MemForm::BasedIndexed(b, i, Some(d)) });
                v.push(Mem { seg, form: MemForm::BasedIndexed(b, i, None) });
            }
        }
    }
    v
}

pub fn rand_disp(rng: &mut Rng) -> i16 {
    if rng.chance(2, 3) {
        *rng.pick(&DISPS)
    } else {
        rng.u16() as i16
    }
}

pub fn rand_mem(rng: &mut Rng) -> Mem {
    let seg = *rng.pick(&SEG_OPTS);
    let form = match rng.below(5) {
        0 => MemForm::Direct(rng.hostile16()),
        1 => MemForm::Ind(*rng.pick(&[R16::BX, R16::BP, R16::SI, R16::DI])),
        2 => MemForm::Based(*rng.pick(&BASES), rand_disp(rng)),
        3 => MemForm::Indexed(*rng.pick(&INDEXES), rand_disp(rng)),
        _ => MemForm::BasedIndexed(*rng.pick(&BASES), *rng.pick(&INDEXES), if rng.chance(1, 3) { None } else { Some(rand_disp(rng)) }),
    };
    Mem { seg, form }
}

pub fn rand_r8(rng: &mut Rng) -> R8 {
    *rng.pick(&ALL_R8)
}
pub fn rand_r16(rng: &mut Rng) -> R16 {
    *rng.pick(&ALL_R16)
}

/// the operand-form pairs of a two-operand ALU instruction, by index 0..16
pub const ALU2_FORMS: usize = 16;
pub fn alu2_form(k: usize, rng: &mut Rng, blabels: &[&str], wlabels: &[&str]) -> (Loc, Src) {
    let imm = |rng: &mut Rng| Src::Imm(rng.hostile16());
    match k {
        0 => (Loc::R8(rand_r8(rng)), Src::Loc(Loc::R8(rand_r8(rng)))),
        1 => (Loc::R16(rand_r16(rng)), Src::Loc(Loc::R16(rand_r16(rng)))),
        2 => (Loc::R8(rand_r8(rng)), Src::Loc(Loc::Mem(W::B, rand_mem(rng)))),
        3 => (Loc::R16(rand_r16(rng)), Src::Loc(Loc::Mem(W::W, rand_mem(rng)))),
        4 => (Loc::R8(rand_r8(rng)), Src::Loc(Loc::Label(W::B, rng.pick(blabels).to_string()))),
        5 => (Loc::R16(rand_r16(rng)), Src::Loc(Loc::Label(W::W, rng.pick(wlabels).to_string()))),
        6 => (Loc::Mem(W::B, rand_mem(rng)), Src::Loc(Loc::R8(rand_r8(rng)))),
        7 => (Loc::Mem(W::W, rand_mem(rng)), Src::Loc(Loc::R16(rand_r16(rng)))),
        8 => (Loc::Label(W::B, rng.pick(blabels).to_string()), Src::Loc(Loc::R8(rand_r8(rng)))),
        9 => (Loc::Label(W::W, rng.pick(wlabels).to_string()), Src::Loc(Loc::R16(rand_r16(rng)))),
        10 => (Loc::R8(rand_r8(rng)), Src::Imm(rng.hostile16() & 0xFF)),
        11 => (Loc::R16(rand_r16(rng)), imm(rng)),
        12 => (Loc::Mem(W::B, rand_mem(rng)), Src::Imm(rng.hostile16() & 0xFF)),
        13 => (Loc::Mem(W::W, rand_mem(rng)), imm(rng)),
        14 => (Loc::Label(W::B, rng.pick(blabels).to_string()), Src::Imm(rng.hostile16() & 0xFF)),
        _ => (Loc::Label(W::W, rng.pick(wlabels).to_string()), imm(rng)),
    }
}

/// the six operand forms of a one-operand instruction
pub const UN_FORMS: usize = 6;
pub fn un_form(k: usize, rng: &mut Rng, blabels: &[&str], wlabels: &[&str]) -> Loc {
    match k {
        0 => Loc::R8(rand_r8(rng)),
        1 => Loc::R16(rand_r16(rng)),
        2 => Loc::Mem(W::B, rand_mem(rng)),
        3 => Loc::Mem(W::W, rand_mem(rng)),
        4 => Loc::Label(W::B, rng.pick(blabels).to_string()),
        _ => Loc::Label(W::W, rng.pick(wlabels).to_string()),
    }
}

// ---------------------------------------------------------------------------------------
// aiming an operand at a chosen physical address (the last bytes of the 1 MiB space, the wrap to 0)

use crate::ref8086::{ea, r16_idx, sr_idx, Regs, DI, DS, ES, SI, SS};
use std::collections::HashMap;

/// the first memory-like operand (destination first)
pub fn first_mem_operand(ins: &Ins) -> Option<&Loc> {
    let pick = |l: &Loc| l.is_mem();
    match ins {
        Ins::Alu2(_, d, s) | Ins::Mov(d, s) => {
            if pick(d) {
                Some(d)
            } else if let Src::Loc(l) = s {
                if pick(l) {
                    Some(l)
                } else {
                    None
                }
            } else {
                None
            }
        }
        Ins::Un(_, d) | Ins::Sh(_, d, _) | Ins::Push(d) | Ins::Pop(d) | Ins::Lea(_, d) => {
            if pick(d) {
                Some(d)
            } else {
                None
            }
        }
        Ins::Xchg(a, b) => {
            if pick(a) {
                Some(a)
            } else if pick(b) {
                Some(b)
            } else {
                None
            }
        }
        _ => None,
    }
}

/// Change `regs` so that the first memory operand of `ins` (or the string elements DS:SI / ES:DI) lies at the
/// physical address `target`. Returns false when the instruction has no such operand or its offset cannot be
/// adjusted (a direct address or a label whose offset has the wrong low nibble).
pub fn aim_operand(ins: &Ins, regs: &mut Regs, labels: &HashMap<String, u16>, target: u32) -> bool {
    let want_low = (target & 0xF) as u16;
    if let Ins::Str(..) = ins {
        for (segi, offi) in [(DS, SI), (ES, DI)] {
            regs[offi] = (regs[offi] & 0xFFF0) | want_low;
            regs[segi] = ((((target as u64 + (1 << 20)) - regs[offi] as u64) >> 4) & 0xFFFF) as u16;
        }
        return true;
    }
    let loc = match first_mem_operand(ins) {
        Some(l) => l.clone(),
        None => return false,
    };
    let (segi, off) = match &loc {
        Loc::Label(_, name) => match labels.get(name) {
            Some(o) => (DS, *o),
            None => return false,
        },
        Loc::Mem(_, m) => {
            // adjust a participating register so that the offset gets the wanted low nibble
            let (_, off0) = ea(regs, m);
            let delta = want_low.wrapping_sub(off0) & 0xF;
            if delta != 0 {
                let reg = match m.form {
                    MemForm::Direct(_) => return false,
                    MemForm::Ind(r) | MemForm::Based(r, _) | MemForm::Indexed(r, _) => r,
                    MemForm::BasedIndexed(_, i, _) => i,
                };
                regs[r16_idx(reg)] = regs[r16_idx(reg)].wrapping_add(delta);
            }
            let (_, off) = ea(regs, m);
            let segi = match m.seg {
                Some(s) => sr_idx(s),
                None => {
                    if m.uses_bp() {
                        SS
                    } else {
                        DS
                    }
                }
            };
            (segi, off)
        }
        _ => return false,
    };
    if off & 0xF != want_low {
        return false;
    }
    regs[segi] = ((((target as u64 + (1 << 20)) - off as u64) >> 4) & 0xFFFF) as u16;
    // a register may serve as offset part and be recomputed: verify
    let ok = match &loc {
        Loc::Mem(_, m) => {
            let (s, o) = ea(regs, m);
            (s as u32 * 16 + o as u32) % (1 << 20) == target
        }
        _ => (regs[segi] as u32 * 16 + off as u32) % (1 << 20) == target,
    };
    ok
}

/// labels whose offsets let every target nibble be reached (used by the end-of-memory planes)
pub const EDGE_LABELS: [(&str, u16); 3] = [("vwf", 0x000F), ("vwg", 0x123E), ("vbf", 0x777F)];

/// rename label operands to the edge labels half of the time
pub fn rename_label(ins: &mut Ins, rng: &mut Rng) {
    let f = |l: &mut Loc, rng: &mut Rng| {
        if let Loc::Label(w, name) = l {
            if rng.chance(1, 2) {
                *name = match w {
                    W::W => (*rng.pick(&["vwf", "vwg"])).to_string(),
                    W::B => "vbf".to_string(),
                };
            }
        }
    };
    match ins {
        Ins::Alu2(_, d, s) | Ins::Mov(d, s) => {
            f(d, rng);
            if let Src::Loc(l) = s {
                f(l, rng);
            }
        }
        Ins::Un(_, d) | Ins::Sh(_, d, _) | Ins::Push(d) | Ins::Pop(d) | Ins::Lea(_, d) => f(d, rng),
        Ins::Xchg(a, b) => {
            f(a, rng);
            f(b, rng);
        }
        _ => {}
    }
}
