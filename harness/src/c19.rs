//! C19 — runs are reproducible; machines and parser objects do not leak state.
use crate::asm::{AsmErr, Assembled, Session};
use crate::ast::*;
use crate::c01::{BLABELS, WLABELS};
use crate::c09::{rand_ins, CLASSES};
use crate::cli::*;
use crate::genprog::*;
use crate::machine::*;
use crate::prog::*;
use crate::ref8086::*;
use crate::report::{Failure, Report};
use crate::util::*;
use emulator_8086_lib as lib;
use lib::{DataParser, Interpreter, InterpreterContext, Label, LabelType, Preprocessor, PreprocessorContext, PreprocessorOutput, VM};
use std::panic::{catch_unwind, AssertUnwindSafe};

// ---------------------------------------------------------------------------------------
// (a) repeated runs of the binary

fn corpus_item(rng: &mut Rng, i: usize) -> (String, String, Vec<u8>, bool) {
    // (class, source, stdin, interpreted)
    match i % 8 {
        0 | 1 => {
            let p = structured_program(rng, &SOpts { prints: true, int3: i % 16 == 0, out_chars: true, ..Default::default() });
            let lay = Layout { trailing_newline: rng.chance(1, 2), filler_pct: 10, pack_pct: 10, comments: false };
            let text = p.render(&mut Spell::random(rng.fork(3)), &lay).text;
            ("valid".into(), text, b"n\n".repeat(40), false)
        }
        2 => {
            // k >= 2 distinct undefined jump targets
            let k = 2 + rng.below(5);
            let mut t = String::from("start:\nmov ax,1\n");
            let mut names: Vec<String> = (0..k).map(|j| format!("{}{}", ["nowhere", "missing", "ghost", "zz", "Q", "undefd", "a"][j], rng.below(100))).collect();
            // shuffle
            for j in (1..names.len()).rev() {
                let x = rng.below(j + 1);
                names.swap(j, x);
            }
            // directly, or through a macro (every use of the macro records the same position inside its expansion)
            // every third such program: behind hundreds / thousands of forward references to a label that IS defined
            // later, the first two undefined labels coming out of one macro use (equal positions)
            let many = if (i / 8) % 3 == 0 { *rng.pick(&[257usize, 300, 1000, 4097, 5000]) } else { 0 };
            let via_macro = many > 0 || rng.chance(1, 2);
            for _ in 0..many {
                t.push_str("jmp later_on\n");
            }
            if via_macro {
                t = format!("macro br(tgt) -> {} tgt <-\nmacro br2(a,b) -> br(a) br(b) <-\n{}", rng.pick(&["jmp", "je", "loop"]), t);
            }
            for (j, n) in names.iter().enumerate() {
                if via_macro {
                    if j + 1 < names.len() && ((many > 0 && j == 0) || rng.chance(1, 3)) {
                        t.push_str(&format!("br2({},{})\n", n, names[j + 1]));
                    } else {
                        t.push_str(&format!("br({})\nmov bx,2\n", n));
                    }
                } else {
                    t.push_str(&format!("{} {}\nmov bx,2\n", rng.pick(&["jmp", "je", "loop", "jnz", "jcxz"]), n));
                }
            }
            if many > 0 {
                t.push_str("later_on:\nmov cx,3\n");
            }
            (format!("undefined-labels-{}{}{}", k.min(4), if via_macro { "-via-macro" } else { "" }, if many > 0 { "-among-many-forward-references" } else { "" }), t, vec![], false)
        }
        3 => {
            // undefined labels and no start, or undefined + duplicate definitions
            let t = match rng.below(3) {
                0 => "begin:\njmp a1\njmp b2\njmp c3\n".to_string(),
                1 => "start:\njmp x1\nL:\nmov ax,1\nL:\njmp y2\n".to_string(),
                _ => "start:\njmp p\njmp q\njmp r\njmp s\njmp t\njmp u\njmp v\njmp w\n".to_string(),
            };
            ("several-errors".into(), t, vec![], false)
        }
        4 => {
            // several syntax errors at once
            let bad = ["mov ax,,1", "add [bx],[si]", "mov al,300", "foo bar", "jmp", "db 1 2 3 \"", "mov ax,1 ]"];
            let mut t = String::from("start:\n");
            for _ in 0..2 + rng.below(3) {
                t.push_str(bad[rng.below(bad.len())]);
                t.push('\n');
            }
            ("syntax-errors".into(), t, vec![], false)
        }
        5 => {
            // console input services
            let t = "buf: db [0,40]\nstart:\nmov ah,1\nint 0x21\nmov bx,ax\nmov dx, offset buf\nmov byte buf, 20\nmov ah,10\nint 0x21\nprint mem offset buf : 24\nprint reg\nmov ah,1\nint 0x21\nprint reg\n".to_string();
            let mut stdin = Vec::new();
            for _ in 0..rng.below(4) {
                for _ in 0..rng.below(30) {
                    stdin.push(b'a' + rng.below(26) as u8);
                }
                stdin.push(b'\n');
            }
            ("console-input".into(), t, stdin, false)
        }
        6 => {
            // stepping with a script
            let p = structured_program(rng, &SOpts { prints: true, ..Default::default() });
            let text = p.render_plain().text;
            let mut stdin = Vec::new();
            for _ in 0..60 {
                stdin.extend_from_slice(rng.pick(&["n\n", "print reg\n", "bogus\n", "next\n", "print mem 0 -> 40\n"]).as_bytes());
            }
            if rng.chance(1, 2) {
                stdin.extend_from_slice(b"q\n");
            }
            ("stepping-script".into(), text, stdin, true)
        }
        _ => {
            // runtime errors: divide error / unsupported AH / ret without call
            let t = match rng.below(3) {
                0 => "start:\nmov ax,7\nmov bl,0\ndiv bl\nmov cx,1\n".to_string(),
                1 => "start:\nmov ah,77\nint 0x21\nmov cx,1\n".to_string(),
                _ => "start:\nmov ax,1\nret\nmov cx,1\n".to_string(),
            };
            ("runtime-error".into(), t, vec![], false)
        }
    }
}

fn repeated_runs(rep: &Report, n: usize, runs: usize, seed: u64) {
    par_for(n, 1, |i| {
        let core = i < 64;
        let mut rng = if core { Rng::new(0xC19A).fork(i as u64) } else { Rng::new(seed).fork(0xC19A_0000 + i as u64) };
        let (class, src, stdin, interp) = corpus_item(&mut rng, i);
        let mut first: Option<CliOut> = None;
        rep.eval(1);
        for k in 0..runs {
            let out = run_cli(src.as_bytes(), &CliOpts { interpreted: interp, stdin: &stdin, ..Default::default() });
            rep.count("CLI runs compared", 1);
            if out.timed_out || out.flooded {
                rep.inconclusive("cli watchdog");
                return;
            }
            match &first {
                None => first = Some(out),
                Some(f) => {
                    if f.stdout != out.stdout || f.code != out.code || f.signal != out.signal {
                        let pos = (0..f.stdout.len().min(out.stdout.len())).find(|j| f.stdout[*j] != out.stdout[*j]).unwrap_or(f.stdout.len().min(out.stdout.len()));
                        let a = String::from_utf8_lossy(&f.stdout[pos.saturating_sub(60)..f.stdout.len().min(pos + 80)]).to_string();
                        let b = String::from_utf8_lossy(&out.stdout[pos.saturating_sub(60)..out.stdout.len().min(pos + 80)]).to_string();
                        rep.fail(Failure {
                            sig: format!("repro:cli:{}", class),
                            what: format!("C19: two runs of the same program with the same input differ in output or exit status ({})", class),
                            witness: format!(
                                "{{\"kind\": \"cli-repeat\", \"source\": {}, \"stdin\": {}, \"run\": {}, \"first\": {}, \"other\": {}, \"status_first\": {}, \"status_other\": {}}}",
                                json_str(&src),
                                json_bytes(&stdin[..stdin.len().min(300)]),
                                k,
                                json_str(&a),
                                json_str(&b),
                                json_str(&f.status_str()),
                                json_str(&out.status_str())
                            ),
                            // which run differs is random: no fingerprint
                            core_item: None,
                        });
                        return;
                    }
                }
            }
        }
        let f = first.unwrap();
        rep.distinct_str(&format!("{}|{}", class, fnv64(&f.stdout) % 64));
        if i == 2 {
            rep.sample(format!("class {} source {:?}: {} identical runs, stdout {} bytes", class, src, runs, f.stdout.len()));
        }
    });
}

// ---------------------------------------------------------------------------------------
// (b) in-process streams

fn mk_ictx() -> InterpreterContext {
    let mut c = InterpreterContext::default();
    for (n, o) in BLABELS {
        c.label_map.insert(n.to_string(), Label::new(LabelType::DATA, 0, o as _));
    }
    for (n, o) in WLABELS {
        c.label_map.insert(n.to_string(), Label::new(LabelType::DATA, 0, o as _));
    }
    c.label_map.insert("tgt".to_string(), Label::new(LabelType::CODE, 0, 3 as _));
    c.fn_map.insert("fnp".to_string(), 5 as _);
    c
}

#[derive(Clone, PartialEq, Eq, Debug)]
struct StreamRes {
    flows: Vec<String>,
    regs: Regs,
    memh: u64,
    stack: Vec<usize>,
}

struct Stream {
    lines: Vec<String>,
    regs: Regs,
    salt: u32,
}

fn gen_stream(rng: &mut Rng, n: usize) -> Stream {
    let mut lines = Vec::new();
    for _ in 0..n {
        if rng.chance(1, 10) {
            // lines the interpreter rejects leave their traces too, if anything leaks
            lines.push(rng.pick(&["mov ax,", "frobnicate", "add byte [bx],300000", "jmp nolabel", "call nofn", "mov ax bx", "\u{e9}"]).to_string());
        } else {
            let cl = rng.below(CLASSES);
            lines.push(rand_ins(rng, cl).ir());
        }
    }
    Stream { lines, regs: hostile_regs(rng), salt: rng.next() as u32 }
}

fn init_vm(vm: &mut VM, s: &Stream) {
    // a sparse, position dependent pattern (writing all 1 MiB per stream would dominate the run time)
    for b in vm.mem.iter_mut() {
        *b = 0;
    }
    for k in 0..4096u32 {
        let a = (k.wrapping_mul(2654435761) ^ s.salt) % MB;
        vm.mem[a as usize] = pattern(a, s.salt);
    }
    load_regs(vm, &s.regs);
}

fn step_line(interp: &Interpreter, vm: &mut VM, ictx: &mut InterpreterContext, idx: usize, line: &str) -> String {
    let mut issues = 0;
    loop {
        let r = catch_unwind(AssertUnwindSafe(|| interp.parse(idx, vm, ictx, line).map_err(|e| format!("{}", e))));
        issues += 1;
        match r {
            Ok(Ok(s)) => {
                let o = state_to_obs(s);
                if o == ObsFlow::Repeat && issues < 200 {
                    continue;
                }
                return format!("{:?}", o);
            }
            Ok(Err(e)) => return format!("ERR {}", e),
            Err(_) => return format!("PANIC {}", panic_kind(&last_panic())),
        }
    }
}

fn finish(vm: &VM, ictx: &InterpreterContext, flows: Vec<String>) -> StreamRes {
    StreamRes { flows, regs: read_regs(vm), memh: fnv64(&vm.mem[..]), stack: ictx.call_stack.iter().map(|x| *x as usize).collect() }
}

fn run_alone(s: &Stream) -> StreamRes {
    let interp = Interpreter::new();
    let mut vm = VM::new();
    let mut ictx = mk_ictx();
    init_vm(&mut vm, s);
    let mut flows = Vec::new();
    for (i, l) in s.lines.iter().enumerate() {
        flows.push(step_line(&interp, &mut vm, &mut ictx, i, l));
    }
    finish(&vm, &ictx, flows)
}

fn diff_kind(a: &StreamRes, b: &StreamRes) -> &'static str {
    if a.flows != b.flows {
        "outcome"
    } else if a.regs != b.regs {
        "registers"
    } else if a.memh != b.memh {
        "memory"
    } else {
        "call-stack"
    }
}

fn interleavings(rep: &Report, n: usize, seed: u64) {
    par_for(n, 4, |i| {
        let core = i < 100;
        let mut rng = if core { Rng::new(0xC19B).fork(i as u64) } else { Rng::new(seed).fork(0xC19B_0000 + i as u64) };
        let n1 = 10 + rng.below(30);
        let s1 = gen_stream(&mut rng, n1);
        let n2 = 10 + rng.below(30);
        let s2 = gen_stream(&mut rng, n2);
        let a1 = run_alone(&s1);
        let a2 = run_alone(&s2);
        // interleaved on two machines sharing one interpreter object
        let interp = Interpreter::new();
        let mut vm1 = VM::new();
        let mut vm2 = VM::new();
        let (mut c1, mut c2) = (mk_ictx(), mk_ictx());
        init_vm(&mut vm1, &s1);
        init_vm(&mut vm2, &s2);
        let (mut f1, mut f2) = (Vec::new(), Vec::new());
        let (mut i1, mut i2) = (0, 0);
        let mut switches = 0u64;
        let mut last = 0;
        while i1 < s1.lines.len() || i2 < s2.lines.len() {
            let pick1 = if i1 >= s1.lines.len() { false } else if i2 >= s2.lines.len() { true } else { rng.chance(1, 2) };
            if pick1 {
                f1.push(step_line(&interp, &mut vm1, &mut c1, i1, &s1.lines[i1]));
                i1 += 1;
                if last == 2 {
                    switches += 1;
                }
                last = 1;
            } else {
                f2.push(step_line(&interp, &mut vm2, &mut c2, i2, &s2.lines[i2]));
                i2 += 1;
                if last == 1 {
                    switches += 1;
                }
                last = 2;
            }
        }
        let b1 = finish(&vm1, &c1, f1);
        let b2 = finish(&vm2, &c2, f2);
        rep.eval(1);
        rep.count("machine switches in interleavings", switches);
        rep.count("instructions executed in interleavings", (s1.lines.len() + s2.lines.len()) as u64);
        rep.distinct(fnv64(format!("{:?}{:?}", a1.regs, a2.regs).as_bytes()));
        for (a, b, s) in [(&a1, &b1, &s1), (&a2, &b2, &s2)] {
            if a != b {
                let k = diff_kind(a, b);
                let pos = (0..a.flows.len().min(b.flows.len())).find(|j| a.flows[*j] != b.flows[*j]);
                rep.fail(Failure {
                    sig: format!("isolation:interleaved:{}", k),
                    what: format!("C19: an instruction stream interleaved with another machine's stream on a shared Interpreter ends differently ({}) from the same stream alone on fresh objects", k),
                    witness: format!("{{\"kind\": \"streams\", \"lines\": {}, \"initial_regs\": {}, \"first_differing_step\": {:?}}}", json_str(&s.lines.join(" | ")), regs_json(&s.regs), pos),
                    core_item: if core { Some(format!("{}|{}", i, k)) } else { None },
                });
            }
        }
        if i == 1 {
            rep.sample(format!("streams {:?} / {:?}", &s1.lines[..s1.lines.len().min(6)], &s2.lines[..s2.lines.len().min(6)]));
        }
    });
}

// ---------------------------------------------------------------------------------------
// (b2) used parser objects answer like fresh ones

fn asm_result(pp: &Preprocessor, src: &str) -> String {
    let mut ctx = PreprocessorContext::default();
    let mut out = PreprocessorOutput::default();
    let r = catch_unwind(AssertUnwindSafe(|| pp.parse(&mut ctx, &mut out, src).map(|_| ()).map_err(|e| format!("{}", e))));
    match r {
        Ok(Ok(())) => {
            let mut labels: Vec<String> = ctx.label_map.iter().map(|(k, l)| format!("{}={}:{}", k, matches!(l.get_type(), LabelType::DATA), l.map)).collect();
            labels.sort();
            let mut fns: Vec<String> = ctx.fn_map.iter().map(|(k, v)| format!("{}={}", k, v)).collect();
            fns.sort();
            let mut und: Vec<String> = ctx.undefined_labels.iter().map(|(p, l)| format!("{}@{}", l, p)).collect();
            und.sort();
            let mut map: Vec<(usize, usize)> = ctx.mapper.get_source_map().into_iter().map(|(k, v)| (crate::util::AsIndex::ix(k), crate::util::AsIndex::ix(v))).collect();
            map.sort();
            format!("OK code={:?} data={:?} labels={:?} fns={:?} undefined={:?} map={:?}", out.code, out.data, labels, fns, und, map)
        }
        Ok(Err(e)) => format!("ERR {}", e),
        Err(_) => format!("PANIC {}", panic_kind(&last_panic())),
    }
}

fn data_result(dp: &DataParser, lines: &[&str]) -> String {
    let mut vm = VM::new();
    let mut ctr = 0usize;
    let mut res = Vec::new();
    for l in lines {
        let r = catch_unwind(AssertUnwindSafe(|| dp.parse(&mut vm, &mut ctr, l).map_err(|e| format!("{}", e))));
        res.push(match r {
            Ok(Ok(())) => "OK".to_string(),
            Ok(Err(e)) => format!("ERR {}", e),
            Err(_) => format!("PANIC {}", panic_kind(&last_panic())),
        });
    }
    format!("{:?} ctr={} ds={} mem={:016x}", res, ctr, vm.arch.ds, fnv64(&vm.mem[..]))
}

const PROBE_PROGRAMS: [&str; 8] = [
    "x: db 5\nw: dw 0x1234\nstart:\nmov ax, word w\nadd al, byte x\nL: loop L\n",
    "macro m(a) -> mov ax,a <-\ndef f { m(5) }\nstart: call f\nprint reg\n",
    "start:\njmp nowhere\n",
    "start:\nmov ax,,\n",
    "set 0x1000\ns: db \"hello\"\nstart: lea si, byte s\nrep movs byte\n",
    "macro a(x) -> b(x) <-\nmacro b(y) -> a(y) <-\nstart: a(1)\n",
    "start: mov al, 256\n",
    "",
];
const NOISE_PROGRAMS: [&str; 8] = [
    "macro m(a) -> mov bx,a <-\nq: db 9\nstart:\nm(7)\n",
    "start:\nmov ax,1 ]]]\n",
    "x: dw [3,4]\nx: db 1\nstart:\n",
    "def f { ret }\ndef f { ret }\nstart:\n",
    "macro m(a) -> m(a) <-\nstart: m(1)\n",
    "L: L: L:\n",
    "start:\ndb \"unterminated\n",
    "w: dw 7\nstart: mov al, word w\n",
];

/// everything a program's meaning depends on, in one comparable text
fn summary(r: Result<(), AsmErr>, a: Assembled) -> String {
    match r {
        Err(e) => format!("ERR {:?}", e),
        Ok(()) => {
            let mut labels: Vec<String> = a.labels.iter().map(|(k, v)| format!("{}={:?}", k, v)).collect();
            labels.sort();
            let mut fns: Vec<String> = a.fn_map.iter().map(|(k, v)| format!("{}={}", k, v)).collect();
            fns.sort();
            let mut map: Vec<(usize, usize)> = a.source_map.iter().map(|(k, v)| (*k, *v)).collect();
            map.sort();
            format!("OK code={:?} data={:?} labels={:?} fns={:?} undefined={:?} map={:?}", a.code, a.data, labels, fns, a.undefined, map)
        }
    }
}

/// A context that went through other programs -- accepted ones and every kind of refused one, in particular refusals
/// raised deep inside macro expansions -- and was then clear()ed must treat the next program like a fresh context.
fn context_reuse(rep: &Report, rounds: usize, seed: u64) {
    par_for(rounds, 1, |i| {
        let core = i < 40;
        let mut rng = if core { Rng::new(0xC19D).fork(i as u64) } else { Rng::new(seed).fork(0xC19D_0000 + i as u64) };
        let noises: Vec<String> = vec![
            crate::c15::macro_chain(129),
            crate::c15::macro_chain(130),
            crate::c15::macro_chain(140),
            crate::c15::macro_chain(128),
            "macro a(p) -> mov p,ax <-\nstart:\nmov bx,1\na(5)\n".into(),
            "macro inner(p) -> mov al,p <-\nmacro outer(p) -> mov bx,1 inner(p) <-\nL1:\nstart:\nouter(300)\n".into(),
            "macro a(p) -> b(p) <-\nmacro b(p) -> a(p) <-\nstart:\na(1)\n".into(),
            "start:\nnosuch(5)\n".into(),
            "x: dw [7,40000]\ny: dw [7,40000]\nstart:\n".into(),
            "macro j2(a,b) -> jmp a jmp b <-\nstart:\nj2(nowhere, later)\nlater:\n".into(),
            "def helper { inc ax }\nmacro bad(p) -> mov p,p,p <-\ndone:\nstart:\nbad(1)\n".into(),
        ];
        let mut sess = Session::new();
        let mut hist: Vec<String> = Vec::new();
        for _ in 0..1 + rng.below(4) {
            let n = if rng.chance(3, 4) {
                noises[rng.below(noises.len())].clone()
            } else if rng.chance(1, 2) {
                NOISE_PROGRAMS[rng.below(NOISE_PROGRAMS.len())].to_string()
            } else {
                rand_program_any(&mut rng, 6).render_plain().text
            };
            let r = sess.parse(&n);
            hist.push(format!("{} -> {}", &n[..n.len().min(60)].replace('\n', "\\n"), if r.is_ok() { "accepted" } else { "refused" }));
            sess.clear();
        }
        let probes: Vec<String> = vec![
            crate::c15::macro_chain(5),
            crate::c15::macro_chain(127),
            "start:\nmov ax,1\n".into(),
            "start:\ncall helper\n".into(),
            "mov ax,1\njmp done\n".into(),
            "macro a(p) -> mov ax,p <-\nmacro inner(p) -> inc p <-\nstart:\na(7)\ninner(bx)\njmp later\nmov cx,3\nlater:\n".into(),
            PROBE_PROGRAMS[i % PROBE_PROGRAMS.len()].to_string(),
        ];
        let probe = &probes[i % probes.len()];
        let r_used = sess.parse(probe);
        let used = summary(r_used, sess.finish());
        let mut f = Session::new();
        let r_fresh = f.parse(probe);
        let fresh = summary(r_fresh, f.finish());
        rep.eval(1);
        rep.count("context-reuse probes (assembler context after clear)", 1);
        rep.distinct_str(&format!("ctx|{}|{}", i % probes.len(), &fresh[..fresh.len().min(3)]));
        if used != fresh {
            rep.fail(Failure {
                sig: format!("reuse:context-after-clear:{}", if fresh.starts_with("OK") && used.starts_with("ERR") { "valid-program-refused" } else if fresh.starts_with("ERR") && used.starts_with("OK") { "invalid-program-accepted" } else { "different-result" }),
                what: "C19: an assembler context that processed other programs and was clear()ed treats a program differently from a fresh context".into(),
                witness: format!("{{\"kind\": \"reuse\", \"history\": {:?}, \"probe\": {}, \"fresh\": {}, \"used\": {}}}", hist, json_str(probe), json_str(&fresh[..fresh.len().min(400)]), json_str(&used[..used.len().min(400)])),
                core_item: if core { Some(format!("{}", i)) } else { None },
            });
        }
    });
}

/// A program given to one context piece by piece (data lines, macro definitions, whole procedures, single statements),
/// with refused pieces in between (a label defined twice, constants out of range, a `set` beyond 16 bits, a macro use
/// whose expansion is refused, a half statement), must end up exactly like the same program given at once without the
/// refused pieces: code, data, labels and procedures. (The library's own tests feed a context piecewise.)
fn piecewise(rep: &Report, n: usize, seed: u64) {
    par_for(n, 2, |i| {
        let core = i < 60;
        let mut rng = if core { Rng::new(0xC19E).fork(i as u64) } else { Rng::new(seed).fork(0xC19E_0000 + i as u64) };
        let (data, _bl, _wl) = rand_data(&mut rng, 2, 2);
        let mut p = structured_program(&mut rng, &SOpts { prints: i % 3 == 0, max_blocks: 2 + i % 5, ..Default::default() });
        p.data = data;
        let text = p.render_plain().text;
        // pieces
        let mut pieces: Vec<String> = Vec::new();
        let mut cur = String::new();
        let mut in_def = false;
        for l in text.lines() {
            if l.trim().is_empty() {
                continue;
            }
            if in_def {
                cur.push_str(l);
                cur.push('\n');
                if l.trim() == "}" {
                    in_def = false;
                    pieces.push(std::mem::take(&mut cur));
                }
                continue;
            }
            if l.trim_start().starts_with("def ") && !l.contains('}') {
                in_def = true;
                cur.push_str(l);
                cur.push('\n');
                continue;
            }
            pieces.push(format!("{}\n", l));
        }
        if in_def {
            return;
        }
        // a macro of the harness's own for refusals inside an expansion; data first, so it goes behind the data lines
        let first_non_data = pieces.iter().position(|x| {
            let t = x.trim_start().to_ascii_lowercase();
            !(t.starts_with("set ") || t.contains(": db") || t.contains(": dw") || t.starts_with("db ") || t.starts_with("dw "))
        });
        let at = first_non_data.unwrap_or(pieces.len());
        pieces.insert(at, "macro zzimm(v) -> mov al,v <-\n".into());
        let whole: String = pieces.concat();
        let fresh = {
            let mut f = Session::new();
            let r = f.parse(&whole);
            (r.is_ok(), f.finish())
        };
        if !fresh.0 {
            rep.count("piecewise programs refused as a whole (not judged)", 1);
            return;
        }
        let mut sess = Session::new();
        let mut labels_seen: Vec<String> = Vec::new();
        let mut hist: Vec<String> = Vec::new();
        let mut code_started = false;
        for pc in &pieces {
            // refused pieces in front of this one
            if rng.chance(1, 3) {
                let cands: Vec<String> = {
                    let mut c: Vec<String> = vec!["mov al,300\n".into(), "set 70000\n".into(), "mov ax,\n".into(), "frob ax\n".into(), "jmp\n".into(), "mov bl, 0x1FF\n".into()];
                    if code_started {
                        c.push("zzimm(300)\n".into());
                        c.push("zzimm(70000)\n".into());
                        c.push("int 5\n".into());
                        c.push("INT 0x20\n".into());
                        c.push("shl ax,300\n".into());
                        c.push("in al,5\n".into());
                        c.push("call nosuch_procedure_zz\n".into());
                    }
                    if let Some(l) = labels_seen.last() {
                        c.push(format!("{}:\n", l));
                        c.push(format!("{}: mov dx,9\n", l));
                    }
                    c
                };
                let bad = &cands[rng.below(cands.len())];
                let r = sess.parse(bad);
                hist.push(format!("{:?} -> {}", bad, if r.is_ok() { "accepted" } else { "refused" }));
                if r.is_ok() {
                    // (e.g. a data-like line in an unexpected place): not a refused piece after all, give this case up
                    rep.count("piecewise cases given up: an intended refusal was accepted", 1);
                    return;
                }
            }
            let r = sess.parse(pc);
            if r.is_err() {
                rep.fail(Failure {
                    sig: "reuse:piecewise:valid-piece-refused".into(),
                    what: "C19: a piece of a valid program is refused when the context has met refused pieces before".into(),
                    witness: format!("{{\"kind\": \"src-sequence\", \"refused_before\": {:?}, \"piece\": {}, \"result\": {}, \"whole_program\": {}}}", hist, json_str(pc), json_str(&format!("{:?}", r)), json_str(&whole)),
                    core_item: if core { Some(format!("{}|refused", i)) } else { None },
                });
                return;
            }
            let t = pc.trim();
            if t.starts_with("start:") {
                code_started = true;
            }
            if let Some(pos) = t.find(':') {
                let name = &t[..pos];
                if code_started && !name.is_empty() && name.chars().all(|c| c.is_ascii_alphanumeric() || c == '_') {
                    labels_seen.push(name.to_string());
                }
            }
        }
        rep.eval(1);
        rep.count("programs assembled piece by piece with refused pieces in between", 1);
        rep.distinct_str(&format!("piecewise|{}|{}", pieces.len().min(30), hist.len().min(6)));
        let used = sess.finish();
        let f = &fresh.1;
        let mut lab_u: Vec<_> = used.labels.iter().collect();
        lab_u.sort();
        let mut lab_f: Vec<_> = f.labels.iter().collect();
        lab_f.sort();
        let mut fn_u: Vec<_> = used.fn_map.iter().collect();
        fn_u.sort();
        let mut fn_f: Vec<_> = f.fn_map.iter().collect();
        fn_f.sort();
        let comp = if used.code != f.code {
            Some("code")
        } else if used.data != f.data {
            Some("data")
        } else if lab_u != lab_f {
            Some("labels")
        } else if fn_u != fn_f {
            Some("procedures")
        } else {
            None
        };
        if let Some(c) = comp {
            let detail = match c {
                "labels" => format!("piecewise {:?} whole {:?}", lab_u.iter().filter(|x| !lab_f.contains(x)).collect::<Vec<_>>(), lab_f.iter().filter(|x| !lab_u.contains(x)).collect::<Vec<_>>()),
                "data" => format!("piecewise {:?} whole {:?}", used.data, f.data),
                _ => String::new(),
            };
            rep.fail(Failure {
                sig: format!("reuse:piecewise:{}", c),
                what: format!("C19: a program assembled piece by piece, with refused pieces in between, ends up with different {} than the same program assembled at once", c),
                witness: format!("{{\"kind\": \"src-sequence\", \"refused_pieces\": {:?}, \"whole_program\": {}, \"detail\": {}}}", hist, json_str(&whole), json_str(&detail)),
                core_item: if core { Some(format!("{}|{}", i, c)) } else { None },
            });
        }
    });
}

fn parser_reuse(rep: &Report, rounds: usize, seed: u64) {
    par_for(rounds, 1, |i| {
        let core = i < 8;
        let mut rng = if core { Rng::new(0xC19C).fork(i as u64) } else { Rng::new(seed).fork(0xC19C_0000 + i as u64) };
        // --- assembler
        let probe = PROBE_PROGRAMS[i % PROBE_PROGRAMS.len()];
        let fresh = asm_result(&Preprocessor::new(), probe);
        let used = Preprocessor::new();
        let nnoise = 1 + rng.below(6);
        for _ in 0..nnoise {
            let noise = if rng.chance(1, 2) {
                NOISE_PROGRAMS[rng.below(NOISE_PROGRAMS.len())].to_string()
            } else {
                rand_program_any(&mut rng, 6).render_plain().text
            };
            let _ = asm_result(&used, &noise);
        }
        let again = asm_result(&used, probe);
        rep.eval(1);
        rep.count("parser-reuse probes (assembler)", 1);
        rep.distinct_str(&format!("pp|{}|{}", i % PROBE_PROGRAMS.len(), &fresh[..fresh.len().min(3)]));
        if fresh != again {
            rep.fail(Failure {
                sig: "reuse:assembler".into(),
                what: "C19: a Preprocessor object that has processed other programs answers a program differently from a fresh one".into(),
                witness: format!("{{\"kind\": \"reuse\", \"probe\": {}, \"fresh\": {}, \"used\": {}}}", json_str(probe), json_str(&fresh[..fresh.len().min(400)]), json_str(&again[..again.len().min(400)])),
                core_item: if core { Some(format!("{}", i)) } else { None },
            });
        }
        // --- data loader
        let dprobe: [&str; 6] = ["set 4096", "db 7", "dw [258 , 3]", "db \"abc\"", "db [5]", "dw -2"];
        let fresh = data_result(&DataParser::new(), &dprobe);
        let used = DataParser::new();
        let noise: Vec<&str> = (0..3 + rng.below(6)).map(|_| *rng.pick(&["db", "set 70000", "db [1,", "dw \"zz\"", "db 300", "set 12", "dw [7 , 2]", "mov ax,1", ""])).collect();
        let _ = data_result(&used, &noise);
        let again = data_result(&used, &dprobe);
        rep.count("parser-reuse probes (data loader)", 1);
        if fresh != again {
            rep.fail(Failure {
                sig: "reuse:data-loader".into(),
                what: "C19: a DataParser object that has processed other lines answers differently from a fresh one".into(),
                witness: format!("{{\"kind\": \"reuse\", \"noise\": {:?}, \"fresh\": {}, \"used\": {}}}", noise, json_str(&fresh), json_str(&again)),
                core_item: if core { Some(format!("{}", i)) } else { None },
            });
        }
        // --- interpreter: a stream on a used object vs alone on a fresh one
        let s = gen_stream(&mut rng, 25);
        let alone = run_alone(&s);
        let used = Interpreter::new();
        {
            let noise = gen_stream(&mut rng, 40);
            let mut vm = VM::new();
            let mut c = mk_ictx();
            init_vm(&mut vm, &noise);
            for (k, l) in noise.lines.iter().enumerate() {
                let _ = step_line(&used, &mut vm, &mut c, k, l);
            }
        }
        let mut vm = VM::new();
        let mut c = mk_ictx();
        init_vm(&mut vm, &s);
        let mut flows = Vec::new();
        for (k, l) in s.lines.iter().enumerate() {
            flows.push(step_line(&used, &mut vm, &mut c, k, l));
        }
        let again = finish(&vm, &c, flows);
        rep.count("parser-reuse probes (interpreter)", 1);
        if alone != again {
            rep.fail(Failure {
                sig: format!("reuse:interpreter:{}", diff_kind(&alone, &again)),
                what: "C19: an Interpreter object that has executed other lines behaves differently from a fresh one".into(),
                witness: format!("{{\"kind\": \"streams\", \"lines\": {}, \"initial_regs\": {}}}", json_str(&s.lines.join(" | ")), regs_json(&s.regs)),
                core_item: if core { Some(format!("{}", i)) } else { None },
            });
        }
    });
    // --- print reader (bin-only): a print command after garbage at the same prompt vs alone
    let src = "x: db \"reuse\"\nstart:\nmov ax, 4660\nmov bx, 22136\nint 3\n";
    let probes = ["print reg", "print flags", "print mem 0 -> 20", "print mem 2 : 2", "print mem : 4"];
    for (k, pr) in probes.iter().enumerate() {
        let alone = run_cli(src.as_bytes(), &CliOpts { stdin: format!("{}\nn\n", pr).as_bytes(), ..Default::default() });
        let noisy = run_cli(src.as_bytes(), &CliOpts { stdin: format!("print mem 5 ->\nbogus\nprint mem 9 -> 3\nprint mem 99999999999999999999 -> 1\nprint reg\nprint mem 0 : 70\n{}\nn\n", pr).as_bytes(), ..Default::default() });
        rep.eval(1);
        rep.count("parser-reuse probes (print reader, via the prompt)", 1);
        let last_piece = |o: &CliOut| -> String {
            let p = parse_records(&o.stdout);
            let s = String::from_utf8_lossy(&p.plain).to_string();
            let pieces: Vec<&str> = s.split(">>> ").collect();
            // [.., probe output, output of n (rest of the program)]
            if pieces.len() >= 2 {
                pieces[pieces.len() - 2].to_string()
            } else {
                String::new()
            }
        };
        let (a, b) = (last_piece(&alone), last_piece(&noisy));
        if a != b || a.trim().is_empty() {
            rep.fail(Failure {
                sig: "reuse:print-reader".into(),
                what: "C19: a print command typed after other (valid and invalid) commands is answered differently from the same command typed first".into(),
                witness: format!("{{\"kind\": \"cli\", \"source\": {}, \"probe\": {}, \"alone\": {}, \"after_noise\": {}}}", json_str(src), json_str(pr), json_str(&a), json_str(&b)),
                core_item: Some(format!("{}", k)),
            });
        }
    }
}

// ---------------------------------------------------------------------------------------
// (c) fresh machines, (d) threads

fn fresh_vm_ok(vm: &VM) -> Option<String> {
    let r = read_regs(vm);
    let mut want: Regs = [0; 14];
    want[FLAG] = 0xF000;
    want[CS] = 0xFFFF;
    if r != want {
        return Some(format!("registers {:?}", r));
    }
    if let Some(a) = vm.mem.iter().position(|b| *b != 0) {
        return Some(format!("memory[{:05x}] = {}", a, vm.mem[a]));
    }
    None
}

fn fresh_machines(rep: &Report, n: usize, seed: u64) {
    par_for(n, 2, |i| {
        let mut rng = Rng::new(seed).fork(0xC19D_0000 + i as u64);
        // arbitrary prior activity on another machine, then drop it
        {
            let s = gen_stream(&mut rng, 30);
            let interp = Interpreter::new();
            let mut vm = VM::new();
            let mut c = mk_ictx();
            init_vm(&mut vm, &s);
            for (k, l) in s.lines.iter().enumerate() {
                let _ = step_line(&interp, &mut vm, &mut c, k, l);
            }
        }
        let vm = VM::new();
        rep.eval(1);
        rep.count("fresh machines inspected (14 registers + full 1 MiB scan)", 1);
        if let Some(d) = fresh_vm_ok(&vm) {
            rep.fail(Failure {
                sig: "fresh-vm:initial-state".into(),
                what: "C19: a new machine does not start with all registers and memory zero except FLAGS=F000h, CS=FFFFh".into(),
                witness: format!("{{\"kind\": \"vm-new\", \"detail\": {}}}", json_str(&d)),
                core_item: Some(d),
            });
        }
    });
}

fn threads(rep: &Report, rounds: usize, seed: u64) {
    for round in 0..rounds {
        let mut rng = Rng::new(seed).fork(0xC19E_0000 + round as u64);
        let streams: Vec<Stream> = (0..16).map(|_| gen_stream(&mut rng, 60)).collect();
        let alone: Vec<StreamRes> = streams.iter().map(run_alone).collect();
        let interp = Interpreter::new();
        let results: Vec<StreamRes> = std::thread::scope(|sc| {
            let hs: Vec<_> = streams
                .iter()
                .map(|s| {
                    let ip = &interp;
                    sc.spawn(move || {
                        let mut vm = VM::new();
                        let mut c = mk_ictx();
                        init_vm(&mut vm, s);
                        let mut flows = Vec::new();
                        for (k, l) in s.lines.iter().enumerate() {
                            flows.push(step_line(ip, &mut vm, &mut c, k, l));
                        }
                        finish(&vm, &c, flows)
                    })
                })
                .collect();
            hs.into_iter().map(|h| h.join().unwrap()).collect()
        });
        rep.eval(1);
        rep.count("16-thread rounds on one shared Interpreter", 1);
        for t in 0..16 {
            if alone[t] != results[t] {
                rep.fail(Failure {
                    sig: format!("isolation:threads:{}", diff_kind(&alone[t], &results[t])),
                    what: "C19: a machine driven from one of 16 concurrent threads sharing an Interpreter ends differently from the sequential run".into(),
                    witness: format!("{{\"kind\": \"streams\", \"lines\": {}, \"initial_regs\": {}}}", json_str(&streams[t].lines.join(" | ")), regs_json(&streams[t].regs)),
                    core_item: None,
                });
            }
        }
    }
}

/// entry of the ThreadSanitizer build (`vharness --c19-tsan <rounds> <seed>`): threads with private machines
/// share one Interpreter, one DataParser and one Preprocessor object; TSan aborts the process (exit 66) on a race
pub fn tsan_main(args: &[String]) -> i32 {
    let rounds: usize = args.get(0).and_then(|s| s.parse().ok()).unwrap_or(4);
    let seed: u64 = args.get(1).and_then(|s| s.parse().ok()).unwrap_or(1);
    let mut executed = 0usize;
    for round in 0..rounds {
        let mut rng = Rng::new(seed).fork(0xC19F_0000 + round as u64);
        let streams: Vec<Stream> = (0..8).map(|_| gen_stream(&mut rng, 40)).collect();
        let interp = Interpreter::new();
        let dp = DataParser::new();
        let pp = Preprocessor::new();
        let n: usize = std::thread::scope(|sc| {
            let hs: Vec<_> = streams
                .iter()
                .enumerate()
                .map(|(t, s)| {
                    let (ip, dp, pp) = (&interp, &dp, &pp);
                    sc.spawn(move || {
                        let mut vm = VM::new();
                        let mut c = mk_ictx();
                        init_vm(&mut vm, s);
                        let mut k = 0;
                        for (i, l) in s.lines.iter().enumerate() {
                            let _ = step_line(ip, &mut vm, &mut c, i, l);
                            k += 1;
                        }
                        let _ = data_result(dp, &["set 4096", "db 7", "dw [258 , 3]", "db \"abc\"", "bogus"]);
                        let _ = asm_result(pp, PROBE_PROGRAMS[t % PROBE_PROGRAMS.len()]);
                        k
                    })
                })
                .collect();
            hs.into_iter().map(|h| h.join().unwrap_or(0)).sum()
        });
        executed += n;
    }
    println!("tsan workload done: {} rounds, {} instructions on shared parser objects", rounds, executed);
    0
}

fn tsan_layer(rep: &Report) {
    let bin = match std::env::var("VERIF_TSAN_BIN") {
        Ok(b) if std::path::Path::new(&b).exists() => b,
        _ => {
            rep.note("ThreadSanitizer build not available: the TSan layer was not run (inconclusive for that layer only)".to_string());
            return;
        }
    };
    let out = std::process::Command::new(&bin).arg("--c19-tsan").arg("12").arg(rep.seed.to_string()).env("TSAN_OPTIONS", "halt_on_error=1 exitcode=66").output();
    match out {
        Ok(o) => {
            let so = String::from_utf8_lossy(&o.stdout).to_string();
            let se = String::from_utf8_lossy(&o.stderr).to_string();
            if o.status.success() {
                rep.count("ThreadSanitizer rounds without a report (8 threads sharing Interpreter/DataParser/Preprocessor)", 12);
                rep.note(format!("TSan: {}", so.trim()));
            } else if o.status.code() == Some(66) || se.contains("ThreadSanitizer") {
                let head: String = se.lines().filter(|l| l.contains("ThreadSanitizer") || l.contains("#0") || l.contains("#1")).take(8).collect::<Vec<_>>().join(" | ");
                rep.fail(Failure {
                    sig: "isolation:tsan:data-race".into(),
                    what: "C19: ThreadSanitizer reports a data race between threads with private machines sharing parser objects".into(),
                    witness: format!("{{\"kind\": \"tsan\", \"report_head\": {}}}", json_str(&head)),
                    core_item: None,
                });
            } else {
                rep.note(format!("TSan binary ended with {:?} without a sanitizer report (inconclusive): {}", o.status.code(), se.lines().next().unwrap_or("")));
                rep.inconclusive("tsan run");
            }
        }
        Err(e) => rep.note(format!("TSan binary could not be started: {} (inconclusive for that layer)", e)),
    }
}

pub fn run(rep: &Report) {
    let t = rep.thorough();
    if t {
        tsan_layer(rep);
    }
    repeated_runs(rep, if t { 3000 } else { 160 }, 8, rep.seed);
    interleavings(rep, if t { 60_000 } else { 1500 }, rep.seed);
    parser_reuse(rep, if t { 1500 } else { 48 }, rep.seed);
    context_reuse(rep, if t { 6000 } else { 140 }, rep.seed);
    piecewise(rep, if t { 20_000 } else { 400 }, rep.seed);
    fresh_machines(rep, if t { 2000 } else { 100 }, rep.seed);
    threads(rep, if t { 200 } else { 6 }, rep.seed);
    rep.floor("CLI runs compared", rep.counter("CLI runs compared"), 1000);
    rep.floor("machine switches in interleavings", rep.counter("machine switches in interleavings"), 10_000);
}

pub const RULE: &str = "(a) a corpus of programs - valid structured programs with output, 2-6 simultaneously undefined labels in shuffled order, several syntax errors, undefined labels plus missing start / duplicate definitions, console-input services with scripted stdin, stepping with prompt scripts, run-time errors - each run 8 times in separate processes: stdout (hook records included, i.e. the executed trace and every intermediate machine state) and exit status must be byte-identical; (b) two random instruction streams (all 13 instruction classes, 10% rejected lines, hostile initial registers, sparse memory patterns) executed interleaved at random on two machines sharing one Interpreter object must each end exactly (per-step outcomes, registers, digest of the full 1 MiB, call stack) as the same stream alone on fresh objects; Preprocessor / DataParser / Interpreter objects that first processed other valid and invalid inputs must answer probes exactly like fresh objects (full outputs, label maps, source maps, error texts), the print reader likewise through the prompt; (c) a new machine after arbitrary activity has all 14 registers and all 2^20 bytes zero except FLAGS=F000h, CS=FFFFh; (d) 16 threads with private machines sharing one Interpreter equal the sequential runs. Distinct = (class, output digest bucket) for (a), initial-state pairs for (b), probe kinds. Undefined labels also behind 257..5000 forward references, the first two coming out of one macro use. Context reuse: a context that went through 1-4 other programs (11 refused ones: recursion, unknown macro, invalid expansion at depth 1 and 2, chains of 129/130/140, size overflow, position ties, refusal after definitions; accepted noise) and was clear()ed must answer probes (reusing the same names) exactly like a fresh one. Piecewise: generated programs fed to one context piece by piece (data lines, macro definitions, whole procedures, single statements) with refused pieces in between (15 kinds) must end up with the code, data, labels and procedures of the same program fed at once.";
