//! C15 — any input text is answered with a result or a diagnostic: no abort, no hang.
//! In-process parser runs happen in worker *child processes* of the harness (a stack overflow or an
//! allocation failure cannot be caught by catch_unwind; the parent observes the worker's death and
//! regenerates the case that killed it from its number). The binary is a child process anyway.
use crate::asm::*;
use crate::ast::*;
use crate::cli::*;
use crate::genprog::*;
use crate::machine::*;
use crate::prog::*;
use crate::report::{Failure, Report};
use crate::util::*;
use emulator_8086_lib as lib;
use std::io::Write;
use std::os::unix::process::ExitStatusExt;

const DICT: [&str; 96] = [
    "mov", "add", "adc", "sub", "sbb", "cmp", "and", "or", "xor", "test", "inc", "dec", "neg", "not", "mul", "imul", "div", "idiv", "shl", "sal", "shr", "sar", "rol", "ror", "rcl", "rcr", "push", "pop", "xchg", "lea", "jmp", "je", "jne",
    "loop", "call", "ret", "int", "hlt", "nop", "stc", "rep", "repe", "repne", "movs", "lods", "stos", "cmps", "scas", "byte", "word", "offset", "db", "dw", "set", "macro", "def", "print", "mem", "reg", "flags", "ax", "bx", "cx", "dx",
    "al", "ah", "bl", "cl", "si", "di", "bp", "sp", "cs", "ds", "es", "ss", "[", "]", "{", "}", "(", ")", ",", ":", "->", "<-", "\"", ";", "-", "0x", "0b", "_", "start", "start:", "1", "65536",
];

#[derive(Clone, Copy, PartialEq, Eq, Debug)]
pub enum Target {
    Assembler,
    DataLoader,
    Interpreter,
}
impl Target {
    fn name(self) -> &'static str {
        match self {
            Target::Assembler => "assembler",
            Target::DataLoader => "data-loader",
            Target::Interpreter => "interpreter",
        }
    }
}

fn valid_program(rng: &mut Rng) -> String {
    match rng.below(4) {
        0 => {
            let p = structured_program(rng, &SOpts { prints: true, int3: true, out_chars: true, ..Default::default() });
            p.render(&mut Spell::random(rng.fork(1)), &Layout { trailing_newline: rng.chance(1, 2), filler_pct: 10, pack_pct: 10, comments: rng.chance(1, 2) }).text
        }
        _ => {
            let n = 2 + rng.below(12);
            let p = rand_program_any(rng, n);
            p.render(&mut Spell::random(rng.fork(1)), &Layout { trailing_newline: rng.chance(1, 2), filler_pct: 10, pack_pct: 10, comments: rng.chance(1, 2) }).text
        }
    }
}

fn char_mutate(rng: &mut Rng, s: &str) -> String {
    let mut v: Vec<char> = s.chars().collect();
    let k = 1 + rng.below(4);
    for _ in 0..k {
        if v.is_empty() {
            v.push('x');
        }
        let i = rng.below(v.len());
        match rng.below(9) {
            0 => {
                v.remove(i);
            }
            1 => v.insert(i, *rng.pick(&['"', '[', ']', '{', '}', '(', ')', ',', ':', ';', '-', '<', '>', '\n', '\r', '\t', '\0', ' ', '0', '9', 'x', 'é', '\u{2028}', '\u{1F600}', '\u{7f}', '\\'])),
            2 => v[i] = *rng.pick(&['"', '[', ']', '{', '}', '(', ')', ',', ':', ';', '-', '\n', '\0', 'é', '9', 'Z']),
            3 => {
                // duplicate a chunk
                let j = (i + 1 + rng.below(20)).min(v.len());
                let chunk: Vec<char> = v[i..j].to_vec();
                for (n, c) in chunk.into_iter().enumerate() {
                    v.insert(j + n, c);
                }
            }
            4 => v.truncate(i),
            5 => {
                // delete a chunk
                let j = (i + 1 + rng.below(20)).min(v.len());
                v.drain(i..j);
            }
            6 => {
                // grow a number
                let digits: String = (0..1 + rng.below(30)).map(|_| (b'0' + rng.below(10) as u8) as char).collect();
                for (n, c) in digits.chars().enumerate() {
                    v.insert(i + n, c);
                }
            }
            7 => {
                let w = DICT[rng.below(DICT.len())];
                for (n, c) in format!(" {} ", w).chars().enumerate() {
                    v.insert(i + n, c);
                }
            }
            _ => {
                // swap two chunks of lines
                let s2: String = v.iter().collect();
                let mut ls: Vec<&str> = s2.split('\n').collect();
                if ls.len() > 2 {
                    let a = rng.below(ls.len());
                    let b = rng.below(ls.len());
                    ls.swap(a, b);
                }
                v = ls.join("\n").chars().collect();
            }
        }
    }
    v.into_iter().collect()
}

fn token_soup(rng: &mut Rng) -> String {
    let n = 1 + rng.below(40);
    let mut s = String::new();
    for _ in 0..n {
        s.push_str(DICT[rng.below(DICT.len())]);
        s.push_str(*rng.pick(&[" ", " ", "\n", ",", "", "\t"]));
    }
    s
}

const EDGE_TEXTS: [&str; 45] = [
    "macro m(y,x) -> jmp y jmp y jmp y jmp y jmp x <-\nlooooooooooooooooooooooooooooooooooooooooooooong:\nstart: m(looooooooooooooooooooooooooooooooooooooooooooong,b)\n",
    "macro m(x) -> mov ax,1 mov bx,2 mov cx,3 mov dx,4 mov si,5 mov di,6 jmp x <-\nstart: m(q)",
    "macro m(x) -> loop x <-\nmacro n(x) -> m(x) m(x) <-\nstart:\nn(nowhere)\n",
    "macro m(x) -> x: <-\nstart:\nm(a)\nm(a)\n",
    "macro m(x) -> call x <-\nstart: m(zzzzzzzzzzzzzzzzzzzzzzzzzzzzzzzzzzzzzzzzzzzzzzzzzzzzzzzz)\n",
    "",
    "\n",
    " ",
    "start:",
    "start:\n",
    "start",
    ";",
    "; only a comment",
    "; only a comment\n",
    "\r\n",
    "start:\r\nmov ax,1\r\n",
    "\0",
    "start:\n\0\n",
    "é",
    "start:\nmov ax,1 ; café ☕\n",
    "x: db \"héllo\"\nstart:\n",
    "x: db \"unterminated\nstart:\n",
    "x: db \"\nstart:\n",
    "\"",
    "\"\"\"",
    "start:\nmov ax,[[[[bx]]]]\n",
    "start:\nmov ax,[bx\n",
    "start:\nmov ax,bx]\n",
    "def f {\nstart:\n",
    "def f { def g { } }\nstart:\n",
    "}\n",
    "macro m(a) -> mov ax,a\nstart:\n",
    "macro m(a) -> <- <- <-\nstart:\nm(1)\n",
    "macro m() -> nop <-\nstart:\nm()\n",
    "macro m(a,a) -> mov ax,a <-\nstart:\nm(1,2)\n",
    "macro m(a) -> m2(a) <-\nmacro m2(a) -> m(a) <-\nstart:\nm(1)\n",
    "macro m(a) -> a <-\nstart:\nm(m(m(1)))\n",
    "macro m(a) -> mov ax,a <-\nstart:\nm(1,2,3)\nm()\nm(\n",
    "start:\nstart:\nstart:\n",
    "start: start: start:",
    "set\nstart:\n",
    "db\n",
    "start:\nprint mem 99999999999999999999 -> 1\n",
    "start:\nmov ax, -\n",
    "start:\nmov ax, 0x\nmov bx, 0b\n",
];

/// deterministic case text for the in-process targets
pub fn gen_case(seed: u64, id: usize) -> (Target, &'static str, String) {
    let mut rng = Rng::new(seed).fork(0xC15_0000 + id as u64);
    let target = match id % 5 {
        0 | 1 | 2 => Target::Assembler,
        3 => Target::DataLoader,
        _ => Target::Interpreter,
    };
    match target {
        Target::Assembler => {
            if id / 5 < EDGE_TEXTS.len() && id % 5 == 0 {
                return (target, "edge", EDGE_TEXTS[id / 5].to_string());
            }
            match rng.below(10) {
                0 => (target, "token-soup", token_soup(&mut rng)),
                1 => {
                    // digits
                    let n = *rng.pick(&[1usize, 5, 6, 10, 11, 20, 40, 100, 1000, 20000]);
                    let d: String = (0..n).map(|_| (b'0' + rng.below(10) as u8) as char).collect();
                    let t = *rng.pick(&["start:\nmov ax, {}\n", "x: db {}\nstart:\n", "x: dw [{}]\nstart:\n", "set {}\nstart:\n", "start:\nprint mem {} -> {}\n", "start:\nmov ax,[bx,{}]\n", "start:\nshl ax,{}\n", "start:\nint {}\n", "start:\nmov ax, -{}\n", "start:\nmov ax, 0x{}\n", "start:\nmov ax, 0b{}\n"]);
                    (target, "digits", t.replace("{}", &d))
                }
                4 if rng.chance(1, 3) => {
                    // address constants around 2^20, 2^31 and 2^32 in every radix and print form
                    let pick = |rng: &mut Rng| -> u64 {
                        let base: u64 = *rng.pick(&[1u64 << 20, 1 << 31, 1 << 32, (1 << 32) - (1 << 20), 0xFFF0_0000, 0x7FFF_FFFF, 5, 0]);
                        (base as i64 + rng.range(-3, 3)).max(0) as u64
                    };
                    let spell = |rng: &mut Rng, v: u64| match rng.below(3) {
                        0 => format!("0b{:b}", v),
                        1 => format!("0x{:X}", v),
                        _ => format!("{}", v),
                    };
                    let (a, b) = (pick(&mut rng), pick(&mut rng));
                    let (sa, sb) = (spell(&mut rng, a), spell(&mut rng, b));
                    let t = match rng.below(3) {
                        0 => format!("start:\nprint mem {} : {}\n", sa, sb),
                        1 => format!("start:\nprint mem {} -> {}\n", sa, sb),
                        _ => format!("start:\nprint mem : {}\n", sa),
                    };
                    (target, "print-constant-edge", t)
                }
                2 => {
                    // macro-related near misses on a valid macro program
                    let base = "macro ma(p) -> mov ax,p <-\nmacro mb(p,q) -> ma(p) mov bx,q <-\nmacro mc(pp) -> mb(pp,pp) <-\nstart:\nmc(5)\nmb(1,2)\n";
                    (target, "macro-mutation", char_mutate(&mut rng, base))
                }
                3 if rng.chance(1, 8) => {
                    let d = if rng.chance(1, 12) { *rng.pick(&[127usize, 128, 129, 130, 200]) } else { *rng.pick(&[1usize, 2, 3, 5, 10, 20, 40]) };
                    (target, "macro-chain", macro_chain(d))
                }
                _ => {
                    let v = valid_program(&mut rng);
                    (target, "program-mutation", char_mutate(&mut rng, &v))
                }
            }
        }
        Target::DataLoader => {
            let base = *rng.pick(&["set 4096", "db 7", "db -1", "db [5]", "db [7 , 3]", "db \"text\"", "dw 65535", "dw [3]", "dw [-2 , 4]", "dw \"ab\"", "dw \"wrap around the end\"", "db \"a string of some length\"", "set 65535", "db [255 , 65535]", "dw [1 , 65535]", "db [65535]", "dw [65535]"]);
            let s = match rng.below(4) {
                0 => base.to_string(),
                1 => {
                    let n = *rng.pick(&[1usize, 5, 6, 12, 25, 1000]);
                    let d: String = (0..n).map(|_| (b'0' + rng.below(10) as u8) as char).collect();
                    rng.pick(&["set {}", "db {}", "db [{}]", "db [1 , {}]", "dw [{} , 2]", "dw -{}"]).replace("{}", &d)
                }
                _ => char_mutate(&mut rng, base),
            };
            (target, "data-line", s)
        }
        Target::Interpreter => {
            let cl = rng.below(crate::c09::CLASSES);
            let base = crate::c09::rand_ins(&mut rng, cl).ir();
            let s = match rng.below(4) {
                0 => {
                    let n = *rng.pick(&[1usize, 5, 6, 12, 25, 1000]);
                    let d: String = (0..n).map(|_| (b'0' + rng.below(10) as u8) as char).collect();
                    rng.pick(&["mov ax,{}", "mov al,{}", "add byte [bx],{}", "mov ax,word [{}]", "mov ax,word [bx,{}]", "sal ax,{}", "int {}", "print mem {} -> {}", "print mem {} : {}", "print mem : {}", "mov ax,-{}", "jmp {}", "push {}"]).replace("{}", &d)
                }
                _ => char_mutate(&mut rng, &base),
            };
            (target, "ir-line", s)
        }
    }
}

pub fn macro_chain(depth: usize) -> String {
    let mut s = String::from("macro m0(a) -> mov ax,a <-\n");
    for i in 1..=depth {
        s.push_str(&format!("macro m{}(a) -> m{}(a) <-\n", i, i - 1));
    }
    s.push_str(&format!("start:\nm{}(7)\n", depth));
    s
}

/// run one in-process case; Some(panic text) when the parser panicked
fn run_inproc(target: Target, text: &str) -> (Option<String>, &'static str) {
    match target {
        Target::Assembler => match assemble(text) {
            Err(AsmErr::Panic(p)) => (Some(p), "panic"),
            Ok(_) => (None, "accepted"),
            Err(_) => (None, "diagnosed"),
        },
        Target::DataLoader => with_fresh_vm(|vm| {
            let mut ctr = 0usize;
            // after a SET that moves the counter near the end of memory as well
            let mut worst: (Option<String>, &'static str) = (None, "diagnosed");
            for pre in ["", "set 65535", "set 61440"] {
                if !pre.is_empty() {
                    let _ = data_parse_one(vm, &mut ctr, pre);
                }
                // ... and from even and odd counters that put the definition across the last byte of memory / of the segment
                for start in [usize::MAX, 1, 9, 14, 15, 65521, 65534, 65535] {
                    if start != usize::MAX {
                        if pre.is_empty() {
                            continue;
                        }
                        ctr = start;
                    }
                    match data_parse_one(vm, &mut ctr, text) {
                        Err(e) if e.starts_with("PANIC") => return (Some(e), "panic"),
                        Ok(()) => worst = (None, "accepted"),
                        Err(_) => {}
                    }
                }
            }
            worst
        }),
        Target::Interpreter => with_fresh_vm(|vm| {
            let mut ictx = lib::InterpreterContext::default();
            ictx.label_map.insert("tgt".into(), lib::Label::new(lib::LabelType::CODE, 0, 3 as _));
            ictx.label_map.insert("vb0".into(), lib::Label::new(lib::LabelType::DATA, 0, 0 as _));
            ictx.label_map.insert("vw0".into(), lib::Label::new(lib::LabelType::DATA, 0, 16 as _));
            ictx.fn_map.insert("fnp".into(), 5 as _);
            vm.arch.ds = 0xFFFF;
            vm.arch.bx = 0xFFFF;
            vm.arch.cx = 3;
            let mut n = 0;
            loop {
                match interp_one(0, vm, &mut ictx, text) {
                    ObsFlow::Panic(p) => return (Some(p), "panic"),
                    ObsFlow::Rejected(_) => return (None, "diagnosed"),
                    ObsFlow::Repeat if n < 100 => n += 1,
                    _ => return (None, "accepted"),
                }
            }
        }),
    }
}

/// worker entry: `vharness --c15-worker <seed> <from> <to> <progress-file>`
pub fn worker_main(args: &[String]) -> i32 {
    let seed: u64 = args[0].parse().unwrap_or(1);
    let from: usize = args[1].parse().unwrap_or(0);
    let to: usize = args[2].parse().unwrap_or(0);
    let progress = &args[3];
    let core = args.get(4).map(|s| s == "core").unwrap_or(false);
    let rep = Report::new("C15", "quick", seed);
    let mut pf = std::fs::File::create(progress).expect("progress file");
    for id in from..to {
        let (target, family, text) = gen_case(seed, id);
        // the parent learns which case was running if this process dies
        let _ = pf.write_all(format!("{}\n", id).as_bytes());
        let _ = pf.flush();
        let t0 = std::time::Instant::now();
        let (panic, outcome) = run_inproc(target, &text);
        let dt = t0.elapsed().as_secs_f64();
        rep.eval(1);
        rep.distinct_str(&format!("{}|{}|{}|len{}", target.name(), family, outcome, (text.len() as f64).log2() as u32));
        rep.count(&format!("in-process cases: {} {}", target.name(), outcome), 1);
        if dt > 5.0 {
            rep.note(format!("slow in-process case: {} {} {} bytes took {:.1}s", target.name(), family, text.len(), dt));
        }
        if let Some(p) = panic {
            let kind = panic_kind(&p);
            rep.fail(Failure {
                sig: format!("parser:{}:panic:{}", target.name(), kind.replace(' ', "_").chars().take(60).collect::<String>()),
                what: format!("C15: the {} panics on an input text instead of answering with a result or a diagnostic ({})", target.name(), kind),
                witness: format!("{{\"kind\": \"text\", \"target\": \"{}\", \"family\": \"{}\", \"text\": {}, \"panic\": {}}}", target.name(), family, json_str(&text[..text.len().min(3000)]), json_str(&p)),
                core_item: if core { Some(format!("{}|{}", id, kind)) } else { None },
            });
        }
    }
    print!("{}", rep.export());
    0
}

fn spawn_workers(rep: &Report, seed: u64, total: usize, core: bool) {
    let nw = nthreads().min(16).max(1);
    let per = (total + nw - 1) / nw;
    let exe = std::env::current_exe().expect("current exe");
    let dir = run_dir();
    let mut kids = Vec::new();
    for w in 0..nw {
        let from = w * per;
        let to = ((w + 1) * per).min(total);
        if from >= to {
            continue;
        }
        let pfile = format!("{}/c15.progress.{}.{}", dir, seed, w);
        let child = std::process::Command::new(&exe)
            .arg("--c15-worker")
            .arg(seed.to_string())
            .arg(from.to_string())
            .arg(to.to_string())
            .arg(&pfile)
            .arg(if core { "core" } else { "rand" })
            .env("RUST_BACKTRACE", "0")
            .stdout(std::process::Stdio::piped())
            .stderr(std::process::Stdio::null())
            .spawn();
        kids.push((w, from, to, pfile, child));
    }
    for (_w, from, to, pfile, child) in kids {
        let child = match child {
            Ok(c) => c,
            Err(_) => {
                rep.inconclusive("worker spawn failed");
                continue;
            }
        };
        let out = child.wait_with_output();
        match out {
            Ok(o) if o.status.success() => {
                rep.import(&String::from_utf8_lossy(&o.stdout));
            }
            Ok(o) => {
                // the worker died: which case was it on?
                let last: Option<usize> = std::fs::read_to_string(&pfile).ok().and_then(|s| s.lines().last().and_then(|l| l.trim().parse().ok()));
                let how = match (o.status.code(), o.status.signal()) {
                    (_, Some(s)) => format!("signal-{}", s),
                    (Some(c), _) => format!("exit-{}", c),
                    _ => "unknown".to_string(),
                };
                match last {
                    Some(id) => {
                        let (target, family, text) = gen_case(seed, id);
                        rep.eval((id - from) as u64);
                        rep.fail(Failure {
                            sig: format!("parser:{}:process-death:{}", target.name(), how),
                            what: format!("C15: the {} kills the process (stack overflow / abort, not a catchable panic) on an input text", target.name()),
                            witness: format!("{{\"kind\": \"text\", \"target\": \"{}\", \"family\": \"{}\", \"text\": {}, \"worker_status\": \"{}\"}}", target.name(), family, json_str(&text[..text.len().min(3000)]), how),
                            core_item: if core { Some(format!("{}|{}", id, how)) } else { None },
                        });
                        rep.note(format!("worker for cases {}..{} died at case {}; the rest of its slice was not run", from, to, id));
                    }
                    None => rep.inconclusive("worker died before its first case"),
                }
            }
            Err(_) => rep.inconclusive("worker wait failed"),
        }
        let _ = std::fs::remove_file(&pfile);
    }
}

// ---------------------------------------------------------------------------------------
// the binary: source files and prompt input

fn judge_cli(rep: &Report, out: &CliOut, class: &str, family: &str, src: &[u8], stdin: &[u8], interp: bool, core: Option<String>) {
    rep.eval(1);
    rep.count(&format!("binary runs: {}", class), 1);
    let sym = if out.flooded || (out.timed_out && out.stdout.len() >= (4 << 20)) {
        // a generated program that itself loops forever keeps emitting hook records: that is the program's
        // behaviour, not the emulator's (control flow is C06/C08's subject); a spin of the emulator's own
        // loops (prompt, services) floods the output without executing instructions
        // (judged by where the last hook record lies: a looping program keeps producing records up to the end of
        // the captured output -- at most one legitimate print, < 3.4 MB, behind the last one; a spinning emulator
        // leaves megabytes of output behind its last record)
        let last = out.stdout.windows(4).rposition(|w| w == b"\x1e@@V");
        match last {
            Some(p) if out.stdout.len() - p <= (4 << 20) => {
                rep.count("binary runs of programs that loop by themselves (not judged)", 1);
                return;
            }
            _ => {}
        }
        "spin"
    } else if out.timed_out {
        rep.inconclusive("cli watchdog");
        return;
    } else if out.panicked() {
        "panic"
    } else if out.aborted() || out.signal.is_some() {
        "abort"
    } else {
        rep.distinct_str(&format!("{}|{}|ok|len{}", class, family, ((src.len() + stdin.len()) as f64 + 1.0).log2() as u32));
        return;
    };
    let perr = String::from_utf8_lossy(&out.stderr).lines().skip_while(|l| !l.contains("panicked")).nth(1).map(|s| panic_kind(s.trim())).unwrap_or_default();
    let place = String::from_utf8_lossy(&out.stderr).lines().find(|l| l.contains("panicked at")).map(|l| l.split("panicked at ").nth(1).unwrap_or("").split(':').next().unwrap_or("").to_string()).unwrap_or_default();
    rep.fail(Failure {
        sig: format!("cli:{}:{}:{}", class, sym, if sym == "panic" { format!("{}:{}", place, perr.replace(' ', "_")) } else { format!("{:?}", out.signal) }),
        what: format!("C15: the emulator binary ends in a {} on an input ({})", sym, class),
        witness: format!(
            "{{\"kind\": \"cli\", \"family\": \"{}\", \"interpreted_flag\": {}, \"source\": {}, \"stdin\": {}, \"status\": {}}}",
            family,
            interp,
            json_bytes(&src[..src.len().min(3000)]),
            json_bytes(&stdin[..stdin.len().min(1500)]),
            json_str(&out.status_str())
        ),
        core_item: core.map(|c| format!("{}|{}", c, sym)),
    });
}

fn byte_mutate(rng: &mut Rng, s: &[u8]) -> Vec<u8> {
    let mut v = s.to_vec();
    for _ in 0..1 + rng.below(4) {
        if v.is_empty() {
            v.push(b'x');
        }
        let i = rng.below(v.len());
        match rng.below(6) {
            0 => v[i] ^= 1 << rng.below(8),
            1 => v[i] = *rng.pick(&[0u8, 0xFF, 0x80, 0xC3, 0xE2, b'"', b'\n', b'\r', b';', b'[', b'{', b'(']),
            2 => {
                v.remove(i);
            }
            3 => v.insert(i, rng.u8()),
            4 => v.truncate(i),
            _ => {
                let j = (i + 1 + rng.below(16)).min(v.len());
                let c: Vec<u8> = v[i..j].to_vec();
                for (n, b) in c.into_iter().enumerate() {
                    v.insert(j + n, b);
                }
            }
        }
    }
    v
}

fn cli_files(rep: &Report, n: usize, seed: u64) {
    par_for(n, 1, |i| {
        let core = i < 100;
        let mut rng = if core { Rng::new(0xC15F).fork(i as u64) } else { Rng::new(seed).fork(0xC15F_0000 + i as u64) };
        let (family, src): (&str, Vec<u8>) = if core && i < EDGE_TEXTS.len() {
            ("edge", EDGE_TEXTS[i].as_bytes().to_vec())
        } else {
            match rng.below(7) {
                6 => {
                    // long files (hundreds to tens of thousands of lines) that stop in the middle of a construct, with and
                    // without a final newline: the diagnostic has to find its line at the far end of a long line table
                    let n = *rng.pick(&[257usize, 1025, 1500, 4097, 65537]);
                    let mut t = String::with_capacity(n * 8);
                    for k in 0..n {
                        t.push_str(match k % 5 { 0 => "; filler\n", 1 => "\n", _ => "" });
                    }
                    let lines = t.matches('\n').count();
                    for _ in lines..n {
                        t.push('\n');
                    }
                    t.push_str(&valid_program(&mut rng));
                    if !t.ends_with('\n') {
                        t.push('\n');
                    }
                    t.push_str(*rng.pick(&["mov ax,", "add bx", "jmp", "def f {", "db [1,", "macro m(a) ->", "mov word [bx", "print mem 1 ->", "mov ax, 1 )", "call", "int", "mov al, byte"]));
                    if rng.chance(1, 2) {
                        t.push('\n');
                    }
                    ("long-file-truncated", t.into_bytes())
                }
                0 => ("token-soup", token_soup(&mut rng).into_bytes()),
                1 => {
                    let v = valid_program(&mut rng);
                    ("char-mutation", char_mutate(&mut rng, &v).into_bytes())
                }
                2 => {
                    let (_, _, t) = gen_case(seed ^ 0x55, 5 * rng.below(100000));
                    ("assembler-case", t.into_bytes())
                }
                3 => {
                    // print statements whose range ends at, or one past, the last byte of memory
                    // segments and start addresses near the top keep the legitimate output small
                    let ds: u32 = *rng.pick(&[0xFF00u32, 0xFFE0, 0xFFF0, 0xFFFE, 0xFFFF]);
                    let room = (1u32 << 20) - ds * 16;
                    let n = (room as i64 + rng.range(-2, 2)).max(0) as u32;
                    let a = (1u32 << 20) - 1 - rng.below(4000) as u32;
                    let m = ((1i64 << 20) - a as i64 + rng.range(-2, 1)).max(0) as u32;
                    ("print-edge", format!("start:\nmov ax,{}\nmov ds,ax\nprint mem : {}\nprint mem {} : {}\nprint mem {} -> {}\nint 3\nmov bx,1\n", ds, n, a, m, a, (a as u64 + m as u64)).into_bytes())
                }
                _ => {
                    let v = valid_program(&mut rng);
                    ("byte-mutation", byte_mutate(&mut rng, v.as_bytes()))
                }
            }
        };
        let interp = rng.chance(1, 3);
        // prompts (int 3 / -i) and console input get a mix of valid and garbage answers, then end of input
        let mut stdin: Vec<u8> = Vec::new();
        for _ in 0..rng.below(30) {
            stdin.extend_from_slice(rng.pick(&["n\n", "n\n", "next\n", "print reg\n", "x\n", "\n", "print mem 0 -> 5\n", "q\n", "print mem : 16\n", "print mem : 15\n", "print mem 1048575 : 1\n", "print mem 1048574 : 2\n"]).as_bytes());
        }
        let out = run_cli(&src, &CliOpts { interpreted: interp, stdin: &stdin, env: vec![("VERIF_NOMEM", "1")], timeout_s: 40.0, cap: 16 << 20, ..Default::default() });
        judge_cli(rep, &out, "source-file", family, &src, &stdin, interp, if core { Some(format!("f{}", i)) } else { None });
    });
}

/// valid programs walked completely: generated programs with loops, procedures, prints and breakpoints whose FIRST
/// physical line already holds executable statements, run free and single-stepped to the end (every prompt answered
/// with n): the driver looks up source lines forwards and backwards over the whole file, first line included
fn cli_walk(rep: &Report, n: usize, seed: u64) {
    par_for(n, 1, |i| {
        let core = i < 40;
        let mut rng = if core { Rng::new(0xC15B).fork(i as u64) } else { Rng::new(seed).fork(0xC15B_0000 + i as u64) };
        let p = structured_program(&mut rng, &SOpts { prints: true, int3: i % 2 == 0, macros: false, max_blocks: 2 + i % 5, ..Default::default() });
        let text = p.render(&mut Spell::random(rng.fork(1)), &Layout { trailing_newline: rng.chance(1, 2), filler_pct: 0, pack_pct: if i % 3 == 0 { 30 } else { 0 }, comments: false }).text;
        // join the first lines into one
        let join = 1 + rng.below(3);
        let mut out = String::new();
        let mut joined = 0;
        for (k, l) in text.trim_start().split_inclusive('\n').enumerate() {
            if k < join + 1 && joined < join && l.ends_with('\n') {
                out.push_str(l.trim_end_matches(|c| c == '\n' || c == '\r'));
                out.push(' ');
                joined += 1;
            } else {
                out.push_str(l);
            }
        }
        let interp = i % 4 != 3;
        let stdin = b"n\n".repeat(6000);
        let res = run_cli(out.as_bytes(), &CliOpts { interpreted: interp, stdin: &stdin, env: vec![("VERIF_NOMEM", "1")], timeout_s: 40.0, cap: 16 << 20, ..Default::default() });
        judge_cli(rep, &res, "source-file", "valid-program-walked", out.as_bytes(), b"n (repeated)", interp, if core { Some(format!("w{}", i)) } else { None });
    });
}

/// very many rejected / unanswerable lines at ONE prompt (nothing advances in between), then ordinary commands: the
/// prompt loop must neither run out of stack nor slow down
fn prompt_scale(rep: &Report, thorough: bool) {
    let sizes: Vec<usize> = if thorough { vec![1_000, 30_000, 100_000, 400_000] } else { vec![1_000, 30_000, 100_000] };
    par_for(sizes.len() * 2, 1, |j| {
        let n = sizes[j / 2];
        let kinds: [&str; 6] = ["bogus", "", "print mem 1048575 : 5", "x y z", "print", "nextt"];
        let mut stdin = String::with_capacity(n * 8);
        for k in 0..n {
            stdin.push_str(if j % 2 == 0 { kinds[0] } else { kinds[k % kinds.len()] });
            stdin.push('\n');
        }
        stdin.push_str("print flags\nn\nn\nn\nn\n");
        let src = "start:\nint 3\nmov ax,1\nint 3\nmov bx,2\n";
        let out = run_cli(src.as_bytes(), &CliOpts { stdin: stdin.as_bytes(), env: vec![("VERIF_NOMEM", "1")], timeout_s: 120.0, cap: 128 << 20, ..Default::default() });
        judge_cli(rep, &out, "prompt-input", "many-rejected-lines-at-one-prompt", src.as_bytes(), format!("<{} rejected lines, then print flags and n>", n).as_bytes(), false, Some(format!("ps{}", j)));
        // ... and the session must go on afterwards: the program reaches its end
        if out.clean_exit() && !out.timed_out {
            let p = parse_records(&out.stdout);
            if p.recs.last().map(|r| r.line.as_str()) != Some("hlt") {
                rep.fail(Failure {
                    sig: "cli:prompt-input:session-does-not-continue".into(),
                    what: "C15: after many rejected lines at a prompt the session does not continue normally".into(),
                    witness: format!("{{\"kind\": \"cli\", \"rejected_lines\": {}, \"status\": {}, \"last_record\": {}}}", n, json_str(&out.status_str()), json_str(&p.recs.last().map(|r| r.line.clone()).unwrap_or_default())),
                    core_item: Some(format!("ps-cont{}", j)),
                });
            }
        }
    });
    rep.count("prompt sessions with thousands of rejected lines at one prompt", (sizes.len() * 2) as u64);
}

fn prompt_line(rng: &mut Rng) -> Vec<u8> {
    match rng.below(12) {
        0 => token_soup(rng).replace('\n', " ").into_bytes(),
        1 => {
            let n = *rng.pick(&[1usize, 7, 19, 20, 21, 40, 1000, 100_000]);
            let d: String = (0..n).map(|_| (b'0' + rng.below(10) as u8) as char).collect();
            rng.pick(&["print mem {} -> 5", "print mem 5 -> {}", "print mem {} : 1", "print mem 1 : {}", "print mem : {}", "{}"]).replace("{}", &d).into_bytes()
        }
        2 => vec![0xFF, 0xFE, b'n'],
        3 => vec![0xC3],
        4 => vec![0],
        5 => b"print mem 1048575 -> 1048575".to_vec(),
        6 => b"print mem 1048576 -> 1048577".to_vec(),
        7 => b"print mem 1048575 : 1".to_vec(),
        8 => b"print mem : 1048575".to_vec(),
        9 => {
            // DS-relative and start:length forms that end exactly at / one past the last byte (program 2 runs with DS=0xFFF0)
            rng.pick(&["print mem : 255", "print mem : 256", "print mem : 257", "print mem 1048575 : 1", "print mem 1048574 : 2", "print mem 1048575 : 0", "print mem 0 : 1048575", "print mem 1 : 1048575", "print mem 1048575 -> 1048576", "print r\u{e9}g"]).as_bytes().to_vec()
        }
        10 => char_mutate(rng, "print mem 100 -> 200").into_bytes(),
        _ => char_mutate(rng, "next").into_bytes(),
    }
}

fn cli_prompt(rep: &Report, n: usize, seed: u64) {
    let programs: [(&str, bool); 5] = [
        ("start:\nint 3\nmov ax,1\nint 3\n", false),
        ("start:\nmov ax,1\nmov bx,2\nmov cx,3\n", true),
        ("start:\nmov ax,65520\nmov ds,ax\nint 3\nmov ah,1\nint 0x21\nmov ah,10\nmov dx,0\nint 0x21\nint 3\n", false),
        ("start:\nmov ax, 256\npush ax\npopf\nmov ax,1\nmov bx,2\n", false),
        ("start:\nint 3", true),
    ];
    par_for(n, 1, |i| {
        let core = i < 60;
        let mut rng = if core { Rng::new(0xC15A).fork(i as u64) } else { Rng::new(seed).fork(0xC15A_0000 + i as u64) };
        let (src, interp) = programs[i % programs.len()];
        let mut stdin: Vec<u8> = Vec::new();
        let nl = rng.below(12);
        for _ in 0..nl {
            stdin.extend_from_slice(&prompt_line(&mut rng));
            stdin.extend_from_slice(*rng.pick(&[&b"\n"[..], &b"\n"[..], &b"\r\n"[..]]));
            if rng.chance(1, 3) {
                stdin.extend_from_slice(b"n\n");
            }
        }
        if rng.chance(1, 2) {
            // end of input in the middle of a line
            stdin.extend_from_slice(&prompt_line(&mut rng));
        }
        // every print command typed at a prompt may legitimately dump up to the whole memory (3.3 MB of text): the
        // output budget grows with the number of such lines, a flood beyond it is a spin
        let prints = stdin.split(|b| *b == b'\n').filter(|l| l.windows(5).any(|w| w.eq_ignore_ascii_case(b"print"))).count();
        let out = run_cli(src.as_bytes(), &CliOpts { interpreted: interp, stdin: &stdin, env: vec![("VERIF_NOMEM", "1")], timeout_s: 60.0, cap: (16 << 20) + prints * 3_600_000, ..Default::default() });
        judge_cli(rep, &out, "prompt-input", "prompt", src.as_bytes(), &stdin, interp, if core { Some(format!("p{}", i)) } else { None });
    });
}

/// size / depth families through the binary, timed at doubling sizes
fn size_families(rep: &Report, thorough: bool) {
    let scale = if thorough { 4 } else { 1 };
    let fams: Vec<(&str, Vec<usize>, Box<dyn Fn(usize) -> String + Sync>)> = vec![
        ("lines", vec![12_500, 25_000, 50_000, 100_000], Box::new(|n| format!("start:\n{}", "mov ax,1\n".repeat(n)))),
        ("labels", vec![12_500, 25_000, 50_000, 100_000], Box::new(|n| {
            let mut s = String::from("start:\n");
            for i in 0..n {
                s.push_str(&format!("L{}:\n", i));
            }
            s
        })),
        ("forward-jumps", vec![2_500, 5_000, 10_000, 20_000], Box::new(|n| {
            let mut s = String::from("start:\n");
            for i in 0..n {
                s.push_str(&format!("jmp F{}\n", i));
            }
            for i in 0..n {
                s.push_str(&format!("F{}:\n", i));
            }
            s
        })),
        ("digits", vec![12_500, 25_000, 50_000, 100_000], Box::new(|n| format!("start:\nmov ax, {}\n", "7".repeat(n)))),
        ("long-string", vec![12_500, 25_000, 50_000, 100_000], Box::new(|n| format!("s: db \"{}\"\nstart:\n", "a".repeat(n)))),
        ("long-comment", vec![125_000, 250_000, 500_000, 1_000_000], Box::new(|n| format!("start: ; {}\nmov ax,1\n", "c".repeat(n)))),
        ("long-identifier", vec![12_500, 25_000, 50_000, 100_000], Box::new(|n| format!("start:\njmp {}\n", "i".repeat(n)))),
        ("open-brackets", vec![12_500, 25_000, 50_000, 100_000], Box::new(|n| format!("start:\nmov ax,{}\n", "[".repeat(n)))),
        ("open-braces", vec![1_250, 2_500, 5_000, 10_000], Box::new(|n| format!("{}\nstart:\n", "def f {\n".repeat(n)))),
        ("open-parens", vec![12_500, 25_000, 50_000, 100_000], Box::new(|n| format!("start:\nm{}\n", "(".repeat(n)))),
        ("quotes", vec![12_500, 25_000, 50_000, 100_000], Box::new(|n| format!("x: db {}\nstart:\n", "\"".repeat(n)))),
        ("data-items", vec![5_000, 10_000, 20_000, 40_000], Box::new(|n| format!("{}start:\n", "db 1\n".repeat(n)))),
        ("data-segments", vec![500, 1_000, 2_000, 4_000], Box::new(|n| {
            let mut s = String::new();
            for i in 0..n {
                s.push_str(&format!("set {}\ndb [{},200]\n", (i * 37) % 65536, i % 200));
            }
            s.push_str("start:\n");
            s
        })),
        ("procedures", vec![2_500, 5_000, 10_000, 20_000], Box::new(|n| {
            let mut s = String::new();
            for i in 0..n {
                s.push_str(&format!("def p{} {{ stc }}\n", i));
            }
            s.push_str("start:\n");
            s
        })),
        ("macro-definitions", vec![2_500, 5_000, 10_000, 20_000], Box::new(|n| {
            let mut s = String::new();
            for i in 0..n {
                s.push_str(&format!("macro q{}(a) -> mov ax,a <-\n", i));
            }
            s.push_str("start:\n");
            s
        })),
        ("macro-uses", vec![50, 100, 200, 400], Box::new(|n| format!("macro q(a) -> mov ax,a <-\nstart:\n{}", "q(1)\n".repeat(n)))),
        ("macro-chain-depth", vec![16, 32, 64, 127], Box::new(macro_chain)),
        ("macro-chain-too-deep", vec![129, 512, 2048, 4096], Box::new(macro_chain)),
        ("macro-arguments", vec![2_500, 5_000, 10_000, 20_000], Box::new(|n| format!("macro q(a) -> mov ax,a <-\nstart:\nq({})\n", "1,".repeat(n)))),
        ("loop-run", vec![8_000, 16_000, 32_000, 64_000], Box::new(|n| format!("start:\nmov cx,{}\nL:\ninc ax\nloop L\n", n))),
        ("rep-run", vec![8_000, 16_000, 32_000, 64_000], Box::new(|n| format!("start:\nmov cx,{}\nrep stos byte\n", n))),
        ("print-big-range", vec![125_000, 250_000, 500_000, 1_000_000], Box::new(|n| format!("start:\nprint mem 0 -> {}\n", n))),
        // many statements on ONE line (the grammar is white-space insensitive)
        ("one-line-program", vec![500, 1_000, 2_000, 4_000], Box::new(|n| format!("start: {}\n", "mov ax,1 ".repeat(n)))),
    ];
    let fams = &fams;
    let results: std::sync::Mutex<Vec<(String, usize, usize, f64, String, f64)>> = std::sync::Mutex::new(Vec::new());
    let jobs: Vec<(usize, usize)> = (0..fams.len()).flat_map(|f| (0..4).map(move |k| (f, k))).collect();
    // one job per core at most half of the cores: these runs are timed
    let next = std::sync::atomic::AtomicUsize::new(0);
    std::thread::scope(|sc| {
        for _ in 0..(nthreads() / 2).max(1) {
            sc.spawn(|| loop {
                let j = next.fetch_add(1, std::sync::atomic::Ordering::Relaxed);
                if j >= jobs.len() {
                    break;
                }
                let (f, k) = jobs[j];
                let (name, sizes, mk) = &fams[f];
                let n = sizes[k] * if *name == "macro-uses" || name.starts_with("macro-chain") { 1 } else { scale.min(2) };
                let src = mk(n);
                let out = run_cli(src.as_bytes(), &CliOpts { env: vec![("VERIF_NOMEM", "1")], timeout_s: 300.0, cap: 64 << 20, ..Default::default() });
                let head: String = src.chars().take(60).collect();
                judge_cli(rep, &out, "size-family", name, format!("<{} with n={}; begins {:?}>", name, n, head).as_bytes(), b"", false, Some(format!("s{}-{}", name, k)));
                results.lock().unwrap().push((name.to_string(), k, n, out.wall, if out.clean_exit() { "ok".into() } else { out.status_str() }, out.cpu));
            });
        }
    });
    let mut r = results.into_inner().unwrap();
    r.sort_by(|a, b| (&a.0, a.1).cmp(&(&b.0, b.1)));
    let mut line = String::new();
    let mut cur = String::new();
    for (name, _k, n, wall, st, _cpu) in &r {
        if *name != cur {
            if !line.is_empty() {
                rep.note(line.clone());
            }
            line = format!("{}:", name);
            cur = name.clone();
        }
        line.push_str(&format!(" n={} {:.2}s{}", n, wall, if st == "ok" { "" } else { " (!)" }));
    }
    if !line.is_empty() {
        rep.note(line);
    }
    // growth, judged on CPU time (not wall clock) and only where the largest size costs at least half a CPU second:
    // the exponent between size x and size 4x (linear 1.0, n log n about 1.1, quadratic 2.0); a suspicious family is
    // measured again twice, one process at a time, and the smallest times decide
    for f in 0..fams.len() {
        let (name, sizes, mk) = &fams[f];
        let cpu_of = |k: usize| r.iter().find(|x| x.0 == *name && x.1 == k && x.4 == "ok").map(|x| (x.2, x.5));
        let (a, b) = match (cpu_of(1), cpu_of(3)) {
            (Some(a), Some(b)) => (a, b),
            _ => continue,
        };
        if b.1 < 0.5 || a.1 <= 0.0 {
            continue;
        }
        let expo = |ta: f64, tb: f64, na: usize, nb: usize| (tb / ta.max(0.005)).ln() / ((nb as f64) / (na as f64)).ln();
        rep.count("size families whose growth in CPU time was judged", 1);
        let e1 = expo(a.1, b.1, a.0, b.0);
        if e1 <= 1.6 {
            continue;
        }
        let mut ta = a.1;
        let mut tb = b.1;
        let mult = if *name == "macro-uses" || name.starts_with("macro-chain") { 1 } else { scale.min(2) };
        for _ in 0..2 {
            for (k, t) in [(1usize, &mut ta), (3usize, &mut tb)] {
                let out = run_cli(mk(sizes[k] * mult).as_bytes(), &CliOpts { env: vec![("VERIF_NOMEM", "1")], timeout_s: 300.0, cap: 64 << 20, ..Default::default() });
                if out.clean_exit() && out.cpu > 0.0 && out.cpu < *t {
                    *t = out.cpu;
                }
            }
        }
        let e2 = expo(ta, tb, a.0, b.0);
        rep.note(format!("growth of family {}: CPU {:.2}s at n={} -> {:.2}s at n={} (exponent {:.2}; first measurement {:.2})", name, ta, a.0, tb, b.0, e2, e1));
        if e2 > 1.6 && tb >= 0.5 {
            rep.fail(Failure {
                sig: format!("cli:size-family:{}:super-linear-time", name),
                what: format!("C15: processing time grows faster than the input (family {}: about n^{:.1})", name, e2),
                witness: format!("{{\"kind\": \"cli-timing\", \"family\": \"{}\", \"n_small\": {}, \"cpu_small_s\": {:.3}, \"n_large\": {}, \"cpu_large_s\": {:.3}, \"exponent\": {:.2}, \"input_begins\": {}}}", name, a.0, ta, b.0, tb, e2, json_str(&mk(sizes[0]).chars().take(80).collect::<String>())),
                core_item: Some(format!("growth|{}", name)),
            });
        }
    }
}

pub fn run(rep: &Report) {
    let t = rep.thorough();
    // deterministic core slice (fixed seed) + seeded slice, both in worker processes
    spawn_workers(rep, 0xC15C0DE, 6000, true);
    spawn_workers(rep, rep.seed, if t { 1_500_000 } else { 16_000 }, false);
    cli_files(rep, if t { 60_000 } else { 1500 }, rep.seed);
    cli_prompt(rep, if t { 20_000 } else { 500 }, rep.seed);
    cli_walk(rep, if t { 20_000 } else { 300 }, rep.seed);
    prompt_scale(rep, t);
    size_families(rep, t);
    for id in [0usize, 7, 11, 13, 24, 104] {
        let (target, family, text) = gen_case(rep.seed, id);
        rep.sample(format!("in-process case {}: target {} family {} text {:?}", id, target.name(), family, &text[..text.len().min(300)]));
    }
    rep.floor("in-process texts", rep.evals(), 20_000);
}

pub const RULE: &str = "texts: 40 fixed edge inputs (empty, no final newline, only comments, CR/LF, NUL, non-ASCII in comments/strings/code, unbalanced quotes/brackets/braces, malformed and recursive macros, huge constants), character-level mutations (delete/insert/replace with structural characters, control and multi-byte characters; duplicate/delete chunks; truncate; grow numbers; splice dictionary tokens; swap lines) of generated valid programs and of a macro program, token soup from the grammar's dictionary, digit strings of 1..20000 (in process) and up to 100000 digits (binary), macro chains of depth 1..200 (in process) and up to 4096 (binary), data-loader lines and interpreter lines mutated the same way (the data loader also after SETs that move the counter to the end of memory). In-process targets (Preprocessor, DataParser, Interpreter) run under catch_unwind inside worker child processes; a worker's death (stack overflow, abort) is observed by the parent and attributed to the case it was running. The binary is run on byte-mutated source files (incl. invalid UTF-8) with mixed prompt answers, on fixed programs whose prompts / console services receive hostile stdin lines (huge numbers, invalid UTF-8, NUL, CR/LF, end of input in the middle of a line), and on 22 size/depth families at four doubling sizes (timed; growth reported). Verdict per run: panic (exit 101), abort/signal, or spin (output cap exceeded) is a violation; a watchdog alone is inconclusive. Distinct = (target, family, outcome, log2 length). Valid generated programs whose first physical line holds code, walked to the end free and under -i; files of 257..65537 lines that stop in the middle of a construct. A flood is a spin only when megabytes of output follow the last hook record (a looping program keeps producing records). Growth is judged on CPU time (sampled from /proc, not wall clock): for every size family whose largest run costs at least 0.5 CPU seconds the exponent between size x and size 4x must stay below 1.6 (linear 1.0, quadratic 2.0); a suspicious family is measured twice more, one process at a time, and the smallest times decide. 1000 / 30000 / 100000 rejected lines of six kinds at ONE prompt, then ordinary commands: no abort, and the program reaches its end; a prompt run's output budget grows by 3.6 MB per typed print command.";
