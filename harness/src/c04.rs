//! C04 — every operand form resolves to the architecturally correct location.
use crate::ast::*;
use crate::c01::bench_with_labels;
use crate::gen::*;
use crate::insplane::check_ins;
use crate::machine::*;
use crate::ref8086::*;
use crate::report::{FailAgg, Local, Report};
use crate::util::*;

/// access kinds exercised for each memory operand
const KINDS: [&str; 11] =
    ["load8", "load16", "store8", "store16", "store-imm8", "store-imm16", "rmw-add8", "rmw-not16", "rmw-inc8", "rmw-shl16", "lea"];

fn make(kind: usize, m: Mem, rng: &mut Rng) -> Ins {
    match KINDS[kind] {
        "load8" => Ins::Mov(Loc::R8(rand_r8(rng)), Src::Loc(Loc::Mem(W::B, m))),
        "load16" => Ins::Mov(Loc::R16(rand_r16(rng)), Src::Loc(Loc::Mem(W::W, m))),
        "store8" => Ins::Mov(Loc::Mem(W::B, m), Src::Loc(Loc::R8(rand_r8(rng)))),
        "store16" => Ins::Mov(Loc::Mem(W::W, m), Src::Loc(Loc::R16(rand_r16(rng)))),
        "store-imm8" => Ins::Mov(Loc::Mem(W::B, m), Src::Imm(rng.u16() & 0xFF)),
        "store-imm16" => Ins::Mov(Loc::Mem(W::W, m), Src::Imm(rng.u16())),
        "rmw-add8" => Ins::Alu2(Alu2::Add, Loc::Mem(W::B, m), Src::Loc(Loc::R8(rand_r8(rng)))),
        "rmw-not16" => Ins::Un(Un::Not, Loc::Mem(W::W, m)),
        "rmw-inc8" => Ins::Un(Un::Inc, Loc::Mem(W::B, m)),
        "rmw-shl16" => Ins::Sh(Sh::Shl, Loc::Mem(W::W, m), Cnt::Imm(1)),
        _ => Ins::Lea(rand_r16(rng), Loc::Mem(W::W, m)),
    }
}

fn sig_for(ins: &Ins, m: &Mem, kind: &str, comp: &str) -> String {
    // the flag defects of the carrier instructions belong to C01/C02; here only location-related
    // components are of interest
    let _ = ins;
    let access = if kind == "lea" {
        "lea"
    } else if kind.starts_with("load") {
        "load"
    } else if kind.starts_with("store") {
        "store"
    } else {
        "rmw"
    };
    if kind == "lea" {
        // LEA is judged per effective-segment class, not per addressing shape
        let segclass = match m.seg {
            Some(s) => format!("override-{}", s.name()),
            None => {
                if m.uses_bp() {
                    "default-ss".to_string()
                } else {
                    "default-ds".to_string()
                }
            }
        };
        return format!("ea:lea:{}:{}", segclass, comp_class(comp));
    }
    format!("ea:{}:{}:{}", m.shape(), access, comp_class(comp))
}
fn comp_class(c: &str) -> &str {
    if c.starts_with("reg:") {
        "register"
    } else if c.starts_with("flag:") {
        "flags"
    } else {
        c
    }
}

fn run_forms(rep: &Report, states: usize, core: bool, seed: u64) {
    let shapes: Vec<Mem> = mem_shapes(0, 0);
    let jobs: Vec<(usize, usize)> = (0..shapes.len()).flat_map(|s| (0..KINDS.len()).map(move |k| (s, k))).collect();
    par_for(jobs.len(), 4, |j| {
        let (si, k) = jobs[j];
        let mut rng = Rng::new(seed).fork(0xC04_0000 + j as u64);
        let mut b = bench_with_labels(0x41 + (j % 7) as u32);
        let mut agg = FailAgg::new();
        let mut loc = Local::default();
        let has_disp = matches!(shapes[si].form, MemForm::Based(..) | MemForm::Indexed(..) | MemForm::BasedIndexed(_, _, Some(_)));
        let disps: Vec<i16> = if has_disp { DISPS.to_vec() } else { vec![0] };
        for &d in &disps {
            for st in 0..states {
                let mut m = shapes[si];
                m.form = match m.form {
                    MemForm::Direct(_) => MemForm::Direct(if core { [0u16, 1, 0x1234, 0xFFFE, 0xFFFF][st % 5] } else { rng.hostile16() }),
                    MemForm::Based(r, _) => MemForm::Based(r, if core { d } else { rand_disp(&mut rng) }),
                    MemForm::Indexed(r, _) => MemForm::Indexed(r, if core { d } else { rand_disp(&mut rng) }),
                    MemForm::BasedIndexed(bb, i, Some(_)) => MemForm::BasedIndexed(bb, i, Some(if core { d } else { rand_disp(&mut rng) })),
                    f => f,
                };
                let ins = make(k, m, &mut rng);
                let pre = hostile_regs(&mut rng);
                let line = ins.ir();
                let kind = KINDS[k];
                let out = check_ins(&mut b, &ins, &line, &pre, &mut agg, core, "C04 operand resolution", &|c| if c.starts_with("flag:") { None } else { Some(sig_for(&ins, &m, kind, c)) });
                loc.evals += 1;
                let (seg, off) = ea(&pre, &m);
                let crosses_off = match m.form {
                    MemForm::Direct(_) | MemForm::Ind(_) => false,
                    _ => true,
                };
                let wraps_phys = (seg as u32) * 16 + off as u32 >= MB;
                loc.distinct.insert(fnv64(format!("{}|{}|{}|{}|{}", m.shape(), kind, crosses_off, wraps_phys, out.alt).as_bytes()));
                if j == 40 && st == 0 && d == disps[0] {
                    rep.sample(format!("ir `{}` pre={} -> segment {:04x} offset {:04x} physical {:05x}", line, regs_json(&pre), seg, off, phys(seg, off)));
                }
            }
        }
        agg.flush(rep);
        loc.flush(rep);
    });
}

/// source plane: the same operand forms written in assembler syntax (override without colon, optional
/// displacement, random case / radix / white space) through the real Preprocessor; the emitted line is
/// executed and judged against the reference of the *source* operand
fn run_source(rep: &Report, states: usize, core: bool, seed: u64) {
    let shapes: Vec<Mem> = mem_shapes(0, 0);
    let jobs: Vec<(usize, usize)> = (0..shapes.len()).flat_map(|s| (0..KINDS.len()).map(move |k| (s, k))).collect();
    par_for(jobs.len(), 4, |j| {
        let (si, k) = jobs[j];
        let mut rng = Rng::new(seed).fork(0xC04_8000 + j as u64);
        let mut b = bench_with_labels(0x51 + (j % 7) as u32);
        b.add_code_label("start", 0);
        let mut agg = FailAgg::new();
        let mut loc = Local::default();
        for st in 0..states {
            let mut m = shapes[si];
            let d = if core { DISPS[(st * 5 + j) % DISPS.len()] } else { rand_disp(&mut rng) };
            m.form = match m.form {
                MemForm::Direct(_) => MemForm::Direct(if core { [0u16, 1, 0x1234, 0xFFFE, 0xFFFF][st % 5] } else { rng.hostile16() }),
                MemForm::Based(r, _) => MemForm::Based(r, d),
                MemForm::Indexed(r, _) => MemForm::Indexed(r, d),
                // the optional displacement of the based-indexed form: present and absent
                MemForm::BasedIndexed(bb, i, _) => MemForm::BasedIndexed(bb, i, if st % 2 == 0 { Some(d) } else { None }),
                f => f,
            };
            let ins = make(k, m, &mut rng);
            let mut sp = if st % 2 == 0 { Spell::plain() } else { Spell::random(rng.fork(st as u64)) };
            let mut text = format!("start:\n{}\n", ins.src(&mut sp));
            // seeded slice: every second time the memory operand reaches the instruction as a macro argument (the
            // assembler re-formats an argument, override included, before it substitutes it)
            if !core && st % 2 == 1 {
                if let Some(l) = first_mem_operand(&ins) {
                    let full = ins.src(&mut Spell::plain());
                    let opnd = l.src(&mut Spell::plain());
                    if full.matches(opnd.as_str()).count() == 1 {
                        text = format!("macro viaarg(zzp) -> {} <-\nstart:\nviaarg({})\n", full.replacen(opnd.as_str(), "zzp", 1), opnd);
                        *loc.counters.entry("source forms whose memory operand is passed as a macro argument").or_insert(0) += 1;
                    }
                }
            }
            let a = match crate::asm::assemble(&text) {
                Ok(a) => a,
                Err(_) => {
                    *loc.counters.entry("source forms rejected by the assembler (filed under C10)").or_insert(0) += 1;
                    continue;
                }
            };
            if a.code.len() != 1 {
                *loc.counters.entry("source forms emitting != 1 line (filed under C11)").or_insert(0) += 1;
                continue;
            }
            let pre = hostile_regs(&mut rng);
            let probe = b.step(7, &a.code[0], &pre);
            b.restore_mem();
            if matches!(probe.0, ObsFlow::Rejected(_)) {
                *loc.counters.entry("emitted lines rejected by the interpreter (filed under C10)").or_insert(0) += 1;
                continue;
            }
            let kind = KINDS[k];
            let out = check_ins(&mut b, &ins, &a.code[0], &pre, &mut agg, core, "C04 operand resolution (source plane)", &|c| if c.starts_with("flag:") { None } else { Some(sig_for(&ins, &m, kind, c).replacen("ea:", "ea:src:", 1)) });
            loc.evals += 1;
            *loc.counters.entry("source-plane operand forms executed").or_insert(0) += 1;
            loc.distinct.insert(fnv64(format!("src|{}|{}|{}", m.shape(), kind, out.alt).as_bytes()));
            if j == 33 && st == 1 {
                rep.sample(format!("source `{}` -> ir `{}`", ins.src(&mut Spell::plain()), a.code[0]));
            }
        }
        agg.flush(rep);
        loc.flush(rep);
    });
}

/// data-label operands with DS != 0 and label offsets up to 0xFFFF
fn run_labels(rep: &Report, n: usize, core: bool, seed: u64) {
    par_for(16, 1, |t| {
        let mut rng = Rng::new(seed).fork(0xC04_5000 + t as u64);
        let mut b = Bench::new(0x4C + t as u32);
        let offs: [u16; 8] = [0, 1, 0x00FF, 0x1234, 0x7FFF, 0x8000, 0xFFFE, 0xFFFF];
        for (i, o) in offs.iter().enumerate() {
            b.add_data_label(&format!("lb{}", i), *o);
        }
        let mut agg = FailAgg::new();
        let mut loc = Local::default();
        for it in 0..n / 16 {
            let li = if core { it % 8 } else { rng.below(8) };
            let name = format!("lb{}", li);
            let kind = it / 8 % 6;
            let ins = match kind {
                0 => Ins::Mov(Loc::R8(rand_r8(&mut rng)), Src::Loc(Loc::Label(W::B, name.clone()))),
                1 => Ins::Mov(Loc::R16(rand_r16(&mut rng)), Src::Loc(Loc::Label(W::W, name.clone()))),
                2 => Ins::Mov(Loc::Label(W::B, name.clone()), Src::Loc(Loc::R8(rand_r8(&mut rng)))),
                3 => Ins::Mov(Loc::Label(W::W, name.clone()), Src::Imm(rng.u16())),
                4 => Ins::Un(Un::Not, Loc::Label(W::W, name.clone())),
                _ => Ins::Lea(rand_r16(&mut rng), Loc::Label(W::W, name.clone())),
            };
            let pre = hostile_regs(&mut rng);
            let line = ins.ir();
            let acc = ["load", "load", "store", "store", "rmw", "lea"][kind];
            let out = check_ins(&mut b, &ins, &line, &pre, &mut agg, core, "C04 data-label operand", &|c| if c.starts_with("flag:") { None } else { Some(format!("ea:label:{}:{}", acc, comp_class(c))) });
            loc.evals += 1;
            loc.distinct.insert(fnv64(format!("label|{}|{}|{}", kind, offs[li], out.alt).as_bytes()));
        }
        agg.flush(rep);
        loc.flush(rep);
    });
}

/// byte registers alias exactly their half of the 16-bit register: all 2^16 parent values
fn run_alias(rep: &Report) {
    par_for(8, 1, |ri| {
        let r = ALL_R8[ri];
        let mut b = Bench::new(0x4A);
        let mut agg = FailAgg::new();
        let mut loc = Local::default();
        let mut rng = Rng::new(0xA11A5).fork(ri as u64);
        let other = ALL_R8[(ri + 3) % 8];
        for v in 0..=0xFFFFu16 {
            let mut pre: Regs = [0x5555; 14];
            for i in 0..14 {
                pre[i] = rng.u16();
            }
            pre[r16_idx(r.parent().0)] = v;
            // write through the byte register, read through it, and combine with another byte register
            let ins = match v % 3 {
                0 => Ins::Mov(Loc::R8(r), Src::Imm((v >> 3) & 0xFF)),
                1 => Ins::Mov(Loc::R8(other), Src::Loc(Loc::R8(r))),
                _ => Ins::Xchg(Loc::R8(r), Loc::R8(other)),
            };
            let line = ins.ir();
            check_ins(&mut b, &ins, &line, &pre, &mut agg, true, "C04 byte-register aliasing", &|c| Some(format!("alias:{}:{}", r.name(), comp_class(c))));
            loc.evals += 1;
        }
        loc.distinct.insert(ri as u64);
        agg.flush(rep);
        loc.flush(rep);
    });
    rep.count("byte-register aliasing cases (8 registers x all 2^16 parent values)", 8 * 65536);
}

/// whole programs: data labels defined under several `set` directives (segments repeated, interleaved, overlapping),
/// every label read, written and read again through `byte/word <label>` with DS on the label's segment; registers
/// accumulate what was read. Judged by the reference interpreter through replica and binary (C08's comparison):
/// a label must address the cell its own definition filled.
fn run_label_programs(rep: &Report, n: usize, core: bool, seed: u64) {
    use crate::prog::{DataDef, DataItem, Item, Program, DK};
    par_for(n, 1, |i| {
        let mut rng = Rng::new(seed).fork(0xC04_9000 + i as u64);
        let pool: [u16; 5] = [0, 0x20, 0x20, 0x1000, 0x21];
        let mut data = Vec::new();
        let mut labels: Vec<(String, bool, u16)> = Vec::new(); // name, word, segment
        let mut seg = 0u16;
        let ndef = 2 + rng.below(7);
        for k in 0..ndef {
            if (k == 0 && rng.chance(1, 2)) || (k > 0 && rng.chance(2, 5)) {
                seg = *rng.pick(&pool);
                data.push(DataItem::Set(seg));
            }
            let word = rng.chance(1, 2);
            let name = format!("q{}", k);
            let kind = if rng.chance(1, 4) { DK::Fill(0x30 + k as u16, 1 + rng.below(5) as u16) } else { DK::Num(if word { 0x1101u16.wrapping_mul(k as u16 + 1) } else { 0x11 * (k as u16 + 1) }) };
            data.push(DataItem::Def(DataDef { label: Some(name.clone()), word, kind }));
            labels.push((name, word, seg));
        }
        let ins = |x: Ins| Item::Ins(x);
        let mov16 = |r: R16, v: u16| Item::Ins(Ins::Mov(Loc::R16(r), Src::Imm(v)));
        let mut items = vec![Item::Label("start".into()), mov16(R16::SI, 0), mov16(R16::DI, 0)];
        for pass in 0..3 {
            for (k, (name, word, sg)) in labels.iter().enumerate() {
                items.push(mov16(R16::AX, *sg));
                items.push(ins(Ins::Mov(Loc::SR(SR::DS), Src::Loc(Loc::R16(R16::AX)))));
                if pass == 1 {
                    if *word {
                        items.push(ins(Ins::Mov(Loc::Label(W::W, name.clone()), Src::Imm(0xA000 + k as u16))));
                    } else {
                        items.push(ins(Ins::Mov(Loc::Label(W::B, name.clone()), Src::Imm(0xA0 + k as u16))));
                    }
                } else if *word {
                    items.push(ins(Ins::Mov(Loc::R16(R16::BX), Src::Loc(Loc::Label(W::W, name.clone())))));
                    items.push(ins(Ins::Alu2(Alu2::Add, Loc::R16(R16::SI), Src::Loc(Loc::R16(R16::BX)))));
                    items.push(ins(Ins::Alu2(Alu2::Xor, Loc::R16(R16::DI), Src::Loc(Loc::R16(R16::BX)))));
                    items.push(ins(Ins::Alu2(Alu2::Add, Loc::R16(R16::DI), Src::Imm(1))));
                } else {
                    items.push(mov16(R16::BX, 0));
                    items.push(ins(Ins::Mov(Loc::R8(R8::BL), Src::Loc(Loc::Label(W::B, name.clone())))));
                    items.push(ins(Ins::Alu2(Alu2::Add, Loc::R16(R16::SI), Src::Loc(Loc::R16(R16::BX)))));
                    items.push(ins(Ins::Alu2(Alu2::Xor, Loc::R16(R16::DI), Src::Loc(Loc::R16(R16::BX)))));
                    items.push(ins(Ins::Alu2(Alu2::Add, Loc::R16(R16::DI), Src::Imm(3))));
                }
            }
        }
        let p = Program { data, items };
        let text = p.render_plain().text;
        let sets = p.data.iter().filter(|d| matches!(d, DataItem::Set(_))).count();
        rep.distinct_str(&format!("labelprog|{}|{}", ndef, sets));
        crate::c08::check_program_sig(rep, &p, &text, if core { Some(format!("labelprog|{}", i)) } else { None }, true, "data-labels-under-set", 2000, 8000, "ea:label-program");
    });
    rep.count("whole programs addressing data labels defined under several `set` directives", n as u64);
}

/// every one of the 2^16 segment values, with the offsets around the point where that segment's window runs off the
/// end of the 1 MiB space (segments from 0xF001 up have one) and the ends of the window: a shortcut taken for "segments
/// that cannot wrap", a table per segment, a boundary rounded to the wrong paragraph shows at one segment value only.
/// Byte and word loads and stores through DS, SS (BP forms), an override and a data label; the string and stack
/// segments are swept by the same rule.
fn segment_sweep(rep: &Report) {
    par_for(16, 1, |t| {
        let mut rng = Rng::new(0x5E65).fork(t as u64);
        let mut b = Bench::new(0x5E + t as u32);
        b.add_data_label("swb", 0xFFF7);
        b.add_data_label("sww", 0x0019);
        let mut agg = FailAgg::new();
        let mut loc = Local::default();
        let mut wraps = 0u64;
        for s in (t..0x10000usize).step_by(16) {
            let s = s as u16;
            // first offset whose physical address is 2^20 (if the window reaches it)
            let wrap_at: i64 = (1i64 << 20) - 16 * s as i64;
            let mut offs: Vec<u16> = vec![0, 0xFFFF];
            if wrap_at <= 0xFFFF {
                wraps += 1;
                for d in [-2i64, -1, 0, 1, 15] {
                    let o = wrap_at + d;
                    if (0..=0xFFFF).contains(&o) {
                        offs.push(o as u16);
                    }
                }
            } else {
                offs.push(rng.u16());
            }
            for (oi, o) in offs.iter().enumerate() {
                let form = (s as usize / 16 + oi) % 8;
                let mut pre = hostile_regs(&mut rng);
                let m = |seg: Option<SR>, form: MemForm| Mem { seg, form };
                let ins = match form {
                    0 => { pre[DS] = s; pre[BX] = *o; Ins::Mov(Loc::R8(R8::AL), Src::Loc(Loc::Mem(W::B, m(None, MemForm::Ind(R16::BX))))) }
                    1 => { pre[DS] = s; pre[SI] = o.wrapping_sub(3); Ins::Mov(Loc::Mem(W::W, m(None, MemForm::Indexed(R16::SI, 3))), Src::Loc(Loc::R16(R16::DX))) }
                    2 => { pre[SS] = s; pre[BP] = *o; Ins::Mov(Loc::R16(R16::CX), Src::Loc(Loc::Mem(W::W, m(None, MemForm::Based(R16::BP, 0))))) }
                    3 => { pre[ES] = s; pre[DI] = *o; Ins::Mov(Loc::Mem(W::B, m(Some(SR::ES), MemForm::Ind(R16::DI))), Src::Imm(0x5A)) }
                    4 => { pre[SS] = s; pre[BX] = o.wrapping_sub(pre[SI]); Ins::Un(Un::Not, Loc::Mem(W::W, m(Some(SR::SS), MemForm::BasedIndexed(R16::BX, R16::SI, None)))) }
                    5 => { pre[DS] = ((((s as u32) << 4).wrapping_add(*o as u32).wrapping_sub(0xFFF7) >> 4) & 0xFFFF) as u16; Ins::Mov(Loc::R8(R8::BH), Src::Loc(Loc::Label(W::B, "swb".into()))) }
                    6 => { pre[DS] = s; Ins::Mov(Loc::Label(W::W, "sww".into()), Src::Loc(Loc::R16(R16::AX))) }
                    _ => { pre[SS] = s; pre[SP] = o.wrapping_add(2); Ins::Push(Loc::R16(R16::DX)) }
                };
                let line = ins.ir();
                check_ins(&mut b, &ins, &line, &pre, &mut agg, true, "C04 segment sweep", &|c| if c.starts_with("flag:") { None } else { Some(format!("ea:segment-sweep:{}:{}", ["load8", "store16", "load16-bp", "store8-es", "rmw16-ss", "load8-label", "store16-label", "push"][form], comp_class(c))) });
                loc.evals += 1;
            }
            loc.distinct.insert(fnv64(format!("sweep|{:04x}", s).as_bytes()));
        }
        loc.counters.insert("segment sweep: segment values whose window wraps at 2^20", wraps);
        agg.flush(rep);
        loc.flush(rep);
    });
    rep.count("segment sweep: segment values (all 2^16)", 65536);
}

pub fn run(rep: &Report) {
    run_label_programs(rep, 24, true, 0xC04);
    run_label_programs(rep, if rep.thorough() { 3000 } else { 60 }, false, rep.seed ^ 0x4C);
    run_forms(rep, 3, true, 0xC04);
    run_source(rep, 4, true, 0xC04);
    run_labels(rep, 1536, true, 0xC04);
    run_alias(rep);
    segment_sweep(rep);
    let t = rep.thorough();
    run_forms(rep, if t { 400 } else { 6 }, false, rep.seed ^ 0x40);
    run_source(rep, if t { 300 } else { 6 }, false, rep.seed ^ 0x42);
    // every access kind (LEA excepted: it touches no memory) with the operand aimed at the last bytes of memory
    crate::insplane::edge_plane(rep, if t { 600_000 } else { 12_000 }, rep.seed ^ 0xE4, false, "C04 operand resolution at the end of memory", "ea", &|rng| {
        let k = rng.below(KINDS.len() - 1);
        if rng.chance(1, 5) {
            // every production that takes a memory operand resolves it on its own (there are dozens of hand-copied
            // word reads / writes): arithmetic, logic, unary, shifts, every MOV form incl. segment registers, XCHG,
            // PUSH / POP of memory
            let class = rng.below(7);
            return crate::c09::rand_ins(rng, class);
        }
        if rng.chance(1, 6) {
            // exchanges resolve their memory operand like any other instruction
            let w = if rng.chance(1, 2) { W::B } else { W::W };
            let memop = if rng.chance(1, 2) { Loc::Label(w, if w == W::B { "vbe" } else { "vwe" }.into()) } else { Loc::Mem(w, rand_mem(rng)) };
            let reg = if w == W::B { Loc::R8(rand_r8(rng)) } else { Loc::R16(rand_r16(rng)) };
            return if rng.chance(1, 2) { Ins::Xchg(memop, reg) } else { Ins::Xchg(reg, memop) };
        }
        let m = if rng.chance(1, 4) {
            // label operands
            let w = if KINDS[k].ends_with('8') { W::B } else { W::W };
            let name = if w == W::B { "vbe" } else { "vwe" };
            return match KINDS[k] {
                "load8" | "load16" => Ins::Mov(if w == W::B { Loc::R8(rand_r8(rng)) } else { Loc::R16(rand_r16(rng)) }, Src::Loc(Loc::Label(w, name.into()))),
                "store8" | "store16" => Ins::Mov(Loc::Label(w, name.into()), Src::Loc(if w == W::B { Loc::R8(rand_r8(rng)) } else { Loc::R16(rand_r16(rng)) })),
                "store-imm8" | "store-imm16" => Ins::Mov(Loc::Label(w, name.into()), Src::Imm(if w == W::B { rng.u16() & 0xFF } else { rng.u16() })),
                "rmw-add8" => Ins::Alu2(Alu2::Add, Loc::Label(W::B, "vbe".into()), Src::Loc(Loc::R8(rand_r8(rng)))),
                "rmw-not16" => Ins::Un(Un::Not, Loc::Label(W::W, "vwe".into())),
                "rmw-inc8" => Ins::Un(Un::Inc, Loc::Label(W::B, "vbe".into())),
                _ => Ins::Sh(Sh::Shl, Loc::Label(W::W, "vwe".into()), if rng.chance(1, 2) { Cnt::CL } else { Cnt::Imm(1) }),
            };
        } else {
            rand_mem(rng)
        };
        make(k, m, rng)
    });
    run_labels(rep, if t { 200_000 } else { 4000 }, false, rep.seed ^ 0x41);
    rep.floor("operand-form evaluations", rep.evals(), 100_000);
}

pub const RULE: &str = "all 5 addressing shapes x every base/index register choice x {no override, ES, CS, SS, DS} (85 shapes) x a displacement set incl. 0, +-1, 0x7FFF, -0x8000 x 11 access kinds (byte/word loads, stores of registers and immediates, read-modify-writes, LEA) from hostile register/segment states (sums crossing 0xFFFF and 0xFFFFF) with a position-dependent memory pattern and whole-memory diff, on the instruction plane (hand-rendered IR) and on the source plane (assembler syntax through the real Preprocessor, random case/radix/white space, based-indexed form with and without displacement); data-label operands at offsets 0..0xFFFF with arbitrary DS; byte-register aliasing over all 2^16 parent values; segment sweep: every one of the 2^16 segment values with the offsets around the point where its window passes 2^20 (-2..+1, +15) and the window's ends, through eight access forms (DS, SS/BP, ES override, SS override, data labels, PUSH). Distinct = (shape, access kind, offset-sum form, physical wrap, accept-set member). Whole programs with data labels defined under repeated / interleaved `set` directives, every label read, written and read back through the binary; operands aimed at the last bytes of memory. The end-of-memory plane also draws from every production with a memory operand (incl. segment-register MOV, PUSH/POP of memory); in the seeded source slice every second memory operand is passed as a macro argument.";
