//! C13 — a macro use equals its hand-expanded body; recursion is always rejected.
use crate::asm::*;
use crate::cli::*;
use crate::report::{Failure, Report};
use crate::util::*;

#[derive(Clone, Debug)]
struct Mac {
    name: String,
    params: Vec<String>,
    /// body as a list of statements; each statement is a list of tokens (words and punctuation)
    body: Vec<Stmt>,
}
#[derive(Clone, Debug)]
enum Stmt {
    /// raw instruction text with parameter names possibly inside
    Ins(String),
    /// use of another macro: callee (a macro name, or a parameter holding one), argument texts
    Use(String, Vec<String>),
}

/// names that are prefixes / substrings of each other, of registers, mnemonics and the data label used in bodies, and
/// names that are the letter-led tail of a number literal used in bodies (`x1` in `0x1`, `b10` in `0b10`): a literal
/// is one word, no parameter occurs in it
const PARAM_POOL: [&str; 36] = [
    "p", "pq", "pqr", "q", "v", "va", "val", "n", "nn", "r1", "r", "k", "_t", "t_", "N", "VAL", "P", "Pq", "x1", "b1", "xa", "xF", "b10", "X1", "B0", "x0", "x", "b", "d", "label", "abel", "dlabe", "ov", "mo", "dd", "or2",
];
const LITERALS: [&str; 12] = ["0x1", "0b1", "0xa", "0xF", "0b10", "0X1", "0B0", "0x0", "0x10", "0b11", "0xaF", "0b101"];

fn word_chars(c: char) -> bool {
    c.is_ascii_alphanumeric() || c == '_'
}

/// whole-word substitution on the token level
fn subst(text: &str, params: &[String], args: &[String]) -> String {
    let mut out = String::new();
    let mut cur = String::new();
    let flush = |cur: &mut String, out: &mut String| {
        if !cur.is_empty() {
            match params.iter().position(|p| p == cur) {
                Some(i) => out.push_str(args.get(i).map(|s| s.as_str()).unwrap_or("")),
                None => out.push_str(cur),
            }
            cur.clear();
        }
    };
    for c in text.chars() {
        if word_chars(c) {
            cur.push(c);
        } else {
            flush(&mut cur, &mut out);
            out.push(c);
        }
    }
    flush(&mut cur, &mut out);
    out
}

impl Mac {
    fn body_text(&self) -> String {
        self.body
            .iter()
            .map(|s| match s {
                Stmt::Ins(t) => t.clone(),
                // "make sure to leave space between param name and brackets"
                Stmt::Use(c, a) => format!("{} ({})", c, a.join(",")),
            })
            .collect::<Vec<_>>()
            .join(" ")
    }
    fn def_text(&self) -> String {
        let ps = if self.params.is_empty() { "_".to_string() } else { self.params.join(",") };
        format!("macro {}({}) -> {} <-", self.name, ps, self.body_text())
    }
}

/// reference expansion of a use; None = must be rejected (recursion / unknown / depth)
fn expand(lib: &[Mac], name: &str, args: &[String], stack: &mut Vec<String>) -> Option<String> {
    let m = lib.iter().find(|m| m.name == name)?;
    if stack.iter().any(|s| s == name) {
        return None;
    }
    stack.push(name.to_string());
    let mut parts = Vec::new();
    for s in &m.body {
        match s {
            Stmt::Ins(t) => parts.push(subst(t, &m.params, args)),
            Stmt::Use(callee, a) => {
                let callee = subst(callee, &m.params, args);
                let a2: Vec<String> = a.iter().map(|x| subst(x, &m.params, args)).collect();
                match expand(lib, callee.trim(), &a2, stack) {
                    Some(t) => parts.push(t),
                    None => {
                        stack.pop();
                        return None;
                    }
                }
            }
        }
    }
    stack.pop();
    Some(parts.join("\n"))
}

fn rand_arg(rng: &mut Rng, kind: usize) -> String {
    match kind % 6 {
        0 => ["ax", "bx", "cx", "dx", "si", "di", "AX", "Bx"][rng.below(8)].to_string(),
        1 => format!("{}", rng.below(60000)),
        2 => format!("0x{:x}", rng.below(60000)),
        3 => format!("0b{:b}", rng.below(255)),
        4 => ["word [bx]", "word [bx,si,2]", "word [bp,6]", "word [si]", "WORD [100]", "word [bx,di]", "word ds[bp]", "word DS[bp,2]", "word ds[bp,si]", "word es[di]", "word ss[bx]", "word cs[si,4]", "word ds[bx]", "word es[100]"][rng.below(14)].to_string(),
        _ => "dlabel".to_string(),
    }
}

/// a random acyclic library; macro i may use macros with a smaller index
fn rand_lib(rng: &mut Rng) -> Vec<Mac> {
    let n = rng.below(7);
    let mut lib: Vec<Mac> = Vec::new();
    for i in 0..n {
        // mostly 0-4 parameters, now and then more than ten (placeholders with two digits)
        let np = if rng.chance(1, 12) { 9 + rng.below(6) } else { rng.below(5) };
        let mut params: Vec<String> = Vec::new();
        while params.len() < np {
            let p = PARAM_POOL[rng.below(PARAM_POOL.len())].to_string();
            if !params.contains(&p) {
                params.push(p);
            }
        }
        let mut body = Vec::new();
        for _ in 0..1 + rng.below(3) {
            if !lib.is_empty() && rng.chance(1, 3) {
                let callee = lib[rng.below(lib.len())].clone();
                let args: Vec<String> = (0..callee.params.len().max(if callee.params.is_empty() { 1 } else { 0 }))
                    .map(|k| {
                        if callee.params.is_empty() {
                            "_".to_string()
                        } else if !params.is_empty() && rng.chance(1, 2) {
                            params[rng.below(params.len())].clone()
                        } else {
                            rand_arg(rng, k + 1)
                        }
                    })
                    .collect();
                // sometimes the callee's name is passed through a parameter
                body.push(Stmt::Use(callee.name.clone(), args));
            } else {
                // an instruction with word-sized operands; parameters used as operands, decoys around
                let dst = if !params.is_empty() && rng.chance(1, 2) { params[rng.below(params.len())].clone() } else { ["ax", "bx", "dx", "si"][rng.below(4)].to_string() };
                let src = if !params.is_empty() && rng.chance(2, 3) { params[rng.below(params.len())].clone() } else if rng.chance(1, 2) { LITERALS[rng.below(LITERALS.len())].to_string() } else { format!("{}", rng.below(500)) };
                let mn = ["mov", "add", "sub", "and", "xor", "cmp"][rng.below(6)];
                // decoy tokens containing parameter names as substrings: registers (ax/va), numbers
                body.push(Stmt::Ins(format!("{} {},{}", mn, dst, src)));
                if rng.chance(1, 4) {
                    body.push(Stmt::Ins("mov val2,pqrs".replace("val2", "cx").replace("pqrs", "7")));
                }
                if rng.chance(1, 5) {
                    body.push(Stmt::Ins(format!("{} cx,word dlabel", ["mov", "add", "or"][rng.below(3)])));
                }
            }
        }
        lib.push(Mac { name: format!("m{}", i), params, body });
    }
    lib
}

/// arguments must make the instruction valid: a destination parameter gets a register, a source any word operand
fn args_for(rng: &mut Rng, m: &Mac) -> Vec<String> {
    if m.params.is_empty() {
        return vec!["_".to_string()];
    }
    // a parameter that is ever used as a destination (first operand) gets a register
    (0..m.params.len())
        .map(|i| {
            let p = &m.params[i];
            let used_as_dst = lib_uses_as_dst(m, p);
            if used_as_dst {
                rand_arg(rng, 0)
            } else {
                let k = 1 + rng.below(3);
                rand_arg(rng, k)
            }
        })
        .collect()
}
fn lib_uses_as_dst(m: &Mac, p: &str) -> bool {
    // conservative: any appearance anywhere (also when forwarded to another macro) -> treat as destination
    m.body.iter().any(|s| match s {
        Stmt::Ins(t) => t.split(|c: char| !word_chars(c)).nth(1) == Some(p),
        Stmt::Use(_, a) => a.iter().any(|x| x == p),
    })
}

struct Case {
    text: String,
    /// Some(expanded program text) = must assemble identically; None = must be rejected at the use site
    expanded: Option<String>,
    use_span: (usize, usize),
    kind: &'static str,
}

fn build_case(rng: &mut Rng) -> Option<Case> {
    let lib = rand_lib(rng);
    if lib.is_empty() {
        return None;
    }
    let defs: String = lib.iter().map(|m| m.def_text()).collect::<Vec<_>>().join("\n");
    let data = "dlabel: dw 5\n";
    let m = &lib[rng.below(lib.len())];
    let args = args_for(rng, m);
    let use_txt = format!("{}({})", m.name, args.join(","));
    let in_proc = rng.chance(1, 3);
    let (pre, post) = if in_proc { ("def pr {\nstc\n", "\n}\nstart:\ncall pr\n") } else { ("start:\nclc\n", "\nstc\n") };
    let text = format!("{}{}\n{}{}{}", data, defs, pre, use_txt, post);
    let use_start = data.len() + defs.len() + 1 + pre.len();
    let expanded = expand(&lib, &m.name, &if m.params.is_empty() { vec![] } else { args.clone() }, &mut Vec::new()).map(|body| format!("{}{}{}{}", data, pre, body, post));
    Some(Case { text, expanded, use_span: (use_start, use_start + use_txt.len()), kind: if in_proc { "in-procedure" } else { "top-level" } })
}

/// a history of uses and new definitions in one program: the same macro is used several times with the same and
/// with other argument lists, and macros are defined again (another body, same parameters) between uses; every use
/// must emit the body that is current at that point
fn history_case(rng: &mut Rng) -> Option<Case> {
    let mut lib = rand_lib(rng);
    if lib.is_empty() {
        return None;
    }
    let defs: String = lib.iter().map(|m| m.def_text()).collect::<Vec<_>>().join("\n");
    let data = "dlabel: dw 5\n";
    let mut text = format!("{}{}\nstart:\nclc\n", data, defs);
    let mut exp = format!("{}start:\nclc\n", data);
    let mut remembered: Vec<Option<Vec<String>>> = vec![None; lib.len()];
    let events = 3 + rng.below(7);
    let mut last_use = (0usize, 0usize);
    for _ in 0..events {
        let k = rng.below(lib.len());
        if rng.chance(1, 3) {
            // define macro k again: its instruction statements in reverse order behind a marker instruction,
            // uses of other macros dropped (no new cycles can arise)
            let mut body: Vec<Stmt> = vec![Stmt::Ins(["cmc", "cld", "std", "sti"][rng.below(4)].to_string())];
            for st in lib[k].body.iter().rev() {
                if let Stmt::Ins(t) = st {
                    body.push(Stmt::Ins(t.clone()));
                }
            }
            lib[k].body = body;
            text.push_str(&lib[k].def_text());
            text.push('\n');
        } else {
            let args = match &remembered[k] {
                Some(a) if rng.chance(2, 3) => a.clone(),
                _ => args_for(rng, &lib[k]),
            };
            remembered[k] = Some(args.clone());
            let use_txt = format!("{}({})", lib[k].name, args.join(","));
            last_use = (text.len(), text.len() + use_txt.len());
            text.push_str(&use_txt);
            text.push('\n');
            let body = expand(&lib, &lib[k].name, &if lib[k].params.is_empty() { vec![] } else { args }, &mut Vec::new())?;
            exp.push_str(&body);
            exp.push('\n');
        }
    }
    text.push_str("stc\n");
    exp.push_str("stc\n");
    Some(Case { text, expanded: Some(exp), use_span: last_use, kind: "use-history" })
}

/// aftermath of refused uses: the same context first meets programs whose macro uses are refused in every way there is
/// (recursion, unknown macro, invalid expansion, a chain nested too deep), is clear()ed, and must then expand an
/// ordinary program exactly like a fresh context (macro names m0, m1, ... occur on both sides)
fn aftermath(rep: &Report, n: usize, seed: u64) {
    let mut refused: Vec<String> = error_cases().into_iter().map(|c| c.text).collect();
    for d in [129usize, 130, 131, 200] {
        // chains named like the generated libraries' macros
        let mut t = String::from("macro m0(p) -> mov ax,p <-\n");
        for i in 1..=d {
            t.push_str(&format!("macro m{}(p) -> m{} (p) <-\n", i, i - 1));
        }
        t.push_str(&format!("start:\nm{}(7)\n", d));
        refused.push(t);
    }
    let refused = &refused;
    par_for(n, 2, |i| {
        let mut rng = if i < 60 { Rng::new(0xC13A).fork(i as u64) } else { Rng::new(seed).fork(0xC13A_0000 + i as u64) };
        let c = match if i % 3 == 0 { history_case(&mut rng) } else { build_case(&mut rng) } {
            Some(c) => c,
            None => return,
        };
        let exp = match &c.expanded {
            Some(e) => e.clone(),
            None => return,
        };
        let mut sess = crate::asm::Session::new();
        let mut hist = Vec::new();
        for _ in 0..1 + rng.below(3) {
            let k = if i < refused.len() * 2 { (i / 2) % refused.len() } else { rng.below(refused.len()) };
            let r = sess.parse(&refused[k]);
            hist.push(format!("refused program {} -> {}", k, if r.is_ok() { "accepted (!)" } else { "refused" }));
            sess.clear();
        }
        rep.eval(1);
        rep.count("macro programs assembled on a context that met refused uses before (after clear)", 1);
        let used = sess.parse(&c.text).map(|_| ());
        let a = sess.finish();
        let fresh = assemble(&exp);
        let bad = match (&used, &fresh) {
            (Ok(()), Ok(b)) => a.code != b.code || a.data != b.data,
            (Err(_), Ok(_)) => true,
            _ => false,
        };
        if bad {
            rep.fail(Failure {
                sig: format!("macro:after-refused-uses:{}", if used.is_err() { "valid-use-rejected" } else { "differs-from-expansion" }),
                what: "C13: after refused macro uses on the same (cleared) context, an ordinary macro use no longer equals its hand expansion".into(),
                witness: format!("{{\"kind\": \"src\", \"history\": {:?}, \"source\": {}, \"expanded\": {}, \"result\": {}}}", hist, json_str(&c.text), json_str(&exp), json_str(&format!("{:?}", used.as_ref().err()))),
                core_item: if i < 60 { Some(format!("after{}", i)) } else { None },
            });
        }
    });
}

fn error_cases() -> Vec<Case> {
    let mut v = Vec::new();
    let mk = |defs: &str, use_txt: &str, kind: &'static str| {
        let pre = format!("{}\nstart:\nclc\n", defs);
        let text = format!("{}{}\nstc\n", pre, use_txt);
        Case { text, expanded: None, use_span: (pre.len(), pre.len() + use_txt.len()), kind }
    };
    v.push(mk("macro a(p) -> a (p) <-", "a(5)", "direct-recursion"));
    v.push(mk("macro a(p) -> b (p) <-\nmacro b(p) -> a (p) <-", "a(5)", "indirect-recursion"));
    v.push(mk("macro a(p) -> b (p) <-\nmacro b(p) -> c (p) <-\nmacro c(q) -> mov ax,q a (q) <-", "b(7)", "indirect-recursion-3"));
    v.push(mk("macro a(k,p) -> k (k,p) <-", "a(a,5)", "recursion-through-name-argument"));
    v.push(mk("macro a(p) -> mov ax,p <-", "nosuch(5)", "unknown-macro"));
    v.push(mk("macro a(p) -> b (p) <-", "a(5)", "unknown-macro-inside"));
    v.push(mk("macro a(p) -> mov p,ax <-", "a(5)", "invalid-expansion"));
    v.push(mk("macro a(p) -> mov ax,p <-", "a(bl)", "invalid-expansion-width"));
    v.push(mk("macro a(p) -> frobnicate p <-", "a(5)", "invalid-expansion-unknown-mnemonic"));
    v
}

fn fixed_positive_cases() -> Vec<Case> {
    let mk = |defs: &str, use_txt: &str, body: &str, kind: &'static str| {
        let pre = format!("dlabel: dw 5\nDLABEL2: dw 6\nAX2v: dw 7\n{}\nstart:\nclc\n", defs);
        let text = format!("{}{}\nstc\n", pre, use_txt);
        Case { text, expanded: Some(format!("dlabel: dw 5\nDLABEL2: dw 6\nAX2v: dw 7\nstart:\nclc\n{}\nstc\n", body)), use_span: (pre.len(), pre.len() + use_txt.len()), kind }
    };
    vec![
        // the documentation's own example of passing a macro by name
        mk("MACRO a(q)-> ADD AX,q <- MACRO b(k,q) -> k (q)<-", "b(a,5)", "ADD AX,5", "macro-passed-by-name"),
        mk("macro fact(no) ->  MUL word no <-", "fact(dlabel)", "MUL word dlabel", "label-name-argument"),
        // parameter names that are prefixes / substrings of each other and of body tokens
        mk("macro z(a,ab,abc) -> mov ax,a add ax,ab sub ax,abc <-", "z(1,2,3)", "mov ax,1 add ax,2 sub ax,3", "prefix-parameters"),
        mk("macro z(x,a) -> mov ax,x mov dx,a <-", "z(bx,7)", "mov ax,bx mov dx,7", "parameter-inside-register-name"),
        mk("macro z(s,i) -> mov si,s mov di,i <-", "z(1,2)", "mov si,1 mov di,2", "parameter-inside-register-name"),
        mk("macro z(p) -> mov ax,p <-", "z(word es[bx])", "mov ax,word es[bx]", "memory-argument-with-override"),
        mk("macro z(p) -> mov ax,p <-", "z(word [bx,si])", "mov ax,word [bx,si]", "memory-argument"),
        mk("macro z(p) -> mov p,ax <-", "z(byte [bx,3])", "mov byte [bx,3],ax", "memory-argument-wrong-width-is-invalid"),
        mk("macro z(p) -> and ax,p <-", "z(0xFFFF)", "and ax,0xFFFF", "hex-argument"),
        mk("macro z(p) -> and al,p <-", "z(0b101)", "and al,0b101", "binary-argument"),
        mk("macro z(_) -> cld <-", "z(_)", "cld", "no-parameter"),
        mk("macro in1(p) -> inc p <-\nmacro out1(p,q) -> in1 (p) in1 (q) <-", "out1(ax,bx)", "inc ax inc bx", "nested"),
        // more than ten parameters
        mk(
            "macro big(a0,a1,a2,a3,a4,a5,a6,a7,a8,a9,a10,a11,a12) -> mov ax,a0 add ax,a1 add ax,a2 add ax,a3 add ax,a4 add ax,a5 add ax,a6 add ax,a7 add ax,a8 add ax,a9 add ax,a10 add ax,a11 add ax,a12 <-",
            "big(1,2,3,4,5,6,7,8,9,10,11,12,13)",
            "mov ax,1 add ax,2 add ax,3 add ax,4 add ax,5 add ax,6 add ax,7 add ax,8 add ax,9 add ax,10 add ax,11 add ax,12 add ax,13",
            "thirteen-parameters",
        ),
        mk("macro sk(u0,u1,u2,u3,u4,u5,u6,u7,u8,u9,u10) -> mov dx,u10 mov bx,u1 <-", "sk(0,21,0,0,0,0,0,0,0,0,30)", "mov dx,30 mov bx,21", "eleventh-parameter-only"),
        // `_` is an ordinary parameter name (only by convention the name of "no parameter")
        mk("macro ld(_) -> mov ax,_ add bx,_ <-", "ld(7)", "mov ax,7 add bx,7", "underscore-parameter-used"),
        mk("macro l2(_,v) -> mov ax,_ mov bx,v <-", "l2(7,8)", "mov ax,7 mov bx,8", "underscore-parameter-used"),
        mk("macro in2(p) -> inc p <-\nmacro o2(_) -> in2 (_) <-", "o2(cx)", "inc cx", "underscore-parameter-forwarded"),
        // a parameter that is the letter-led tail of a number literal of the body: the literal is one word
        mk("macro plot(x1,y1) -> mov cx,x1 mov dx,y1 mov al,0x1 <-", "plot(7,9)", "mov cx,7 mov dx,9 mov al,0x1", "parameter-is-tail-of-literal"),
        mk("macro bits(b1,B0) -> mov cx,b1 mov dx,B0 mov al,0b1 mov ah,0B0 <-", "bits(7,9)", "mov cx,7 mov dx,9 mov al,0b1 mov ah,0B0", "parameter-is-tail-of-literal"),
        mk("macro hx(xF,xa) -> mov cx,xF add cx,0xF sub cx,0xa mov dx,xa <-", "hx(3,4)", "mov cx,3 add cx,0xF sub cx,0xa mov dx,4", "parameter-is-tail-of-literal"),
        // unused parameters before used ones
        mk("macro un(unused,dst,v) -> mov dst,v <-", "un(9,bx,4660)", "mov bx,4660", "unused-leading-parameter"),
        // names differing only in case are different names: a label / a second parameter next to a parameter
        mk("macro ld(dlabel2) -> mov ax,word dlabel2 mov bx,word DLABEL2 <-\nmacro pr(n,N) -> mov cx,n mov dx,N <-", "ld(dlabel)", "mov ax,word dlabel mov bx,word DLABEL2", "parameter-vs-label-case"),
        mk("macro pr(n,N) -> mov cx,n mov dx,N <-", "pr(3,4)", "mov cx,3 mov dx,4", "parameters-differing-in-case"),
        mk("macro kp(ax2v) -> mov ax,ax2v mov word AX2v,ax <-", "kp(7)", "mov ax,7 mov word AX2v,ax", "parameter-vs-label-case"),
    ]
}

/// parameter lists far longer than any placeholder numbering a maintainer tests by hand (around 256 and 512
/// parameters): the body uses the first, second, 256th, 257th and last parameter
fn wide_case(np: usize) -> Case {
    // numbered names: pz1 is a prefix of pz10, pz100 (whole-word replacement), none is a reserved word
    let name = |k: usize| format!("pz{}", k);
    let params: Vec<String> = (0..np).map(name).collect();
    let args: Vec<String> = (0..np).map(|k| format!("{}", 1000 + k)).collect();
    let mut used: Vec<usize> = vec![0, 1, 254, 255, 256, 257, 511, 512, np - 1].into_iter().filter(|k| *k < np).collect();
    used.dedup();
    let regs = ["ax", "bx", "cx", "dx", "si", "di", "bp"];
    let mut body = String::new();
    let mut hand = String::new();
    for (j, k) in used.iter().enumerate() {
        body.push_str(&format!("mov {},{} ", regs[j % regs.len()], params[*k]));
        hand.push_str(&format!("mov {},{} ", regs[j % regs.len()], args[*k]));
    }
    let defs = format!("macro wide({}) -> {}<-", params.join(","), body);
    let pre = format!("{}\nstart:\nclc\n", defs);
    let use_txt = format!("wide({})", args.join(","));
    let text = format!("{}{}\nstc\n", pre, use_txt);
    Case { text, expanded: Some(format!("start:\nclc\n{}\nstc\n", hand)), use_span: (pre.len(), pre.len() + use_txt.len()), kind: "hundreds-of-parameters" }
}

fn chain_case(depth: usize) -> Case {
    let mut defs = String::new();
    defs.push_str("macro c0(p) -> mov ax,p <-\n");
    for i in 1..=depth {
        defs.push_str(&format!("macro c{}(p) -> c{} (p) <-\n", i, i - 1));
    }
    let use_txt = format!("c{}(77)", depth);
    let pre = format!("{}start:\n", defs);
    let text = format!("{}{}\n", pre, use_txt);
    Case { text, expanded: Some("start:\nmov ax,77\n".to_string()), use_span: (pre.len(), pre.len() + use_txt.len()), kind: "chain" }
}

fn judge(rep: &Report, c: &Case, core: Option<String>, idx: usize) {
    rep.eval(1);
    let fail = |sig: String, what: String, detail: String| {
        rep.fail(Failure {
            sig,
            what,
            witness: format!("{{\"kind\": \"src\", \"source\": {}, \"expanded\": {}, \"detail\": {}}}", json_str(&c.text), json_str(c.expanded.as_deref().unwrap_or("<must be rejected>")), json_str(&detail)),
            core_item: core.as_ref().map(|x| format!("{}|{}", x, detail.len())),
        });
    };
    let got = assemble(&c.text);
    match (&c.expanded, got) {
        (_, Err(AsmErr::Panic(p))) => fail(format!("macro:{}:abort", c.kind), "C13: macro processing aborts".into(), p),
        (Some(exp), Ok(a)) => match assemble(exp) {
            Ok(b) => {
                if a.code != b.code || a.data != b.data {
                    let d = a.code.iter().zip(b.code.iter()).find(|(x, y)| x != y).map(|(x, y)| format!("macro `{}` vs expanded `{}`", x, y)).unwrap_or(format!("lengths {} vs {}", a.code.len(), b.code.len()));
                    fail(format!("macro:{}:differs-from-expansion", c.kind), "C13: a macro use does not emit the instructions of its hand-expanded body".into(), d);
                }
                rep.distinct_str(&format!("{}|{}", c.kind, a.code.len()));
            }
            Err(_) => {
                // the reference expansion itself is not valid code: then the macro program must be rejected too
                fail(format!("macro:{}:accepts-invalid-expansion", c.kind), "C13: a macro use whose expansion is not valid code is accepted".into(), String::new());
            }
        },
        (Some(exp), Err(AsmErr::Diag(_, m))) => {
            if assemble(exp).is_ok() {
                fail(format!("macro:{}:valid-use-rejected", c.kind), "C13: a macro use whose hand expansion is valid is refused".into(), m.replace('\n', " "));
            } else {
                rep.count("generated uses whose expansion is invalid and is rejected (fine)", 1);
            }
        }
        (None, Ok(a)) => fail(format!("macro:{}:not-rejected", c.kind), "C13: recursion / unknown macro / invalid expansion is not rejected".into(), format!("emitted {:?}", a.code)),
        (None, Err(AsmErr::Diag(pos, m))) => {
            rep.distinct_str(&format!("{}|rejected", c.kind));
            match pos {
                Some(p) if p >= c.use_span.0 && p < c.use_span.1 => {}
                other => fail(format!("macro:{}:diagnostic-position", c.kind), "C13: the diagnostic is not located at the macro use site".into(), format!("position {:?} use span {:?}: {}", other, c.use_span, m.replace('\n', " "))),
            }
        }
    }
    if idx == 0 {
        rep.sample(format!("macro program: {:?}", c.text));
    }
}

pub fn run(rep: &Report) {
    for (i, c) in error_cases().iter().enumerate() {
        judge(rep, c, Some(format!("err{}", i)), 1);
    }
    for (i, c) in fixed_positive_cases().iter().enumerate() {
        judge(rep, c, Some(format!("pos{}", i)), 1);
    }
    for np in [100usize, 255, 256, 257, 258, 300, 513, 700] {
        judge(rep, &wide_case(np), Some(format!("wide{}", np)), 1);
    }
    // chains: quick up to 64 in process
    for d in [1usize, 2, 3, 8, 33, 64] {
        judge(rep, &chain_case(d), Some(format!("chain{}", d)), 1);
    }
    // (deeper chains go through the real binary below: there, expansion and a diagnostic are both acceptable)
    let t = rep.thorough();
    let ncore = 250;
    par_for(ncore, 4, |i| {
        let mut rng = Rng::new(0xC13).fork(i as u64);
        if let Some(c) = build_case(&mut rng) {
            judge(rep, &c, Some(format!("lib{}", i)), i);
        }
    });
    let n = if t { 60_000 } else { 900 };
    let seed = rep.seed;
    par_for(n, 4, |i| {
        let mut rng = Rng::new(seed).fork(0xC13_0000 + i as u64);
        if let Some(c) = build_case(&mut rng) {
            judge(rep, &c, None, 1000 + i);
        }
    });
    aftermath(rep, if t { 20_000 } else { 300 }, rep.seed);
    let nh = if t { 30_000 } else { 500 };
    par_for(nh, 4, |i| {
        let mut rng = if i < 100 { Rng::new(0xC13B).fork(i as u64) } else { Rng::new(seed).fork(0xC13B_0000 + i as u64) };
        if let Some(c) = history_case(&mut rng) {
            rep.count("programs with several uses and new definitions of the same macros", 1);
            judge(rep, &c, if i < 100 { Some(format!("hist{}", i)) } else { None }, 5000 + i);
        }
    });
    // deep chains in a child process (the real binary): termination without stack overflow
    let depths: Vec<usize> = if t { vec![128, 512, 1024, 2048, 4096] } else { vec![128, 400] };
    par_for(depths.len(), 1, |k| {
        let d = depths[k];
        let c = chain_case(d);
        let out = run_cli(c.text.as_bytes(), &CliOpts { timeout_s: 60.0 + d as f64 * 0.2, env: vec![("VERIF_NOMEM", "1")], ..Default::default() });
        rep.eval(1);
        rep.distinct_str(&format!("deep{}", d));
        if out.aborted() || out.panicked() {
            rep.fail(Failure {
                sig: "macro:deep-chain:abort".into(),
                what: "C13: a deep (acyclic) macro chain aborts the emulator (stack overflow) instead of expanding or being diagnosed".into(),
                witness: format!("{{\"kind\": \"cli\", \"chain_depth\": {}, \"status\": {}}}", d, json_str(&out.status_str())),
                core_item: Some(format!("deep{}", d)),
            });
        } else if out.timed_out {
            rep.inconclusive("deep chain watchdog");
        } else {
            let parsed = parse_records(&out.stdout);
            let expanded_ok = parsed.recs.iter().any(|r| r.line == "mov ax,77");
            let diagnosed = !String::from_utf8_lossy(&parsed.plain).trim().is_empty();
            if !expanded_ok && !diagnosed {
                rep.fail(Failure {
                    sig: "macro:deep-chain:silent".into(),
                    what: "C13: a deep macro chain is neither expanded nor diagnosed".into(),
                    witness: format!("{{\"kind\": \"cli\", \"chain_depth\": {}, \"status\": {}}}", d, json_str(&out.status_str())),
                    core_item: Some(format!("deep-silent{}", d)),
                });
            }
            rep.count(if expanded_ok { "deep chains expanded" } else { "deep chains diagnosed" }, 1);
        }
    });
    rep.floor("macro programs", rep.evals(), 600);
}

pub const RULE: &str = "random acyclic macro libraries (0-6 macros, 0-4 parameters drawn from a pool of names that are prefixes/substrings of each other and of body tokens - registers, mnemonics, the data label, and the letter-led tails of the hex/binary literals the bodies use (x1 / 0x1, b10 / 0b10) -, bodies of instructions and uses of other macros, arguments of kinds register / decimal / hex / binary number / bracketed memory / data label) used at top level and inside procedures; the harness's own whole-word token-level expander produces the hand-expanded program and both programs must emit identical code and data; a fixed family of direct / indirect / through-argument recursion, unknown names and invalid expansions must be rejected with a diagnostic whose position lies inside the use site; chains of depth 1..64 in process, 128..4096 through the real binary (abort = violation, watchdog = inconclusive). Distinct = (use site kind, emitted length) resp. error kind / chain depth. Use histories (repeated argument lists, macros defined again between uses; the definition current at each use counts); 100..700 parameters. Aftermath: a context that met refused uses of every kind (recursion, unknown macro, invalid expansion, chains of 129..200) and was clear()ed must expand generated libraries (same macro names) like a fresh context.";
