//! C12 — data definitions are laid out exactly and labels resolve to their first byte.
use crate::asm::*;
use crate::ast::*;
use crate::cli::*;
use crate::genprog::rand_str;
use crate::irdecode;
use crate::prog::*;
use crate::ref8086::MB;
use crate::report::{Failure, Report};
use crate::util::*;

fn rand_def(rng: &mut Rng, label: Option<String>, big: bool) -> DataDef {
    let word = rng.chance(1, 2);
    let v = |rng: &mut Rng| {
        let x = rng.hostile16();
        if word {
            x
        } else {
            x & 0xFF
        }
    };
    let kind = match rng.below(8) {
        0 | 1 => DK::Num(v(rng)),
        2 => DK::Zeros(if big { rng.below(40000) as u16 } else { rng.below(40) as u16 }),
        3 | 4 => {
            let n = if big { rng.below(33000) as u16 } else { rng.below(40) as u16 };
            DK::Fill(v(rng), n)
        }
        5 => DK::Zeros(0),
        _ => DK::Str(rand_str(rng, if big { 300 } else { 24 })),
    };
    DataDef { label, word, kind }
}

pub fn rand_layout(rng: &mut Rng, boundary: bool) -> Vec<DataItem> {
    let mut v = Vec::new();
    let n = 1 + rng.below(9);
    let mut lab = 0;
    let big = boundary || rng.chance(1, 10);
    if rng.chance(1, 3) {
        v.push(DataItem::Set(*rng.pick(&[0u16, 1, 0x10, 0x1000, 0xF000, 0xFFFF, 0xFFF0, 0x8000])));
    }
    for i in 0..n {
        if i > 0 && rng.chance(1, 6) {
            v.push(DataItem::Set(if rng.chance(1, 3) { 0 } else { rng.hostile16() }));
        }
        let label = if rng.chance(2, 3) {
            lab += 1;
            Some(format!("d{}", lab))
        } else {
            None
        };
        v.push(DataItem::Def(rand_def(rng, label, big)));
    }
    if boundary {
        // steer the total size of the last segment to 65536 +- 2
        let mut seg_size: u32 = 0;
        for d in &v {
            match d {
                DataItem::Set(_) => seg_size = 0,
                DataItem::Def(x) => seg_size += x.size(),
            }
        }
        let target = 65536i64 + rng.range(-2, 2);
        let mut need = target - seg_size as i64;
        while need > 0 {
            let chunk = need.min(30000);
            v.push(DataItem::Def(DataDef { label: None, word: false, kind: DK::Fill(0xAB, chunk as u16) }));
            need -= chunk;
        }
        lab += 1;
        v.push(DataItem::Def(DataDef { label: Some(format!("d{}", lab)), word: false, kind: DK::Zeros(0) }));
    }
    v
}

/// a definition that fills (almost) a whole segment laid over earlier non-zero data of a physically overlapping
/// segment: every byte of it must be (re)written, also when its size is exactly 64 KiB
pub fn overlay_layout(rng: &mut Rng) -> Vec<DataItem> {
    let s1: u16 = *rng.pick(&[0u16, 16, 17, 0x1000, 0x8000, 0xF000, 0xFFF0, 0xFFFF]);
    let mut v = vec![DataItem::Set(s1)];
    let n1 = 1 + rng.below(3000) as u16;
    v.push(DataItem::Def(DataDef { label: Some("old".into()), word: false, kind: DK::Fill(1 + rng.below(255) as u16, n1) }));
    v.push(DataItem::Def(DataDef { label: None, word: rng.chance(1, 2), kind: DK::Str("OLD DATA".into()) }));
    let delta: i32 = *rng.pick(&[0i32, 0, 1, -1, 2, -16, 16, -0x100, 0x0FF0, -0x0FFF]);
    v.push(DataItem::Set((s1 as i32 + delta) as u16));
    let big = match rng.below(7) {
        0 | 1 => DataDef { label: Some("big".into()), word: true, kind: DK::Zeros(32768) },
        2 => DataDef { label: Some("big".into()), word: true, kind: DK::Zeros(32767) },
        3 => DataDef { label: Some("big".into()), word: false, kind: DK::Zeros(65535) },
        4 => DataDef { label: Some("big".into()), word: true, kind: DK::Fill(rng.u16(), 32768) },
        5 => DataDef { label: Some("big".into()), word: false, kind: DK::Fill(rng.u16() & 0xFF, 65535) },
        _ => DataDef { label: Some("big".into()), word: true, kind: DK::Zeros(32768 - rng.below(3) as u16) },
    };
    let room = 65536 - big.size();
    v.push(DataItem::Def(big));
    if room >= 1 {
        v.push(DataItem::Def(DataDef { label: Some("tail".into()), word: false, kind: DK::Num(rng.u16() & 0xFF) }));
    }
    v
}

fn one(rep: &Report, data: Vec<DataItem>, rng: &Rng, core: bool, idx: usize, cli: bool) {
    let img = data_image(&data);
    // use every label as operand and through OFFSET
    let mut items = vec![Item::Label("start".into())];
    let mut labels: Vec<(String, bool)> = Vec::new();
    for d in &data {
        if let DataItem::Def(x) = d {
            if let Some(l) = &x.label {
                labels.push((l.clone(), x.word));
            }
        }
    }
    let mut text_tail = String::new();
    for (l, word) in &labels {
        text_tail.push_str(&format!("mov bx, offset {}\n", l));
        text_tail.push_str(&if *word { format!("mov ax, word {}\n", l) } else { format!("mov al, byte {}\n", l) });
    }
    let p = Program { data: data.clone(), items: std::mem::take(&mut items) };
    let mut sp = if idx % 2 == 0 { Spell::plain() } else { Spell::random(rng.fork(11)) };
    let mut head = p.render(&mut sp, &Layout::plain()).text;
    if idx % 4 == 3 {
        // several definitions on one line (the grammar is white-space insensitive)
        let nd = data.len();
        let mut seen = 0;
        head = head
            .chars()
            .map(|c| {
                if c == '\n' && seen + 1 < nd {
                    seen += 1;
                    ' '
                } else {
                    c
                }
            })
            .collect();
    }
    let text = format!("{}{}", head, text_tail);
    rep.eval(1);
    let fail = |sig: &str, what: &str, detail: String| {
        rep.fail(Failure {
            sig: format!("data:{}", sig),
            what: format!("C12: {}", what),
            witness: format!("{{\"kind\": \"src\", \"source\": {}, \"detail\": {}}}", json_str(&text[..text.len().min(4000)]), json_str(&detail)),
            core_item: if core { Some(format!("{}|{}", idx, sig)) } else { None },
        });
    };
    rep.distinct_str(&format!("ndefs{}|sets{}|ovf{}|size{}", data.len(), data.iter().filter(|d| matches!(d, DataItem::Set(_))).count(), img.overflow, img.writes.len() / 4096));
    match assemble(&text) {
        Err(AsmErr::Panic(p)) => {
            if img.overflow {
                fail("overflow-aborts", "a segment whose definitions exceed 64 KiB aborts the assembler instead of being diagnosed", p);
            } else {
                fail("valid-layout-aborts", "a valid data layout aborts the assembler", p);
            }
        }
        Err(AsmErr::Diag(_, m)) => {
            if !img.overflow {
                fail("valid-layout-rejected", "a valid data layout is refused", m.replace('\n', " "));
            } else {
                rep.count("over-long segments diagnosed", 1);
            }
        }
        Ok(a) => {
            if img.overflow {
                fail("overflow-not-diagnosed", "a segment whose definitions exceed 64 KiB is accepted (labels silently mis-resolve)", format!("labels {:?}", a.data_labels()));
                return;
            }
            // labels
            let dl = a.data_labels();
            for (l, off) in &img.labels {
                if dl.get(l) != Some(off) {
                    fail("label-offset", "a data label does not denote the offset of the first byte of its definition", format!("label {} expected {} observed {:?}", l, off, dl.get(l)));
                }
            }
            // OFFSET operands and label operands in the emitted code
            for (k, (l, _)) in labels.iter().enumerate() {
                let want = img.labels[l];
                match a.code.get(2 * k).and_then(|s| irdecode::decode(s)) {
                    Some(Ins::Mov(Loc::R16(R16::BX), Src::Imm(v))) => {
                        if v != want {
                            fail("offset-operand", "OFFSET of a data label is not the offset of its first byte", format!("offset {} expected {} emitted {}", l, want, v));
                        }
                    }
                    other => {
                        let _ = other;
                        rep.inconclusive("offset instruction not decodable");
                    }
                }
            }
            // memory image
            with_fresh_vm(|vm| {
                match load_data(vm, &a.data) {
                    Err((i, e)) => {
                        if e.starts_with("PANIC") {
                            fail("loader-aborts", "the data loader aborts on an accepted layout", format!("line `{}`: {}", a.data[i], e));
                        } else {
                            rep.count("data lines refused by the loader (filed under C10)", 1);
                        }
                    }
                    Ok(()) => {
                        let want = image_mem(&img);
                        if vm.mem[..] != want[..] {
                            let first = (0..MB as usize).find(|&x| vm.mem[x] != want[x]).unwrap();
                            // attribute to the definition kind covering the first differing byte, if any
                            fail("memory-image", "loaded memory differs from the independently computed image", format!("first difference at {:05x}: expected {:02x} observed {:02x}", first, want[first], vm.mem[first]));
                        }
                        // values loaded through label operands
                        let mut ictx = a.ictx();
                        for (k, (l, word)) in labels.iter().enumerate() {
                            if let Some(line) = a.code.get(2 * k + 1) {
                                vm.arch.ax = 0x5A5A;
                                let _ = interp_one(2 * k + 1, vm, &mut ictx, line);
                                let off = img.labels[l] as u32;
                                let lo = want[(off % MB) as usize] as u16;
                                let hi = want[((off + 1) % MB) as usize] as u16;
                                let exp = if *word { lo | (hi << 8) } else { 0x5A00 | lo };
                                // DS is 0 at start: label operands address segment 0
                                if vm.arch.ax != exp {
                                    fail("label-operand", "a data label used as operand does not load the first byte(s) of its definition (DS = 0)", format!("label {} expected {:04x} observed {:04x}", l, exp, vm.arch.ax));
                                }
                            }
                        }
                    }
                }
            });
        }
    }
    // OFFSET of a label inside the data section itself (`db offset L`): it denotes the label's offset, so it must be
    // refused exactly when that offset does not fit a byte (the lenient direction: accepted, it would be truncated)
    let last_seg_size: u32 = {
        let mut n = 0u32;
        for d in &data {
            match d {
                DataItem::Set(_) => n = 0,
                DataItem::Def(x) => n += x.size(),
            }
        }
        n
    };
    if !img.overflow && !labels.is_empty() && data.len() < 200 && last_seg_size < 65536 {
        let (l, _) = &labels[idx % labels.len()];
        let off = img.labels[l];
        // (the rendered head ends with the start label: the extra definition goes in front of it)
        let cut = head.rfind("start:").unwrap_or(head.len());
        let text2 = format!("{}zzoff: db offset {}\nstart:\n", &head[..cut], l);
        rep.count("`db offset <label>` probes", 1);
        match assemble(&text2) {
            Ok(a) if off > 255 => fail("offset-in-byte-definition-accepted", "`db offset L` is accepted although L's offset does not fit a byte (it would be truncated)", format!("label {} at offset {}; loader input tail {:?}", l, off, a.data.last())),
            Err(AsmErr::Diag(_, m)) if off <= 255 => fail("offset-in-byte-definition-refused", "`db offset L` is refused although L's offset fits a byte", format!("label {} at offset {}: {}", l, off, m.replace('\n', " "))),
            _ => {}
        }
    }
    if cli && !img.overflow {
        let out = run_cli(text.as_bytes(), &CliOpts::default());
        if out.timed_out {
            rep.inconclusive("cli watchdog");
            return;
        }
        if !out.clean_exit() {
            fail("cli-abort", "the binary aborts while loading a valid data layout", out.status_str());
            return;
        }
        let parsed = parse_records(&out.stdout);
        if let Some(first) = parsed.recs.first() {
            if first.regs[crate::ref8086::DS] != 0 {
                fail("ds-not-zero", "execution does not start with DS = 0", format!("ds = {:04x}", first.regs[crate::ref8086::DS]));
            }
        }
        match parsed.recs.last() {
            Some(last) if last.line == "hlt" => {
                if let Some(d) = &last.dump {
                    if dump_to_mem(d) != image_mem(&img) {
                        fail("cli-memory-image", "memory of the real binary after loading differs from the reference image", String::new());
                    }
                }
            }
            _ => {
                let t = String::from_utf8_lossy(&parsed.plain).to_string();
                if !t.contains("Syntax Error") {
                    rep.inconclusive("cli run did not reach hlt");
                } else {
                    fail("cli-valid-layout-rejected", "the binary refuses a valid data layout", t[..t.len().min(300)].to_string());
                }
            }
        }
        if idx == 1 {
            rep.sample(format!("layout {:?} -> cli memory dump of {} runs compared", &data[..data.len().min(4)], parsed.recs.last().and_then(|r| r.dump.as_ref()).map(|d| d.len()).unwrap_or(0)));
        }
    }
    if idx == 0 {
        rep.sample(format!("layout: {:?}", &text[..text.len().min(300)]));
    }
}

/// One context / output used for several data texts in a row (no clear in between, the way the library's own tests do
/// it): a definition that is refused because the segment would exceed 64 KiB must leave nothing behind -- the loader
/// input, the counter and the labels of the definitions accepted afterwards agree with the image of the accepted ones.
fn continued_after_refusal(rep: &Report, n: usize, seed: u64) {
    par_for(n, 4, |i| {
        let core = i < 40;
        let mut rng = if core { Rng::new(0xC12E).fork(i as u64) } else { Rng::new(seed).fork(0xC12E_0000 + i as u64) };
        let mut sess = Session::new();
        let mut accepted: Vec<DataItem> = Vec::new();
        let mut used: u32 = 0;
        let mut hist: Vec<String> = Vec::new();
        let steps = 3 + rng.below(5);
        let mut lab = 0;
        let mut mismatch = false;
        for st in 0..steps {
            lab += 1;
            let big = st > 0 && rng.chance(1, 2);
            let word = rng.chance(1, 2);
            let kind = if big {
                // all four ways of writing a large definition
                match rng.below(3) {
                    0 => DK::Zeros(30_000 + rng.below(10_000) as u16),
                    1 => DK::Fill(7, 30_000 + rng.below(10_000) as u16),
                    _ => DK::Fill(if word { 0x1234 } else { 0x12 }, 40_000),
                }
            } else {
                match rng.below(3) {
                    0 => DK::Num(if word { 0x1100 + st as u16 } else { 0x10 + st as u16 }),
                    1 => DK::Str(format!("s{}", st)),
                    _ => DK::Fill(3, 1 + rng.below(4) as u16),
                }
            };
            let def = DataDef { label: Some(format!("k{}", lab)), word, kind };
            let size = def.size();
            let text = Program { data: vec![DataItem::Def(def.clone())], items: vec![] }.render_plain().text;
            let fits = used + size <= 65536;
            let r = sess.parse(&text);
            hist.push(format!("{} ({} bytes) -> {}", text.trim(), size, if r.is_ok() { "accepted" } else { "refused" }));
            if r.is_ok() != fits {
                mismatch = true;
                break;
            }
            if fits {
                used += size;
                accepted.push(DataItem::Def(def));
            }
        }
        rep.eval(1);
        if mismatch {
            rep.count("continued layouts where acceptance differs from the size rule (judged by the single-program planes)", 1);
            return;
        }
        rep.count("data texts parsed one after another on the same context, some refused for size", 1);
        rep.distinct_str(&format!("continued|{}|{}", accepted.len(), hist.len() - accepted.len()));
        let lines: Vec<String> = sess.data().clone();
        let fin = sess.finish();
        let img = data_image(&accepted);
        let fail = |sig: &str, what: &str, detail: String| {
            rep.fail(Failure {
                sig: format!("data:continued:{}", sig),
                what: format!("C12: {}", what),
                witness: format!("{{\"kind\": \"src-sequence\", \"texts\": {:?}, \"loader_input\": {:?}, \"detail\": {}}}", hist, &lines[..lines.len().min(12)], json_str(&detail)),
                core_item: if core { Some(format!("{}|{}", i, sig)) } else { None },
            });
        };
        let dl = fin.data_labels();
        for (l, off) in &img.labels {
            if dl.get(l) != Some(off) {
                fail("label-offset", "after a definition refused for size, a later label does not denote the offset of its definition", format!("label {} expected {} observed {:?}", l, off, dl.get(l)));
                return;
            }
        }
        with_fresh_vm(|vm| {
            if load_data(vm, &lines).is_err() {
                rep.count("data lines refused by the loader (filed under C10)", 1);
                return;
            }
            let want = image_mem(&img);
            if vm.mem[..] != want[..] {
                let first = (0..MB as usize).find(|&x| vm.mem[x] != want[x]).unwrap();
                fail("memory-image", "after a definition refused for size, the loader's input no longer produces the image of the accepted definitions", format!("first difference at {:05x}: expected {:02x} observed {:02x}", first, want[first], vm.mem[first]));
            }
        });
    });
}

pub fn run(rep: &Report) {
    continued_after_refusal(rep, if rep.thorough() { 20_000 } else { 300 }, rep.seed);
    // deterministic core: small layouts + the 64 KiB boundary
    par_for(300, 4, |i| {
        let mut rng = Rng::new(0xC12).fork(i as u64);
        let d = rand_layout(&mut rng, false);
        one(rep, d, &rng, true, i, i < 12);
    });
    par_for(40, 1, |i| {
        let mut rng = Rng::new(0xC12B).fork(i as u64);
        let d = rand_layout(&mut rng, true);
        one(rep, d, &rng, true, 10_000 + i, false);
    });
    par_for(60, 1, |i| {
        let mut rng = Rng::new(0xC12C).fork(i as u64);
        let d = overlay_layout(&mut rng);
        one(rep, d, &rng, true, 20_000 + i, i < 6);
    });
    // scale: tens of thousands of data directives (more than 65536 lines) spread over hundreds of segments, a few
    // dozen items labelled (first, last and every 17th segment's last item); in process and through the binary
    for (k, (nseg, per)) in [(280usize, 250usize), (40, 30), (700, 100)].iter().enumerate() {
        let mut d: Vec<DataItem> = Vec::with_capacity(nseg * (per + 1));
        let mut lab = 0;
        for s in 0..*nseg {
            d.push(DataItem::Set(0x0100 + (s as u16) * 0x10));
            for j in 0..*per {
                lab += 1;
                let label = if j + 1 == *per && (s % 17 == 0 || s + 1 == *nseg) { Some(format!("d{}", lab)) } else { None };
                d.push(DataItem::Def(DataDef { label, word: false, kind: DK::Num(((s * 7 + j * 3) % 251 + 1) as u16) }));
            }
        }
        let rng = Rng::new(0xC12D).fork(k as u64);
        rep.count("layouts with tens of thousands of data directives", 1);
        one(rep, d, &rng, true, 30_000 + k, true);
    }
    // labels at offsets whose bits 8..11 are clear although they do not fit a byte (0x1000, 0x2005, 0xF0FF, ...)
    for (k, base) in [0x1000u16, 0x2005, 0xF0FF, 0x0100, 0x00FF, 0x0FFF].iter().enumerate() {
        let d = vec![
            DataItem::Def(DataDef { label: None, word: false, kind: DK::Fill(0x11, *base) }),
            DataItem::Def(DataDef { label: Some("d1".into()), word: false, kind: DK::Num(0x77) }),
        ];
        let rng = Rng::new(0xC12F).fork(k as u64);
        one(rep, d, &rng, true, 40_000 + 4 * k, false);
    }
    let t = rep.thorough();
    let n = if t { 200_000 } else { 12_000 };
    let seed = rep.seed;
    par_for(if t { 6000 } else { 200 }, 1, |i| {
        let mut rng = Rng::new(seed).fork(0xC12C_0000 + i as u64);
        let d = overlay_layout(&mut rng);
        one(rep, d, &rng, false, 200_000 + i, i % 50 == 1);
    });
    par_for(n, 8, |i| {
        let mut rng = Rng::new(seed).fork(0xC12_0000 + i as u64);
        let boundary = i % 25 == 0;
        let d = rand_layout(&mut rng, boundary);
        one(rep, d, &rng, false, 100_000 + i, i % (if t { 40 } else { 60 }) == 1);
    });
    rep.floor("layouts", rep.evals(), 1500);
}

pub const RULE: &str = "random sequences of SET/DB/DW definitions of all four kinds (scalar, zero array, filled array, string) with sizes 0..40000, full-range values, segments placing data across the 1 MiB wrap, several SETs (incl. returning to segment 0), labels on definitions, in plain and random spelling; every label is used as operand and through OFFSET. Oracle: independently computed image (2^20 zero bytes + writes) compared with VM.mem in full after the driver's loading sequence (in process and, for a sample, against the hook's memory dump of the real binary), label offsets, OFFSET constants and values loaded through label operands with DS=0; definitions of exactly / almost 64 KiB laid over earlier non-zero data of a physically overlapping segment; layouts steered to 65536 +- 2 bytes per segment must be diagnosed when they exceed 64 KiB. Distinct = (number of definitions, SETs, overflow, size class). Layouts of 1240 / 70280 / 70700 data directives over up to 700 segments, in process and through the binary. Continued contexts: 3-7 data texts parsed one after another on the same context/output, large ones refused for size; labels and the loader's image must be those of the accepted definitions.";
