//! Reference semantic model of the 8086 subset the emulator implements, written from the
//! 8086 Family User's Manual instruction descriptions (see DESIGN.md Appendix A).
//! Everything here is independent of the emulator's code.
use crate::ast::*;
use std::collections::HashMap;

pub const CF: u16 = 1 << 0;
pub const PF: u16 = 1 << 2;
pub const AF: u16 = 1 << 4;
pub const ZF: u16 = 1 << 6;
pub const SF: u16 = 1 << 7;
pub const TF: u16 = 1 << 8;
pub const IF: u16 = 1 << 9;
pub const DF: u16 = 1 << 10;
pub const OF: u16 = 1 << 11;
pub const STATUS6: u16 = CF | PF | AF | ZF | SF | OF;
pub const MB: u32 = 1 << 20;

// register file indices (same order as the driver hook prints them)
pub const FLAG: usize = 0;
pub const AX: usize = 1;
pub const BX: usize = 2;
pub const CX: usize = 3;
pub const DX: usize = 4;
pub const SP: usize = 5;
pub const BP: usize = 6;
pub const SI: usize = 7;
pub const DI: usize = 8;
pub const IP: usize = 9;
pub const CS: usize = 10;
pub const DS: usize = 11;
pub const SS: usize = 12;
pub const ES: usize = 13;
pub const REG_NAMES: [&str; 14] = ["flag", "ax", "bx", "cx", "dx", "sp", "bp", "si", "di", "ip", "cs", "ds", "ss", "es"];
pub type Regs = [u16; 14];

pub fn r16_idx(r: R16) -> usize {
    match r {
        R16::AX => AX,
        R16::BX => BX,
        R16::CX => CX,
        R16::DX => DX,
        R16::SP => SP,
        R16::BP => BP,
        R16::SI => SI,
        R16::DI => DI,
    }
}
pub fn sr_idx(s: SR) -> usize {
    match s {
        SR::ES => ES,
        SR::CS => CS,
        SR::SS => SS,
        SR::DS => DS,
    }
}
pub fn get_r8(r: &Regs, x: R8) -> u8 {
    let (p, hi) = x.parent();
    let v = r[r16_idx(p)];
    if hi {
        (v >> 8) as u8
    } else {
        v as u8
    }
}
pub fn set_r8(r: &mut Regs, x: R8, v: u8) {
    let (p, hi) = x.parent();
    let i = r16_idx(p);
    if hi {
        r[i] = (r[i] & 0x00FF) | ((v as u16) << 8);
    } else {
        r[i] = (r[i] & 0xFF00) | v as u16;
    }
}

pub fn parity_even(b: u8) -> bool {
    b.count_ones() % 2 == 0
}

fn mask(w: u32) -> u32 {
    if w == 8 {
        0xFF
    } else {
        0xFFFF
    }
}
fn msb(w: u32) -> u32 {
    1 << (w - 1)
}

/// SF/ZF/PF bits from a result
pub fn szp(w: u32, res: u32) -> u16 {
    let mut f = 0;
    if res & mask(w) == 0 {
        f |= ZF;
    }
    if res & msb(w) != 0 {
        f |= SF;
    }
    if parity_even(res as u8) {
        f |= PF;
    }
    f
}

/// a + b + cin : (result, six status flags)
pub fn add(w: u32, a: u32, b: u32, cin: u32) -> (u32, u16) {
    let full = a + b + cin;
    let res = full & mask(w);
    let mut f = szp(w, res);
    if full > mask(w) {
        f |= CF;
    }
    if (a & 0xF) + (b & 0xF) + cin > 0xF {
        f |= AF;
    }
    if (a ^ res) & (b ^ res) & msb(w) != 0 {
        f |= OF;
    }
    (res, f)
}

/// a - b - bin
pub fn sub(w: u32, a: u32, b: u32, bin: u32) -> (u32, u16) {
    let res = a.wrapping_sub(b).wrapping_sub(bin) & mask(w);
    let mut f = szp(w, res);
    if a < b + bin {
        f |= CF;
    }
    if (a & 0xF) < (b & 0xF) + bin {
        f |= AF;
    }
    if (a ^ b) & (a ^ res) & msb(w) != 0 {
        f |= OF;
    }
    (res, f)
}

/// second, bit-serial formulation (ripple full adder) used only to cross-check `add`/`sub`
pub fn add_serial(w: u32, a: u32, b: u32, cin: u32) -> (u32, u16) {
    let mut c = cin;
    let mut res = 0u32;
    let mut c_into_msb = 0;
    let mut c3 = 0;
    for i in 0..w {
        if i == w - 1 {
            c_into_msb = c;
        }
        let x = (a >> i) & 1;
        let y = (b >> i) & 1;
        let s = x ^ y ^ c;
        c = (x & y) | (x & c) | (y & c);
        res |= s << i;
        if i == 3 {
            c3 = c;
        }
    }
    let mut f = 0;
    if res == 0 {
        f |= ZF;
    }
    if (res >> (w - 1)) & 1 == 1 {
        f |= SF;
    }
    let mut p = 0;
    for i in 0..8 {
        p ^= (res >> i) & 1;
    }
    if p == 0 {
        f |= PF;
    }
    if c == 1 {
        f |= CF;
    }
    if c3 == 1 {
        f |= AF;
    }
    if c_into_msb != c {
        f |= OF;
    }
    (res, f)
}
pub fn sub_serial(w: u32, a: u32, b: u32, bin: u32) -> (u32, u16) {
    // a - b - bin = a + !b + !bin, carries inverted
    let (res, f) = add_serial(w, a, !b & mask(w), 1 - bin);
    (res, f ^ CF ^ AF)
}

pub fn self_check() -> Result<(), String> {
    for a in 0..256u32 {
        for b in 0..256u32 {
            for c in 0..2 {
                if add(8, a, b, c) != add_serial(8, a, b, c) {
                    return Err(format!("ref add8 formulations disagree at {} {} {}", a, b, c));
                }
                if sub(8, a, b, c) != sub_serial(8, a, b, c) {
                    return Err(format!("ref sub8 formulations disagree at {} {} {}", a, b, c));
                }
            }
        }
    }
    let l = crate::util::lattice16();
    for &a in &l {
        for &b in &l {
            for c in 0..2 {
                if add(16, a as u32, b as u32, c) != add_serial(16, a as u32, b as u32, c) {
                    return Err(format!("ref add16 formulations disagree at {} {} {}", a, b, c));
                }
                if sub(16, a as u32, b as u32, c) != sub_serial(16, a as u32, b as u32, c) {
                    return Err(format!("ref sub16 formulations disagree at {} {} {}", a, b, c));
                }
            }
        }
    }
    // worked examples (8086 Family User's Manual / common references)
    let chk = |name: &str, ok: bool| if ok { Ok(()) } else { Err(format!("reference worked example failed: {}", name)) };
    // ADD 0x7F + 1 = 0x80, OF SF AF set, CF clear
    chk("add 7f+1", add(8, 0x7F, 1, 0) == (0x80, OF | SF | AF))?;
    // SUB 0 - 1 = 0xFF, CF AF SF PF
    chk("sub 0-1", sub(8, 0, 1, 0) == (0xFF, CF | AF | SF | PF))?;
    // CMP 0, 0x80 : 0 - 0x80 = 0x80, CF=1 OF=1 SF=1
    chk("sub 0-80", sub(8, 0, 0x80, 0) == (0x80, CF | OF | SF))?;
    // SHL 0x80 by 1 -> 0, CF=1, OF=1
    let s = shift(Sh::Shl, 8, 0x80, 1, false);
    chk("shl 80,1", s.res == 0 && s.cf && s.of1)?;
    // SAR 0x81 by 1 -> 0xC0 CF=1
    let s = shift(Sh::Sar, 8, 0x81, 1, false);
    chk("sar 81,1", s.res == 0xC0 && s.cf && !s.of1)?;
    // RCL 0x80 by 1 with CF=1 -> 0x01 CF=1
    let s = shift(Sh::Rcl, 8, 0x80, 1, true);
    chk("rcl 80,1,c", s.res == 0x01 && s.cf)?;
    // RCR 0x01 by 1 with CF=0 -> 0, CF=1
    let s = shift(Sh::Rcr, 8, 0x01, 1, false);
    chk("rcr 01,1", s.res == 0 && s.cf)?;
    // ROL 0x81 by 4 -> 0x18, CF = bit0 of result = 0
    let s = shift(Sh::Rol, 8, 0x81, 4, false);
    chk("rol 81,4", s.res == 0x18 && !s.cf)?;
    // ROR 0x81 by 9 == ROR by 1 -> 0xC0, CF=1
    let s = shift(Sh::Ror, 8, 0x81, 9, false);
    chk("ror 81,9", s.res == 0xC0 && s.cf)?;
    // DAA : AL=0x79+0x35=0xAE -> 0x14 with CF=1 (classic example)
    let d = daa_variants(0xAE, false, false);
    chk("daa ae", d.iter().all(|v| v.al == 0x14 && v.cf == Tri::One))?;
    // DAS : 0x35-0x47 = 0xEE (CF=1, AF=1) -> 0x88 CF=1
    let d = das_variants(0xEE, true, true);
    chk("das ee", d.iter().all(|v| v.al == 0x88 && v.cf == Tri::One))?;
    // IMUL byte: -2 * 3 = -6 => AX=0xFFFA, CF=OF=0
    chk("imul8", imul8(0xFE, 3) == (0xFFFA, false))?;
    // IMUL byte: 0x40*4 = 0x100: CF=OF=1
    chk("imul8 ovf", imul8(0x40, 4) == (0x0100, true))?;
    // MUL word 0xFFFF*0xFFFF
    chk("mul16", mul16(0xFFFF, 0xFFFF) == (0x0001, 0xFFFE, true))?;
    // IDIV byte: -7 / 2 = -3 rem -1
    chk("idiv8", idiv8(0xFFF9, 2) == DivRes::Ok { q: 0xFD, r: 0xFF, boundary: false })?;
    // DIV byte overflow 0x200/1
    chk("div8 ovf", div8(0x0200, 1) == DivRes::Fault)?;
    Ok(())
}

// ---------------------------------------------------------------------------------------
// shifts / rotates as iterated single-bit steps

pub struct ShOut {
    pub res: u32,
    pub cf: bool,
    /// value OF takes when count == 1
    pub of1: bool,
}

pub fn shift(op: Sh, w: u32, val: u32, count: u32, cf_in: bool) -> ShOut {
    let m = mask(w);
    let top = msb(w);
    let mut v = val & m;
    let mut cf = cf_in;
    let orig = v;
    for _ in 0..count {
        match op {
            Sh::Shl => {
                cf = v & top != 0;
                v = (v << 1) & m;
            }
            Sh::Shr => {
                cf = v & 1 != 0;
                v >>= 1;
            }
            Sh::Sar => {
                cf = v & 1 != 0;
                v = (v >> 1) | (v & top);
            }
            Sh::Rol => {
                cf = v & top != 0;
                v = ((v << 1) & m) | cf as u32;
            }
            Sh::Ror => {
                cf = v & 1 != 0;
                v = (v >> 1) | if cf { top } else { 0 };
            }
            Sh::Rcl => {
                let t = v & top != 0;
                v = ((v << 1) & m) | cf as u32;
                cf = t;
            }
            Sh::Rcr => {
                let t = v & 1 != 0;
                v = (v >> 1) | if cf { top } else { 0 };
                cf = t;
            }
        }
    }
    let of1 = match op {
        Sh::Shl | Sh::Rol | Sh::Rcl => ((v & top) != 0) != cf,
        Sh::Shr => orig & top != 0,
        Sh::Sar => false,
        Sh::Ror | Sh::Rcr => ((v & top) != 0) != ((v & (top >> 1)) != 0),
    };
    ShOut { res: v, cf, of1 }
}

// ---------------------------------------------------------------------------------------
// multiply / divide

/// (AX result, CF=OF)
pub fn mul8(al: u8, op: u8) -> (u16, bool) {
    let p = al as u16 * op as u16;
    (p, p >> 8 != 0)
}
pub fn imul8(al: u8, op: u8) -> (u16, bool) {
    let p = (al as i8 as i16) * (op as i8 as i16);
    let sig = p != (p as i8 as i16);
    (p as u16, sig)
}
/// (AX, DX, CF=OF)
pub fn mul16(ax: u16, op: u16) -> (u16, u16, bool) {
    let p = ax as u32 * op as u32;
    (p as u16, (p >> 16) as u16, p >> 16 != 0)
}
pub fn imul16(ax: u16, op: u16) -> (u16, u16, bool) {
    let p = (ax as i16 as i32) * (op as i16 as i32);
    let sig = p != (p as i16 as i32);
    (p as u16, (p as u32 >> 16) as u16, sig)
}

#[derive(Clone, Copy, PartialEq, Eq, Debug)]
pub enum DivRes {
    /// `boundary`: quotient is exactly the most negative value (8086 faults, later parts do not)
    Ok { q: u16, r: u16, boundary: bool },
    Fault,
}
pub fn div8(ax: u16, op: u8) -> DivRes {
    if op == 0 {
        return DivRes::Fault;
    }
    let q = ax / op as u16;
    if q > 0xFF {
        return DivRes::Fault;
    }
    DivRes::Ok { q, r: ax % op as u16, boundary: false }
}
pub fn idiv8(ax: u16, op: u8) -> DivRes {
    if op == 0 {
        return DivRes::Fault;
    }
    let n = ax as i16 as i32;
    let d = op as i8 as i32;
    let q = n / d;
    let r = n % d;
    if q > 127 || q < -128 {
        return DivRes::Fault;
    }
    DivRes::Ok { q: (q as u8) as u16, r: (r as u8) as u16, boundary: q == -128 }
}
pub fn div16(dx: u16, ax: u16, op: u16) -> DivRes {
    if op == 0 {
        return DivRes::Fault;
    }
    let n = ((dx as u32) << 16) | ax as u32;
    let q = n / op as u32;
    if q > 0xFFFF {
        return DivRes::Fault;
    }
    DivRes::Ok { q: q as u16, r: (n % op as u32) as u16, boundary: false }
}
pub fn idiv16(dx: u16, ax: u16, op: u16) -> DivRes {
    if op == 0 {
        return DivRes::Fault;
    }
    let n = ((((dx as u32) << 16) | ax as u32) as i32) as i64;
    let d = op as i16 as i64;
    let q = n / d;
    let r = n % d;
    if q > 32767 || q < -32768 {
        return DivRes::Fault;
    }
    DivRes::Ok { q: q as u16, r: r as u16, boundary: q == -32768 }
}

// ---------------------------------------------------------------------------------------
// decimal / ASCII adjusts with accept-sets

#[derive(Clone, Copy, PartialEq, Eq, Debug)]
pub enum Tri {
    Zero,
    One,
    /// either cleared or left unchanged is accepted
    ZeroOrSame,
}
impl Tri {
    pub fn accepts(self, observed: bool, before: bool) -> bool {
        match self {
            Tri::Zero => !observed,
            Tri::One => observed,
            Tri::ZeroOrSame => !observed || observed == before,
        }
    }
}
#[derive(Clone, Copy, PartialEq, Eq, Debug)]
pub struct DaVariant {
    pub al: u8,
    pub af: Tri,
    pub cf: Tri,
}

/// DAA: variant A = 8086 manual's sequential pseudo-code (second test on the updated AL, > 0x9F),
/// variant B = later SDM formulation (old AL > 0x99, CF also from the carry of AL+6).
pub fn daa_variants(al: u8, af: bool, cf: bool) -> Vec<DaVariant> {
    let mut out = Vec::new();
    // A
    {
        let mut a = al;
        let mut vaf = Tri::ZeroOrSame;
        let mut vcf = Tri::ZeroOrSame;
        if (a & 0xF) > 9 || af {
            a = a.wrapping_add(6);
            vaf = Tri::One;
        }
        if a > 0x9F || cf {
            a = a.wrapping_add(0x60);
            vcf = Tri::One;
        }
        out.push(DaVariant { al: a, af: vaf, cf: vcf });
    }
    // B
    {
        let old = al;
        let mut a = al;
        let mut vaf = Tri::ZeroOrSame;
        let mut vcf = Tri::ZeroOrSame;
        let mut carry6 = false;
        if (a & 0xF) > 9 || af {
            carry6 = a > 0xF9;
            a = a.wrapping_add(6);
            vaf = Tri::One;
        }
        if old > 0x99 || cf {
            a = a.wrapping_add(0x60);
            vcf = Tri::One;
        } else if carry6 {
            vcf = Tri::One;
        }
        let v = DaVariant { al: a, af: vaf, cf: vcf };
        if !out.contains(&v) {
            out.push(v);
        }
        // SDM sets CF = old_CF | carry6 in the first step and then *clears* it in the else branch of
        // the second; a reading where the carry of +6 survives is accepted too (vcf One above),
        // as is the reading where it is cleared:
        if carry6 && !(old > 0x99 || cf) {
            let v2 = DaVariant { al: a, af: vaf, cf: Tri::ZeroOrSame };
            if !out.contains(&v2) {
                out.push(v2);
            }
        }
    }
    out
}

pub fn das_variants(al: u8, af: bool, cf: bool) -> Vec<DaVariant> {
    let mut out = Vec::new();
    {
        let mut a = al;
        let mut vaf = Tri::ZeroOrSame;
        let mut vcf = Tri::ZeroOrSame;
        if (a & 0xF) > 9 || af {
            a = a.wrapping_sub(6);
            vaf = Tri::One;
        }
        if a > 0x9F || cf {
            a = a.wrapping_sub(0x60);
            vcf = Tri::One;
        }
        out.push(DaVariant { al: a, af: vaf, cf: vcf });
    }
    {
        let old = al;
        let mut a = al;
        let mut vaf = Tri::ZeroOrSame;
        let mut vcf = Tri::ZeroOrSame;
        let mut borrow6 = false;
        if (a & 0xF) > 9 || af {
            borrow6 = a < 6;
            a = a.wrapping_sub(6);
            vaf = Tri::One;
        }
        if old > 0x99 || cf {
            a = a.wrapping_sub(0x60);
            vcf = Tri::One;
        } else if borrow6 {
            vcf = Tri::One;
        }
        let v = DaVariant { al: a, af: vaf, cf: vcf };
        if !out.contains(&v) {
            out.push(v);
        }
        if borrow6 && !(old > 0x99 || cf) {
            let v2 = DaVariant { al: a, af: vaf, cf: Tri::ZeroOrSame };
            if !out.contains(&v2) {
                out.push(v2);
            }
        }
    }
    out
}

/// AAA / AAS: list of acceptable (AX, AF=CF value)
pub fn aaa_variants(ax: u16, af: bool) -> Vec<(u16, bool)> {
    let al = ax as u8;
    let ah = (ax >> 8) as u8;
    if (al & 0xF) > 9 || af {
        // 8086: AL+6 (8-bit), AH+1
        let a1 = (((ah.wrapping_add(1)) as u16) << 8) | ((al.wrapping_add(6) & 0x0F) as u16);
        // AX + 0x106 formulation
        let t = ax.wrapping_add(0x106);
        let a2 = t & 0xFF0F;
        let mut v = vec![(a1, true)];
        if a2 != a1 {
            v.push((a2, true));
        }
        v
    } else {
        vec![(ax & 0xFF0F, false)]
    }
}
pub fn aas_variants(ax: u16, af: bool) -> Vec<(u16, bool)> {
    let al = ax as u8;
    let ah = (ax >> 8) as u8;
    if (al & 0xF) > 9 || af {
        let a1 = (((ah.wrapping_sub(1)) as u16) << 8) | ((al.wrapping_sub(6) & 0x0F) as u16);
        let t = ax.wrapping_sub(6);
        let a2 = ((((t >> 8) as u8).wrapping_sub(1) as u16) << 8) | (t & 0x0F);
        let mut v = vec![(a1, true)];
        if a2 != a1 {
            v.push((a2, true));
        }
        v
    } else {
        vec![(ax & 0xFF0F, false)]
    }
}

// ---------------------------------------------------------------------------------------
// jump predicates

pub fn jcc_taken(j: Jcc, flags: u16, cx_after: u16) -> bool {
    let cf = flags & CF != 0;
    let zf = flags & ZF != 0;
    let sf = flags & SF != 0;
    let of = flags & OF != 0;
    let pf = flags & PF != 0;
    match j {
        Jcc::Jmp => true,
        Jcc::Ja => !cf && !zf,
        Jcc::Jae => !cf,
        Jcc::Jb => cf,
        Jcc::Jbe => cf || zf,
        Jcc::Je => zf,
        Jcc::Jg => !zf && sf == of,
        Jcc::Jge => sf == of,
        Jcc::Jl => sf != of,
        Jcc::Jle => zf || sf != of,
        Jcc::Jne => !zf,
        Jcc::Jno => !of,
        Jcc::Jnp => !pf,
        Jcc::Jns => !sf,
        Jcc::Jo => of,
        Jcc::Jp => pf,
        Jcc::Js => sf,
        Jcc::Jcxz => cx_after == 0,
        Jcc::Loop => cx_after != 0,
        Jcc::Loope => cx_after != 0 && zf,
        Jcc::Loopne => cx_after != 0 && !zf,
    }
}

// ---------------------------------------------------------------------------------------
// effective address

pub fn phys(seg: u16, off: u16) -> u32 {
    ((seg as u32) * 16 + off as u32) % MB
}

/// (segment value, 16-bit offset) of a memory operand
pub fn ea(r: &Regs, m: &Mem) -> (u16, u16) {
    let (off, bp_base) = match m.form {
        MemForm::Direct(n) => (n, false),
        MemForm::Ind(x) => (r[r16_idx(x)], x == R16::BP),
        MemForm::Based(b, d) => (r[r16_idx(b)].wrapping_add(d as u16), b == R16::BP),
        MemForm::Indexed(i, d) => (r[r16_idx(i)].wrapping_add(d as u16), false),
        MemForm::BasedIndexed(b, i, d) => (
            r[r16_idx(b)].wrapping_add(r[r16_idx(i)]).wrapping_add(d.unwrap_or(0) as u16),
            b == R16::BP,
        ),
    };
    let seg = match m.seg {
        Some(s) => r[sr_idx(s)],
        None => {
            if bp_base {
                r[SS]
            } else {
                r[DS]
            }
        }
    };
    (seg, off)
}

// ---------------------------------------------------------------------------------------
// instruction-level reference executor

#[derive(Clone, PartialEq, Eq, Debug)]
pub enum Flow {
    Next,
    /// jump / call target by name
    Jump(String),
    Call(String),
    Ret,
    Int(u8),
    Halt,
    Print,
}

#[derive(Clone, Debug)]
pub struct Outcome {
    pub r: Regs,
    /// memory writes relative to the pre-state, in order
    pub memw: Vec<(u32, u8)>,
    pub flow: Flow,
    /// flag bits whose value is architecturally defined (all 16 minus undefined status bits)
    pub care: u16,
    /// tag of the accept-set member (for evidence), "" for the primary reading
    pub alt: &'static str,
}

pub struct Ctx<'a> {
    pub labels: &'a HashMap<String, u16>,
}

struct Ex<'a> {
    r: Regs,
    mem: &'a [u8],
    memw: Vec<(u32, u8)>,
    /// overlay index (address -> latest value) once many writes accumulate (REP loops)
    ov: HashMap<u32, u8>,
    /// when true, the second byte of a word at offset 0xFFFF is taken from seg:0000 (segment wrap)
    segwrap: bool,
    hit_segwrap: bool,
}

impl<'a> Ex<'a> {
    fn rd8(&self, a: u32) -> u8 {
        let a = a % MB;
        if self.memw.len() > 24 {
            if let Some(v) = self.ov.get(&a) {
                return *v;
            }
            return self.mem[a as usize];
        }
        for (x, v) in self.memw.iter().rev() {
            if *x == a {
                return *v;
            }
        }
        self.mem[a as usize]
    }
    fn wr8(&mut self, a: u32, v: u8) {
        self.memw.push((a % MB, v));
        if self.memw.len() == 25 {
            for (x, y) in &self.memw {
                self.ov.insert(*x, *y);
            }
        } else if self.memw.len() > 25 {
            self.ov.insert(a % MB, v);
        }
    }
    fn hi_addr(&mut self, seg: u16, off: u16) -> u32 {
        if off == 0xFFFF {
            self.hit_segwrap = true;
            if self.segwrap {
                return phys(seg, 0);
            }
        }
        (phys(seg, off) + 1) % MB
    }
    fn rd(&mut self, w: W, seg: u16, off: u16) -> u16 {
        let lo = self.rd8(phys(seg, off)) as u16;
        match w {
            W::B => lo,
            W::W => {
                let h = self.hi_addr(seg, off);
                lo | ((self.rd8(h) as u16) << 8)
            }
        }
    }
    fn wr(&mut self, w: W, seg: u16, off: u16, v: u16) {
        self.wr8(phys(seg, off), v as u8);
        if w == W::W {
            let h = self.hi_addr(seg, off);
            self.wr8(h, (v >> 8) as u8);
        }
    }
    fn loc_addr(&self, l: &Loc, cx: &Ctx) -> Option<(u16, u16)> {
        match l {
            Loc::Mem(_, m) => Some(ea(&self.r, m)),
            Loc::Label(_, n) => Some((self.r[DS], *cx.labels.get(n).expect("label offset known to the reference"))),
            _ => None,
        }
    }
    fn get(&mut self, l: &Loc, cx: &Ctx) -> u16 {
        match l {
            Loc::R8(x) => get_r8(&self.r, *x) as u16,
            Loc::R16(x) => self.r[r16_idx(*x)],
            Loc::SR(x) => self.r[sr_idx(*x)],
            Loc::Mem(w, _) | Loc::Label(w, _) => {
                let (s, o) = self.loc_addr(l, cx).unwrap();
                self.rd(*w, s, o)
            }
        }
    }
    /// write to a location whose address was computed *before* the instruction changed registers
    fn put_at(&mut self, l: &Loc, addr: Option<(u16, u16)>, v: u16) {
        match l {
            Loc::R8(x) => set_r8(&mut self.r, *x, v as u8),
            Loc::R16(x) => self.r[r16_idx(*x)] = v,
            Loc::SR(x) => self.r[sr_idx(*x)] = v,
            Loc::Mem(w, _) | Loc::Label(w, _) => {
                let (s, o) = addr.unwrap();
                self.wr(*w, s, o, v);
            }
        }
    }
    fn push16(&mut self, v: u16) {
        self.r[SP] = self.r[SP].wrapping_sub(2);
        let (ss, sp) = (self.r[SS], self.r[SP]);
        self.wr(W::W, ss, sp, v);
    }
    fn pop16(&mut self) -> u16 {
        let (ss, sp) = (self.r[SS], self.r[SP]);
        let v = self.rd(W::W, ss, sp);
        self.r[SP] = sp.wrapping_add(2);
        v
    }
    fn set_status(&mut self, f: u16, which: u16) {
        self.r[FLAG] = (self.r[FLAG] & !which) | (f & which);
    }
}

/// All acceptable outcomes of executing `ins` in the given pre-state (first = primary reading).
pub fn exec(pre: &Regs, mem: &[u8], cx: &Ctx, ins: &Ins) -> Vec<Outcome> {
    let mut outs = Vec::new();
    // first pass without segment wrap of word accesses; if a word access at offset 0xFFFF happened,
    // the segment-wrap reading is an additional accepted outcome
    let mut hit = false;
    exec_variant(pre, mem, cx, ins, false, &mut outs, &mut hit);
    if hit {
        let mut o2 = Vec::new();
        let mut h2 = false;
        exec_variant(pre, mem, cx, ins, true, &mut o2, &mut h2);
        for mut o in o2 {
            o.alt = "word-at-0xFFFF-segment-wrap";
            outs.push(o);
        }
    }
    outs
}

fn exec_variant(pre: &Regs, mem: &[u8], cx: &Ctx, ins: &Ins, segwrap: bool, outs: &mut Vec<Outcome>, hit: &mut bool) {
    let mut e = Ex { r: *pre, mem, memw: Vec::new(), ov: HashMap::new(), segwrap, hit_segwrap: false };
    let mut flow = Flow::Next;
    let mut care: u16 = 0xFFFF;
    // alternatives produced by this instruction: (regs, memw, flow, care, tag)
    let mut alts: Vec<(Regs, Vec<(u32, u8)>, Flow, u16, &'static str)> = Vec::new();
    match ins {
        Ins::Alu2(op, d, s) => {
            let w = d.width();
            let bits = w.bits();
            let addr = e.loc_addr(d, cx);
            let a = e.get(d, cx) as u32;
            let b = match s {
                Src::Loc(l) => e.get(l, cx) as u32,
                Src::Imm(v) => (*v as u32) & mask(bits),
            };
            let cin = (e.r[FLAG] & CF) as u32;
            let (res, f, write) = match op {
                Alu2::Add => {
                    let (r, f) = add(bits, a, b, 0);
                    (r, f, true)
                }
                Alu2::Adc => {
                    let (r, f) = add(bits, a, b, cin);
                    (r, f, true)
                }
                Alu2::Sub => {
                    let (r, f) = sub(bits, a, b, 0);
                    (r, f, true)
                }
                Alu2::Sbb => {
                    let (r, f) = sub(bits, a, b, cin);
                    (r, f, true)
                }
                Alu2::Cmp => {
                    let (r, f) = sub(bits, a, b, 0);
                    (r, f, false)
                }
                Alu2::And | Alu2::Test => {
                    let r = a & b;
                    care &= !AF;
                    (r, szp(bits, r), *op == Alu2::And)
                }
                Alu2::Or => {
                    let r = a | b;
                    care &= !AF;
                    (r, szp(bits, r), true)
                }
                Alu2::Xor => {
                    let r = a ^ b;
                    care &= !AF;
                    (r, szp(bits, r), true)
                }
            };
            // logic ops: CF/OF cleared (absent from szp), AF undefined (left alone, not compared)
            e.set_status(f, if op.is_logic() { STATUS6 & !AF } else { STATUS6 });
            if write {
                e.put_at(d, addr, res as u16);
            }
        }
        Ins::Un(op, d) => {
            let w = d.width();
            let bits = w.bits();
            let addr = e.loc_addr(d, cx);
            let a = e.get(d, cx) as u32;
            match op {
                Un::Inc => {
                    let (r, f) = add(bits, a, 1, 0);
                    e.set_status(f, STATUS6 & !CF);
                    e.put_at(d, addr, r as u16);
                }
                Un::Dec => {
                    let (r, f) = sub(bits, a, 1, 0);
                    e.set_status(f, STATUS6 & !CF);
                    e.put_at(d, addr, r as u16);
                }
                Un::Neg => {
                    let (r, f) = sub(bits, 0, a, 0);
                    e.set_status(f, STATUS6);
                    e.put_at(d, addr, r as u16);
                }
                Un::Not => {
                    e.put_at(d, addr, (!a & mask(bits)) as u16);
                }
                Un::Mul | Un::Imul => {
                    care &= !(SF | ZF | AF | PF);
                    let sig;
                    if w == W::B {
                        let al = e.r[AX] as u8;
                        let (ax, s) = if *op == Un::Mul { mul8(al, a as u8) } else { imul8(al, a as u8) };
                        e.r[AX] = ax;
                        sig = s;
                    } else {
                        let (ax, dx, s) = if *op == Un::Mul { mul16(e.r[AX], a as u16) } else { imul16(e.r[AX], a as u16) };
                        e.r[AX] = ax;
                        e.r[DX] = dx;
                        sig = s;
                    }
                    let f = if sig { CF | OF } else { 0 };
                    e.set_status(f, CF | OF);
                }
                Un::Div | Un::Idiv => {
                    care &= !STATUS6;
                    let res = if w == W::B {
                        if *op == Un::Div {
                            div8(e.r[AX], a as u8)
                        } else {
                            idiv8(e.r[AX], a as u8)
                        }
                    } else if *op == Un::Div {
                        div16(e.r[DX], e.r[AX], a as u16)
                    } else {
                        idiv16(e.r[DX], e.r[AX], a as u16)
                    };
                    match res {
                        DivRes::Fault => {
                            flow = Flow::Int(0);
                        }
                        DivRes::Ok { q, r, boundary } => {
                            if boundary {
                                // the original 8086 faults on the most negative quotient
                                alts.push((e.r, e.memw.clone(), Flow::Int(0), care, "idiv-most-negative-quotient-faults"));
                            }
                            if w == W::B {
                                e.r[AX] = (r << 8) | (q & 0xFF);
                            } else {
                                e.r[AX] = q;
                                e.r[DX] = r;
                            }
                        }
                    }
                }
            }
        }
        Ins::Sh(op, d, c) => {
            let w = d.width();
            let bits = w.bits();
            let addr = e.loc_addr(d, cx);
            let a = e.get(d, cx) as u32;
            let n = match c {
                Cnt::Imm(n) => *n as u32,
                Cnt::CL => (e.r[CX] & 0xFF) as u32,
            };
            if n > 0 {
                let cf_in = e.r[FLAG] & CF != 0;
                let o = shift(*op, bits, a, n, cf_in);
                let mut f = 0;
                let mut which = CF;
                if o.cf {
                    f |= CF;
                }
                if n == 1 {
                    which |= OF;
                    if o.of1 {
                        f |= OF;
                    }
                } else {
                    care &= !OF;
                }
                if !op.is_rotate() {
                    f |= szp(bits, o.res);
                    which |= SF | ZF | PF;
                    care &= !AF;
                }
                e.set_status(f, which);
                e.put_at(d, addr, o.res as u16);
            }
        }
        Ins::Mov(d, s) => {
            let addr = e.loc_addr(d, cx);
            let v = match s {
                Src::Loc(l) => e.get(l, cx),
                Src::Imm(v) => *v,
            };
            e.put_at(d, addr, v);
        }
        Ins::Xchg(a, b) => {
            let aa = e.loc_addr(a, cx);
            let ab = e.loc_addr(b, cx);
            let va = e.get(a, cx);
            let vb = e.get(b, cx);
            e.put_at(a, aa, vb);
            e.put_at(b, ab, va);
        }
        Ins::Push(l) => {
            let v = e.get(l, cx);
            if matches!(l, Loc::R16(R16::SP)) {
                // 8086 pushes the decremented SP, 80286+ the old value: both accepted
                let mut e2 = Ex { r: e.r, mem, memw: e.memw.clone(), ov: e.ov.clone(), segwrap, hit_segwrap: false };
                let nv = v.wrapping_sub(2);
                e2.push16(nv);
                alts.push((e2.r, e2.memw, Flow::Next, care, "push-sp-decremented-value"));
            }
            e.push16(v);
        }
        Ins::Pop(l) => {
            if matches!(l, Loc::R16(R16::SP)) {
                // value popped replaces SP; (SP+2 then overwritten) — also accept SP = value + 0
                let v = e.pop16();
                e.r[SP] = v;
                // "SP restored" and "y = x" cannot both hold for POP SP; value+2 is accepted as well
                let mut r2 = e.r;
                r2[SP] = v.wrapping_add(2);
                alts.push((r2, e.memw.clone(), Flow::Next, care, "pop-sp-then-increment"));
            } else {
                // the destination address of a memory operand is computed with the *pre* registers on
                // the 8086 except that SP-relative forms do not exist, so pre/post agree
                let v = e.pop16();
                let addr = e.loc_addr(l, cx);
                e.put_at(l, addr, v);
            }
        }
        Ins::Lea(r, l) => {
            let (_, off) = e.loc_addr(l, cx).expect("lea needs a memory operand");
            e.r[r16_idx(*r)] = off;
        }
        Ins::Str(rep, op, w) => {
            let bits = w.bits();
            let step: u16 = if *w == W::B { 1 } else { 2 };
            let body = |e: &mut Ex| {
                let df = e.r[FLAG] & DF != 0;
                let adv = |x: u16| if df { x.wrapping_sub(step) } else { x.wrapping_add(step) };
                match op {
                    StrOp::Movs => {
                        let v = e.rd(*w, e.r[DS], e.r[SI]);
                        let (es, di) = (e.r[ES], e.r[DI]);
                        e.wr(*w, es, di, v);
                        e.r[SI] = adv(e.r[SI]);
                        e.r[DI] = adv(e.r[DI]);
                    }
                    StrOp::Lods => {
                        let v = e.rd(*w, e.r[DS], e.r[SI]);
                        if *w == W::B {
                            e.r[AX] = (e.r[AX] & 0xFF00) | v;
                        } else {
                            e.r[AX] = v;
                        }
                        e.r[SI] = adv(e.r[SI]);
                    }
                    StrOp::Stos => {
                        let v = if *w == W::B { e.r[AX] & 0xFF } else { e.r[AX] };
                        let (es, di) = (e.r[ES], e.r[DI]);
                        e.wr(*w, es, di, v);
                        e.r[DI] = adv(e.r[DI]);
                    }
                    StrOp::Cmps => {
                        let s = e.rd(*w, e.r[DS], e.r[SI]) as u32;
                        let d = e.rd(*w, e.r[ES], e.r[DI]) as u32;
                        let (_, f) = sub(bits, s, d, 0);
                        e.set_status(f, STATUS6);
                        e.r[SI] = adv(e.r[SI]);
                        e.r[DI] = adv(e.r[DI]);
                    }
                    StrOp::Scas => {
                        let a = if *w == W::B { e.r[AX] & 0xFF } else { e.r[AX] } as u32;
                        let d = e.rd(*w, e.r[ES], e.r[DI]) as u32;
                        let (_, f) = sub(bits, a, d, 0);
                        e.set_status(f, STATUS6);
                        e.r[DI] = adv(e.r[DI]);
                    }
                }
            };
            match rep {
                Rep::None => body(&mut e),
                _ => {
                    while e.r[CX] != 0 {
                        body(&mut e);
                        e.r[CX] = e.r[CX].wrapping_sub(1);
                        if op.compares() {
                            let z = e.r[FLAG] & ZF != 0;
                            if (*rep == Rep::Repe && !z) || (*rep == Rep::Repne && z) {
                                break;
                            }
                        }
                    }
                }
            }
        }
        Ins::J(j, l) => {
            if matches!(j, Jcc::Loop | Jcc::Loope | Jcc::Loopne) {
                e.r[CX] = e.r[CX].wrapping_sub(1);
            }
            if jcc_taken(*j, e.r[FLAG], e.r[CX]) {
                flow = Flow::Jump(l.clone());
            }
        }
        Ins::Call(p) => flow = Flow::Call(p.clone()),
        Ins::Ret => flow = Flow::Ret,
        Ins::Int(n) => flow = Flow::Int(*n),
        Ins::Print(_) => flow = Flow::Print,
        Ins::Simple(s) => match *s {
            "stc" => e.r[FLAG] |= CF,
            "clc" => e.r[FLAG] &= !CF,
            "cmc" => e.r[FLAG] ^= CF,
            "std" => e.r[FLAG] |= DF,
            "cld" => e.r[FLAG] &= !DF,
            "sti" => e.r[FLAG] |= IF,
            "cli" => e.r[FLAG] &= !IF,
            "hlt" => flow = Flow::Halt,
            "cbw" => {
                let al = e.r[AX] as u8;
                e.r[AX] = al as i8 as i16 as u16;
            }
            "cwd" => {
                e.r[DX] = if e.r[AX] & 0x8000 != 0 { 0xFFFF } else { 0 };
            }
            "lahf" => {
                e.r[AX] = (e.r[AX] & 0x00FF) | ((e.r[FLAG] & 0xFF) << 8);
            }
            "sahf" => {
                e.r[FLAG] = (e.r[FLAG] & 0xFF00) | (e.r[AX] >> 8);
            }
            "pushf" => {
                let f = e.r[FLAG];
                e.push16(f);
            }
            "popf" => {
                let v = e.pop16();
                e.r[FLAG] = v;
            }
            "xlat" => {
                let off = e.r[BX].wrapping_add(e.r[AX] & 0xFF);
                let v = e.rd8(phys(e.r[DS], off));
                e.r[AX] = (e.r[AX] & 0xFF00) | v as u16;
            }
            "aaa" | "aas" => {
                care &= !(OF | SF | ZF | PF);
                let af = e.r[FLAG] & AF != 0;
                let vs = if *s == "aaa" { aaa_variants(e.r[AX], af) } else { aas_variants(e.r[AX], af) };
                for (i, (ax, c)) in vs.iter().enumerate() {
                    let mut r2 = e.r;
                    r2[AX] = *ax;
                    r2[FLAG] = (r2[FLAG] & !(AF | CF)) | if *c { AF | CF } else { 0 };
                    if i == 0 {
                        e.r = r2;
                    } else {
                        alts.push((r2, e.memw.clone(), Flow::Next, care, "aaa/aas-AX-wide-formulation"));
                    }
                }
            }
            "daa" | "das" => {
                care &= !OF;
                let af = e.r[FLAG] & AF != 0;
                let cf = e.r[FLAG] & CF != 0;
                let al = e.r[AX] as u8;
                let vs = if *s == "daa" { daa_variants(al, af, cf) } else { das_variants(al, af, cf) };
                let base = e.r;
                let mut first = true;
                for v in vs {
                    // expand Tri into concrete acceptable flag values
                    let afs: Vec<bool> = match v.af {
                        Tri::One => vec![true],
                        Tri::Zero => vec![false],
                        Tri::ZeroOrSame => {
                            if af {
                                vec![false, true]
                            } else {
                                vec![false]
                            }
                        }
                    };
                    let cfs: Vec<bool> = match v.cf {
                        Tri::One => vec![true],
                        Tri::Zero => vec![false],
                        Tri::ZeroOrSame => {
                            if cf {
                                vec![false, true]
                            } else {
                                vec![false]
                            }
                        }
                    };
                    for &a in &afs {
                        for &c in &cfs {
                            let mut r2 = base;
                            r2[AX] = (r2[AX] & 0xFF00) | v.al as u16;
                            let mut f = szp(8, v.al as u32);
                            if a {
                                f |= AF;
                            }
                            if c {
                                f |= CF;
                            }
                            r2[FLAG] = (r2[FLAG] & !(STATUS6 & !OF)) | f;
                            if first {
                                e.r = r2;
                                first = false;
                            } else {
                                alts.push((r2, e.memw.clone(), Flow::Next, care, "daa/das-accept-set"));
                            }
                        }
                    }
                }
            }
            "aam" => {
                care &= !(OF | AF | CF);
                let al = e.r[AX] as u8;
                let ah = al / 10;
                let nl = al % 10;
                e.r[AX] = ((ah as u16) << 8) | nl as u16;
                e.set_status(szp(8, nl as u32), SF | ZF | PF);
                if nl == 0 && ah != 0 {
                    // ZF computed from the whole AX is accepted too
                    let mut r2 = e.r;
                    r2[FLAG] &= !ZF;
                    alts.push((r2, e.memw.clone(), Flow::Next, care, "aam-ZF-from-AX"));
                }
            }
            "aad" => {
                care &= !(OF | AF | CF);
                let al = e.r[AX] as u8;
                let ah = (e.r[AX] >> 8) as u8;
                let nl = ah.wrapping_mul(10).wrapping_add(al);
                e.r[AX] = nl as u16;
                e.set_status(szp(8, nl as u32), SF | ZF | PF);
            }
            other => panic!("reference: unknown simple instruction {}", other),
        },
    }
    if e.hit_segwrap {
        *hit = true;
    }
    outs.push(Outcome { r: e.r, memw: e.memw, flow, care, alt: "" });
    for (r, memw, flow, care, tag) in alts {
        outs.push(Outcome { r, memw, flow, care, alt: tag });
    }
}
