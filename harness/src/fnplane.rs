//! Function plane: direct calls of the emulator's `pub fn` instruction helpers with a scratch VM.
use crate::ref8086::*;
use crate::report::{hnum, FailAgg};
use crate::util::fnv64;
use emulator_8086_lib::VM;

pub const COMP: [&str; 11] = ["result", "CF", "PF", "AF", "ZF", "SF", "OF", "other-flags", "other-state", "panic", "outcome"];
pub const C_RESULT: u32 = 1 << 0;
pub const C_OTHERFLAGS: u32 = 1 << 7;
pub const C_OTHERSTATE: u32 = 1 << 8;
pub const C_PANIC: u32 = 1 << 9;
pub const C_OUTCOME: u32 = 1 << 10;

/// component mask of the status-flag disagreements (bits 1..6) plus "other-flags"
pub fn flag_comps(fin: u16, fout: u16, exp_status: u16, care: u16) -> u32 {
    let mut m = 0;
    let d = (fout ^ exp_status) & care & STATUS6;
    if d & CF != 0 {
        m |= 1 << 1;
    }
    if d & PF != 0 {
        m |= 1 << 2;
    }
    if d & AF != 0 {
        m |= 1 << 3;
    }
    if d & ZF != 0 {
        m |= 1 << 4;
    }
    if d & SF != 0 {
        m |= 1 << 5;
    }
    if d & OF != 0 {
        m |= 1 << 6;
    }
    if (fin ^ fout) & !STATUS6 != 0 {
        m |= C_OTHERFLAGS;
    }
    m
}

/// registers other than the ones in `allowed` (indices) changed?
pub fn other_regs_changed(vm: &VM, pre: &Regs, allowed: &[usize]) -> bool {
    let post = crate::machine::read_regs(vm);
    for i in 1..14 {
        if post[i] != pre[i] && !allowed.contains(&i) {
            return true;
        }
    }
    false
}

/// record one failure per component in `mask`
pub fn report(
    agg: &mut FailAgg,
    family: &str,
    fname: &str,
    mask: u32,
    core: bool,
    inputs: &[u64],
    observed: &[u64],
    what: &str,
    witness: &dyn Fn() -> String,
) {
    let kf = fnv64(family.as_bytes()) ^ fnv64(fname.as_bytes()).rotate_left(17);
    let mut core_h = None;
    if core {
        let mut buf = [0u64; 16];
        let mut n = 0;
        for x in inputs.iter().chain(std::iter::once(&0xFFFF_FFFF_FFFFu64)).chain(observed.iter()) {
            if n < 16 {
                buf[n] = *x;
                n += 1;
            }
        }
        core_h = Some(hnum(&buf[..n]));
    }
    for c in 0..COMP.len() {
        if mask & (1 << c) != 0 {
            let key = kf.wrapping_add((c as u64 + 1).wrapping_mul(0x9E3779B97F4A7C15));
            agg.add(key, core_h, || {
                (
                    format!("{}:{}:{}", family, fname, COMP[c]),
                    format!("{} `{}`: {} differs from the 8086 reference", what, fname, COMP[c]),
                    witness(),
                )
            });
        }
    }
}

pub fn mem_all_zero(vm: &VM) -> bool {
    vm.mem.iter().all(|&b| b == 0)
}
