//! Whole-state observation of the emulator's VM: register load/read, position-dependent memory
//! pattern, a test bench that executes one IR line under catch_unwind and compares the complete
//! post-state (14 registers, flag word, 1 MiB memory, returned State) with reference outcomes.
use crate::ref8086::*;
use emulator_8086_lib as lib;
use lib::{Interpreter, InterpreterContext, Label, LabelType, State, VM};
use std::cell::RefCell;
use std::collections::HashMap;
use std::panic::{catch_unwind, AssertUnwindSafe};

thread_local! {
    static LAST_PANIC: RefCell<String> = RefCell::new(String::new());
}

/// Silence the default panic printer and remember message + location per thread.
pub fn install_panic_hook() {
    std::panic::set_hook(Box::new(|info| {
        let msg = if let Some(s) = info.payload().downcast_ref::<&str>() {
            s.to_string()
        } else if let Some(s) = info.payload().downcast_ref::<String>() {
            s.clone()
        } else {
            "<non-string panic>".to_string()
        };
        let loc = info
            .location()
            .map(|l| {
                // keep the file name relative and without line numbers of generated parsers drifting:
                // file + line is still the most useful pointer for a human
                format!("{}:{}", l.file(), l.line())
            })
            .unwrap_or_default();
        LAST_PANIC.with(|p| *p.borrow_mut() = format!("{} @ {}", msg, loc));
    }));
}
pub fn last_panic() -> String {
    LAST_PANIC.with(|p| p.borrow().clone())
}
/// message only (stable across line-number drift), e.g. "attempt to shift right with overflow"
pub fn panic_kind(full: &str) -> String {
    let m = full.split(" @ ").next().unwrap_or("");
    // strip variable numbers: "index out of bounds: the len is 1048576 but the index is 1048577"
    let mut out = String::new();
    let mut prev_digit = false;
    for c in m.chars() {
        if c.is_ascii_digit() {
            if !prev_digit {
                out.push('N');
            }
            prev_digit = true;
        } else {
            prev_digit = false;
            out.push(c);
        }
    }
    out
}

pub fn load_regs(vm: &mut VM, r: &Regs) {
    let a = &mut vm.arch;
    a.flag = r[FLAG];
    a.ax = r[AX];
    a.bx = r[BX];
    a.cx = r[CX];
    a.dx = r[DX];
    a.sp = r[SP];
    a.bp = r[BP];
    a.si = r[SI];
    a.di = r[DI];
    a.ip = r[IP];
    a.cs = r[CS];
    a.ds = r[DS];
    a.ss = r[SS];
    a.es = r[ES];
}
pub fn read_regs(vm: &VM) -> Regs {
    let a = &vm.arch;
    [a.flag, a.ax, a.bx, a.cx, a.dx, a.sp, a.bp, a.si, a.di, a.ip, a.cs, a.ds, a.ss, a.es]
}

#[inline]
pub fn pattern(addr: u32, salt: u32) -> u8 {
    // cheap position-dependent hash; neighbouring cells differ, high/low bytes differ
    let mut x = addr.wrapping_mul(0x9E3779B1) ^ salt.wrapping_mul(0x85EBCA6B);
    x ^= x >> 15;
    x = x.wrapping_mul(0x2C1B3C6D);
    x ^= x >> 12;
    x as u8
}

#[derive(Clone, PartialEq, Eq, Debug)]
pub enum ObsFlow {
    Next,
    Jmp(usize),
    Repeat,
    Print,
    Int(u8),
    Halt,
    /// the interpreter returned Err (line rejected / reported error)
    Rejected(String),
    Panic(String),
}
impl ObsFlow {
    pub fn kind(&self) -> &'static str {
        match self {
            ObsFlow::Next => "NEXT",
            ObsFlow::Jmp(_) => "JMP",
            ObsFlow::Repeat => "REPEAT",
            ObsFlow::Print => "PRINT",
            ObsFlow::Int(_) => "INT",
            ObsFlow::Halt => "HALT",
            ObsFlow::Rejected(_) => "ERR",
            ObsFlow::Panic(_) => "PANIC",
        }
    }
}

pub fn state_to_obs(s: State) -> ObsFlow {
    match s {
        State::HALT => ObsFlow::Halt,
        State::PRINT => ObsFlow::Print,
        State::JMP(i) => ObsFlow::Jmp(i as usize),
        State::NEXT => ObsFlow::Next,
        State::INT(n) => ObsFlow::Int(n),
        State::REPEAT => ObsFlow::Repeat,
    }
}

pub struct Bench {
    pub vm: VM,
    pub shadow: Vec<u8>,
    pub salt: u32,
    pub interp: Interpreter,
    pub ictx: InterpreterContext,
    /// label name -> data offset, for the reference
    pub labels: HashMap<String, u16>,
    /// how often the REP driver re-issued the last line
    pub last_issues: u32,
    /// history mode: a matched outcome's memory writes become part of the state
    pub keep: bool,
    pub dirty: Vec<u32>,
    /// index of the outcome matched by the last successful judge
    pub matched: usize,
}

#[derive(Debug)]
pub struct Mismatch {
    /// e.g. "reg:ax", "flag:CF", "mem", "flow", "panic", "rejected"
    pub components: Vec<String>,
    pub detail: String,
}

impl Bench {
    pub fn new(salt: u32) -> Bench {
        let mut vm = VM::new();
        let mut shadow = vec![0u8; MB as usize];
        for a in 0..MB {
            let p = pattern(a, salt);
            shadow[a as usize] = p;
            vm.mem[a as usize] = p;
        }
        Bench {
            vm,
            shadow,
            salt,
            interp: Interpreter::new(),
            ictx: InterpreterContext::default(),
            labels: HashMap::new(),
            last_issues: 0,
            keep: false,
            dirty: Vec::new(),
            matched: 0,
        }
    }
    /// all-zero memory variant (cheaper to reason about in some workloads)
    pub fn resalt(&mut self, salt: u32) {
        self.salt = salt;
        for a in 0..MB {
            let p = pattern(a, salt);
            self.shadow[a as usize] = p;
            self.vm.mem[a as usize] = p;
        }
    }
    pub fn add_data_label(&mut self, name: &str, off: u16) {
        self.labels.insert(name.to_string(), off);
        self.ictx.label_map.insert(name.to_string(), Label::new(LabelType::DATA, 0, off as _));
    }
    pub fn add_code_label(&mut self, name: &str, idx: usize) {
        self.ictx.label_map.insert(name.to_string(), Label::new(LabelType::CODE, 0, idx as _));
    }
    pub fn add_proc(&mut self, name: &str, idx: usize) {
        self.ictx.fn_map.insert(name.to_string(), idx as _);
    }
    /// set specific memory cells (kept in shadow too, i.e. they become part of the pre-state)
    pub fn poke(&mut self, addr: u32, v: u8) {
        let a = (addr % MB) as usize;
        self.vm.mem[a] = v;
        self.shadow[a] = v;
    }
    pub fn unpoke(&mut self, addr: u32) {
        let a = addr % MB;
        let p = pattern(a, self.salt);
        self.vm.mem[a as usize] = p;
        self.shadow[a as usize] = p;
    }
    pub fn mem(&self) -> &[u8] {
        &self.shadow
    }

    /// Execute one IR line once.
    pub fn step(&mut self, idx: usize, line: &str, pre: &Regs) -> (ObsFlow, Regs) {
        load_regs(&mut self.vm, pre);
        let vm = &mut self.vm;
        let ictx = &mut self.ictx;
        let interp = &self.interp;
        let res = catch_unwind(AssertUnwindSafe(|| interp.parse(idx, vm, ictx, line).map_err(|e| format!("{}", e))));
        let flow = match res {
            Ok(Ok(s)) => state_to_obs(s),
            Ok(Err(e)) => ObsFlow::Rejected(e),
            Err(_) => ObsFlow::Panic(last_panic()),
        };
        (flow, read_regs(&self.vm))
    }

    /// Execute a line the way the driver does: re-issue while the result is REPEAT (bounded).
    pub fn run_line(&mut self, idx: usize, line: &str, pre: &Regs, max_issues: u32) -> (ObsFlow, Regs) {
        let mut r = *pre;
        let mut n = 0;
        loop {
            let (f, post) = self.step(idx, line, &r);
            n += 1;
            r = post;
            if f != ObsFlow::Repeat || n >= max_issues {
                self.last_issues = n;
                return (f, r);
            }
        }
    }

    /// Compare the observed post-state with the acceptable outcomes; restores memory to the pre-state.
    /// `flow_ok(expected, observed)` decides control-flow agreement.
    pub fn judge(
        &mut self,
        obs_flow: &ObsFlow,
        post: &Regs,
        outs: &[Outcome],
        flow_ok: &dyn Fn(&Flow, &ObsFlow) -> bool,
    ) -> Result<&'static str, Mismatch> {
        let mut verdict: Option<usize> = None;
        for (oi, o) in outs.iter().enumerate() {
            // registers
            let mut ok = true;
            for i in 1..14 {
                if o.r[i] != post[i] {
                    ok = false;
                    break;
                }
            }
            if ok && (o.r[FLAG] ^ post[FLAG]) & o.care != 0 {
                ok = false;
            }
            if ok && !flow_ok(&o.flow, obs_flow) {
                ok = false;
            }
            if ok {
                // memory
                let mut saved: Vec<(u32, u8)> = Vec::with_capacity(o.memw.len());
                for (a, v) in &o.memw {
                    saved.push((*a, self.shadow[*a as usize]));
                    self.shadow[*a as usize] = *v;
                }
                let same = self.vm.mem[..] == self.shadow[..];
                if same && self.keep {
                    for (a, _) in &o.memw {
                        self.dirty.push(*a);
                    }
                    verdict = Some(oi);
                    break;
                }
                for (a, v) in saved.iter().rev() {
                    self.shadow[*a as usize] = *v;
                }
                if same {
                    verdict = Some(oi);
                    break;
                }
            }
        }
        if let Some(oi) = verdict {
            self.matched = oi;
            if !self.keep {
                // restore vm.mem: only the cells of the matched outcome can differ from the shadow
                for (a, _) in &outs[oi].memw {
                    self.vm.mem[*a as usize] = self.shadow[*a as usize];
                }
            }
            return Ok(outs[oi].alt);
        }
        // describe the mismatch against the primary outcome
        let o = &outs[0];
        let mut comps = Vec::new();
        let mut detail = String::new();
        match obs_flow {
            ObsFlow::Panic(p) => {
                comps.push("panic".to_string());
                detail.push_str(&format!("panic: {}; ", p));
            }
            ObsFlow::Rejected(e) => {
                if !flow_ok(&o.flow, obs_flow) {
                    comps.push("rejected".to_string());
                    detail.push_str(&format!("interpreter returned Err: {}; ", e.replace('\n', " ")));
                }
            }
            f => {
                if !flow_ok(&o.flow, f) {
                    comps.push("flow".to_string());
                    detail.push_str(&format!("flow expected {:?} observed {:?}; ", o.flow, f));
                }
            }
        }
        if !matches!(obs_flow, ObsFlow::Panic(_)) {
            for i in 1..14 {
                if o.r[i] != post[i] {
                    comps.push(format!("reg:{}", REG_NAMES[i]));
                    detail.push_str(&format!("{} expected {:04x} observed {:04x}; ", REG_NAMES[i], o.r[i], post[i]));
                }
            }
            let fd = (o.r[FLAG] ^ post[FLAG]) & o.care;
            if fd != 0 {
                for (bit, name) in FLAG_BITS.iter() {
                    if fd & bit != 0 {
                        comps.push(format!("flag:{}", name));
                    }
                }
                let other = fd & !FLAG_BITS.iter().fold(0u16, |a, (b, _)| a | b);
                if other != 0 {
                    comps.push("flag:reserved".to_string());
                }
                detail.push_str(&format!("flags expected {:04x} observed {:04x} (care {:04x}); ", o.r[FLAG], post[FLAG], o.care));
            }
            // memory against primary
            let mut saved: Vec<(u32, u8)> = Vec::new();
            for (a, v) in &o.memw {
                saved.push((*a, self.shadow[*a as usize]));
                self.shadow[*a as usize] = *v;
            }
            if self.vm.mem[..] != self.shadow[..] {
                comps.push("mem".to_string());
                let mut shown = 0;
                for a in 0..MB as usize {
                    if self.vm.mem[a] != self.shadow[a] {
                        if shown < 6 {
                            detail.push_str(&format!("mem[{:05x}] expected {:02x} observed {:02x}; ", a, self.shadow[a], self.vm.mem[a]));
                        }
                        shown += 1;
                    }
                }
                detail.push_str(&format!("({} cells differ); ", shown));
            }
            for (a, v) in saved.iter().rev() {
                self.shadow[*a as usize] = *v;
            }
        }
        // restore vm.mem fully
        self.restore_mem();
        if comps.is_empty() {
            // only an alternative's combination failed (e.g. flags of alt A with value of alt B)
            comps.push("combination".to_string());
            detail.push_str("no single acceptable outcome matches all components; ");
        }
        Err(Mismatch { components: comps, detail })
    }

    /// leave history mode: put every cell written during the history back to the pattern
    pub fn end_history(&mut self) {
        let d = std::mem::take(&mut self.dirty);
        for a in d {
            let p = pattern(a, self.salt);
            self.shadow[a as usize] = p;
            self.vm.mem[a as usize] = p;
        }
        self.keep = false;
    }

    /// history mode, after a mismatch: take over what the instruction really wrote at the addresses its reference
    /// outcomes write (a flag-only divergence leaves correct memory writes behind); false when memory differs elsewhere
    pub fn resync(&mut self, outs: &[Outcome]) -> bool {
        for o in outs {
            for (a, _) in &o.memw {
                let i = *a as usize;
                if self.shadow[i] != self.vm.mem[i] {
                    self.shadow[i] = self.vm.mem[i];
                    self.dirty.push(*a);
                }
            }
        }
        self.vm.mem[..] == self.shadow[..]
    }

    pub fn restore_mem(&mut self) {
        if self.vm.mem[..] != self.shadow[..] {
            self.vm.mem.copy_from_slice(&self.shadow);
        }
    }
}

pub const FLAG_BITS: [(u16, &str); 9] =
    [(CF, "CF"), (PF, "PF"), (AF, "AF"), (ZF, "ZF"), (SF, "SF"), (TF, "TF"), (IF, "IF"), (DF, "DF"), (OF, "OF")];

pub fn regs_json(r: &Regs) -> String {
    let mut s = String::from("{");
    for i in 0..14 {
        if i > 0 {
            s.push_str(", ");
        }
        s.push_str(&format!("\"{}\": \"{:04x}\"", REG_NAMES[i], r[i]));
    }
    s.push('}');
    s
}

/// default flow comparison for straight-line instructions (labels resolved through `label_idx`)
pub fn flow_matches(exp: &Flow, obs: &ObsFlow, label_idx: &dyn Fn(&str) -> Option<usize>) -> bool {
    match (exp, obs) {
        (Flow::Next, ObsFlow::Next) => true,
        (Flow::Halt, ObsFlow::Halt) => true,
        (Flow::Print, ObsFlow::Print) => true,
        (Flow::Int(a), ObsFlow::Int(b)) => a == b,
        (Flow::Jump(l), ObsFlow::Jmp(i)) | (Flow::Call(l), ObsFlow::Jmp(i)) => label_idx(l) == Some(*i),
        (Flow::Ret, ObsFlow::Jmp(_)) => true,
        _ => false,
    }
}

/// hostile register file
pub fn hostile_regs(rng: &mut crate::util::Rng) -> Regs {
    let mut r: Regs = [0; 14];
    for i in 0..14 {
        r[i] = rng.hostile16();
    }
    // segments: bias to values where seg*16+off straddles 2^20
    for &s in &[CS, DS, SS, ES] {
        r[s] = match rng.below(6) {
            0 => 0xFFFF,
            1 => 0xF000 + (rng.u16() & 0xFFF),
            2 => 0,
            3 => 0xFFF0 + (rng.u16() & 0xF),
            _ => rng.u16(),
        };
    }
    r[FLAG] = rng.u16();
    r
}
