//! C09 — executing any instruction in any machine state is total and stays inside 1 MiB.
use crate::ast::*;
use crate::c01::{bench_with_labels, BLABELS, WLABELS};
use crate::c05::{mov_form, stack_form, xchg_form, MOV_FORMS, STACK_FORMS, XCHG_FORMS};
use crate::cli::*;
use crate::gen::*;
use crate::insplane::check_ins;
use crate::machine::*;
use crate::ref8086::*;
use crate::report::{FailAgg, Failure, Local, Report};
use crate::util::*;

pub fn rand_ins(rng: &mut Rng, class: usize) -> Ins {
    let bl: Vec<&str> = BLABELS.iter().map(|x| x.0).collect();
    let wl: Vec<&str> = WLABELS.iter().map(|x| x.0).collect();
    match class {
        0 => {
            let (d, s) = alu2_form(rng.below(ALU2_FORMS), rng, &bl, &wl);
            Ins::Alu2(*rng.pick(&ALL_ARITH2), d, s)
        }
        1 => {
            let (d, s) = alu2_form(rng.below(ALU2_FORMS), rng, &bl, &wl);
            Ins::Alu2(*rng.pick(&ALL_LOGIC2), d, s)
        }
        2 => Ins::Un(*rng.pick(&ALL_UN), un_form(rng.below(UN_FORMS), rng, &bl, &wl)),
        3 => {
            let cnt = if rng.chance(1, 2) { Cnt::CL } else { Cnt::Imm(rng.u8()) };
            Ins::Sh(*rng.pick(&ALL_SH), un_form(rng.below(UN_FORMS), rng, &bl, &wl), cnt)
        }
        4 => mov_form(rng.below(MOV_FORMS), rng, &bl, &wl),
        5 => xchg_form(rng.below(XCHG_FORMS), rng, &bl, &wl),
        6 => stack_form(rng.below(STACK_FORMS), rng, &wl),
        7 => {
            let l = if rng.chance(1, 3) { Loc::Label(W::W, rng.pick(&wl).to_string()) } else { Loc::Mem(W::W, rand_mem(rng)) };
            Ins::Lea(rand_r16(rng), l)
        }
        8 => {
            let op = *rng.pick(&ALL_STR);
            let rep = if op.compares() { *rng.pick(&[Rep::None, Rep::Repe, Rep::Repne]) } else { *rng.pick(&[Rep::None, Rep::Rep]) };
            Ins::Str(rep, op, if rng.chance(1, 2) { W::B } else { W::W })
        }
        9 => Ins::J(*rng.pick(&ALL_JCC), "tgt".to_string()),
        10 => match rng.below(3) {
            0 => Ins::Call("fnp".to_string()),
            1 => Ins::Ret,
            _ => Ins::Int(*rng.pick(&[3u8, 0x10, 0x21])),
        },
        11 => Ins::Simple(*rng.pick(&SIMPLE)),
        _ => Ins::Print(match rng.below(5) {
            0 => PrintCmd::Flags,
            1 => PrintCmd::Reg,
            2 => PrintCmd::MemRange(rng.below(1 << 20) as u32, rng.below(1 << 20) as u32),
            3 => PrintCmd::MemLen(rng.below(1 << 20) as u32, rng.below(64) as u32),
            _ => PrintCmd::MemDs(rng.below(1 << 20) as u32),
        }),
    }
}
pub const CLASSES: usize = 13;

fn mnemonic(ins: &Ins) -> String {
    ins.class().split(' ').next().unwrap_or("?").to_string()
}

fn sweep(rep: &Report, per_class: usize, core: bool, seed: u64) {
    par_for(CLASSES * 8, 1, |j| {
        let class = j % CLASSES;
        let mut rng = Rng::new(seed).fork(0xC09_0000 + j as u64);
        let mut b = bench_with_labels(0x90 + (j % 3) as u32);
        let mut agg = FailAgg::new();
        let mut loc = Local::default();
        for it in 0..per_class / 8 {
            let ins = rand_ins(&mut rng, class);
            let mut pre = hostile_regs(&mut rng);
            // adversarial specifics
            match &ins {
                Ins::Str(r, ..) if *r != Rep::None => {
                    // keep most REP runs short, a few long
                    pre[CX] = if it % 97 == 0 { *rng.pick(&[0xFFFFu16, 0x8000, 1000]) } else { rng.below(20) as u16 };
                }
                Ins::Un(Un::Div | Un::Idiv, _) => {
                    if it % 2 == 0 {
                        pre[DX] = *rng.pick(&[0u16, 0xFFFF, 0x8000, 0x7FFF]);
                        pre[AX] = *rng.pick(&[0u16, 0xFFFF, 0x8000, 1]);
                    }
                }
                Ins::Ret => {
                    if it % 2 == 0 {
                        b.ictx.call_stack.clear();
                    } else {
                        b.ictx.call_stack.push(3);
                    }
                }
                _ => {}
            }
            let line = ins.ir();
            let mn = mnemonic(&ins);
            let out = check_ins(&mut b, &ins, &line, &pre, &mut agg, core, "C09 totality", &|c| {
                if c == "panic" {
                    Some(format!("total:{}:panic:{}", mn, panic_kind(&last_panic()).replace(' ', "_")))
                } else {
                    None
                }
            });
            loc.evals += 1;
            let k = out.obs.kind();
            loc.distinct.insert(fnv64(format!("{}|{}", ins.class(), k).as_bytes()));
            *loc.counters.entry(match k {
                "NEXT" => "outcome NEXT",
                "JMP" => "outcome JMP",
                "REPEAT" => "outcome REPEAT(bounded)",
                "PRINT" => "outcome PRINT",
                "INT" => "outcome INT",
                "HALT" => "outcome HALT",
                "ERR" => "outcome reported error",
                _ => "outcome PANIC",
            })
            .or_insert(0) += 1;
            if j == 5 && it == 0 {
                rep.sample(format!("ir `{}` pre={} -> {:?}", line, regs_json(&pre), out.obs));
            }
        }
        agg.flush(rep);
        loc.flush(rep);
    });
}

/// every instruction class with its memory operand aimed at the last bytes of the 1 MiB space (a word operand
/// at 0xFFFFF has its high byte at physical 0) and at the wrap point: no form may index past the end
fn edge_sweep(rep: &Report, per_class: usize, core: bool, seed: u64) {
    par_for(CLASSES, 1, |class| {
        let mut rng = Rng::new(seed).fork(0xC09E_0000 + class as u64);
        let mut b = bench_with_labels(0x9E);
        // labels whose offsets allow every target nibble
        for (n, o) in EDGE_LABELS {
            b.add_data_label(n, o);
        }
        let mut agg = FailAgg::new();
        let mut loc = Local::default();
        let mut aimed = 0u64;
        for it in 0..per_class {
            let mut ins = rand_ins(&mut rng, class);
            // use the extra labels half of the time
            rename_label(&mut ins, &mut rng);
            let mut pre = hostile_regs(&mut rng);
            if let Ins::Str(r, ..) = &ins {
                if *r != Rep::None {
                    pre[CX] = rng.below(6) as u16;
                }
            }
            let target = [0xFFFFFu32, 0xFFFFE, 0xFFFFF, 0x00000, 0xFFFFD][it % 5];
            let labels = b.labels.clone();
            if !aim_operand(&ins, &mut pre, &labels, target) {
                continue;
            }
            aimed += 1;
            let line = ins.ir();
            let mn = mnemonic(&ins);
            let out = check_ins(&mut b, &ins, &line, &pre, &mut agg, core, "C09 totality at the end of memory", &|c| {
                if c == "panic" {
                    Some(format!("total:{}:panic-at-memory-edge:{}", mn, panic_kind(&last_panic()).replace(' ', "_")))
                } else {
                    None
                }
            });
            loc.evals += 1;
            loc.distinct.insert(fnv64(format!("edge|{}|{:05x}|{}", ins.class(), target, out.obs.kind()).as_bytes()));
        }
        loc.counters.insert("instructions executed with an operand aimed at the end of memory", aimed);
        agg.flush(rep);
        loc.flush(rep);
    });
}

/// console-interrupt paths through the real binary with hostile registers and stdin
fn cli_interrupts(rep: &Report, n: usize, seed: u64) {
    par_for(n, 1, |i| {
        let core = i < 360;
        let mut rng = if core { Rng::new(0xC09C).fork(i as u64) } else { Rng::new(seed).fork(0xC09C_0000 + i as u64) };
        const SERVICES: [(u8, u8); 5] = [(0x21, 0x0A), (0x21, 1), (0x21, 2), (0x10, 0x0A), (0x10, 0x13)];
        const OFFS: [u16; 12] = [0x000E, 0x000F, 0xFFFF, 0xFFFE, 0, 0x0010, 0x00FF, 2, 8, 12, 13, 0x00F8];
        // the core slice enumerates service x buffer offset x kind of standard input completely (end of input, empty
        // line, short, long, no newline / multi-byte, very long): 5 x 12 x 6 runs
        let enumerated = i < SERVICES.len() * OFFS.len() * 6;
        let (int_no, ah) = if enumerated { SERVICES[i % 5] } else { *rng.pick(&SERVICES) };
        let seg: u16 = if enumerated { [0xFFFFu16, 0xF000, 0xFFFF, 0][(i / 360) % 4 + (i % 2)] } else { *rng.pick(&[0xFFFFu16, 0xFFFF, 0xF000, 0, 0xFFF0]) };
        let off: u16 = if enumerated { OFFS[(i / 5) % 12] } else { *rng.pick(&OFFS) };
        let cxv: u16 = *rng.pick(&[0u16, 1, 5, 40, 300, 1024, 1025, 1500, 5000, 65535]);
        let cap: u8 = *rng.pick(&[0u8, 1, 2, 3, 4, 5, 6, 7, 20, 255, 255]);
        let stdin: Vec<u8> = match if enumerated { (i / 60) % 6 } else { rng.below(6) } {
            0 => vec![],
            1 => b"\n".to_vec(),
            2 => b"ab\n".to_vec(),
            3 => b"abcdefghij\n".to_vec(),
            4 => {
                if rng.chance(1, 2) {
                    b"no newline".to_vec()
                } else {
                    // multi-byte characters that a small capacity cuts in the middle
                    "aa\u{e9}z\u{20ac}\u{1F600}bc\n".as_bytes().to_vec()
                }
            }
            _ => vec![b'x'; 700],
        };
        // recognisable bytes on both sides of the end of memory (the loader wraps at 1 MiB): 0xFFFF0.. and 0..
        let top_text = "ABCDEFGHIJKLMNOPqrstuvwxyz0123456789abcdefghijklmnop";
        let src = format!(
            "set 65535\ndb \"{top}\"\nstart:\nmov ax, {seg}\nmov ds, ax\nmov es, ax\nmov bx, {off}\nmov byte [bx], {cap}\nmov dx, {off}\nmov bp, {off}\nmov cx, {cx}\nmov ah, {ah}\nmov al, 65\nint {int}\nmov si, 1\n",
            top = top_text,
            seg = seg,
            off = off,
            cap = cap,
            cx = cxv,
            ah = ah,
            int = int_no
        );
        let out = run_cli(src.as_bytes(), &CliOpts { stdin: &stdin, env: vec![("VERIF_NOMEM", "1")], ..Default::default() });
        rep.eval(1);
        rep.distinct_str(&format!("int{}|ah{}|{:04x}:{:04x}|cap{}|in{}", int_no, ah, seg, off, cap, stdin.len()));
        if out.timed_out {
            rep.inconclusive("cli watchdog");
            return;
        }
        if !out.clean_exit() {
            let pk = panic_kind(&String::from_utf8_lossy(&out.stderr).lines().find(|l| l.contains("panicked")).map(|_| {
                String::from_utf8_lossy(&out.stderr).lines().skip_while(|l| !l.contains("panicked")).nth(1).unwrap_or("").trim().to_string()
            }).unwrap_or_default());
            rep.fail(Failure {
                sig: format!("total:int{:02x}-ah{:02x}:abort", int_no, ah),
                what: format!("C09 CLI: INT {:02x}h AH={:02x}h aborts the emulator for some register/stdin contents ({})", int_no, ah, pk),
                witness: format!("{{\"kind\": \"cli\", \"source\": {}, \"stdin\": {}, \"status\": {}}}", json_str(&src), json_bytes(&stdin), json_str(&out.status_str())),
                core_item: if core { Some(format!("{}|{:?}|{:?}", i, out.code, out.signal)) } else { None },
            });
        }
        // INT 10h/13h reads its string modulo 2^20: what it writes is the wrapped byte sequence, not a cut-off one
        if out.clean_exit() && int_no == 0x10 && ah == 0x13 {
            let p = parse_records(&out.stdout);
            if let Some(k) = p.recs.iter().position(|r| r.line.starts_with("int ")) {
                if k + 1 < p.recs.len() {
                    let r = &p.recs[k];
                    let mut model = vec![0u8; 1 << 20];
                    for (j, b) in top_text.bytes().enumerate() {
                        model[(0xFFFF0 + j) % (1 << 20)] = b;
                    }
                    // the program's own store of the capacity byte
                    model[(seg as usize * 16 + off as usize) % (1 << 20)] = cap;
                    let mut exp: Vec<u8> = vec![b' '; (r.regs[DX] & 0xFF) as usize];
                    let s0 = r.regs[ES] as usize * 16 + r.regs[BP] as usize;
                    for j in 0..r.regs[CX] as usize {
                        exp.push(model[(s0 + j) % (1 << 20)]);
                    }
                    rep.count("INT 10h/13h outputs compared with the wrapped byte sequence", 1);
                    // (bytes >= 0x80 may appear raw or as the UTF-8 of that code point)
                    if !crate::c18::bytes_match(&exp, &p.segs[k + 1]) {
                        let pos = (0..exp.len().min(p.segs[k + 1].len())).find(|x| exp[*x] != p.segs[k + 1][*x]).unwrap_or(exp.len().min(p.segs[k + 1].len()));
                        rep.fail(Failure {
                            sig: "total:int10-ah13:string-not-wrapped".into(),
                            what: "C09 CLI: INT 10h AH=13h does not write the bytes at (ES*16+BP+i) mod 2^20".into(),
                            witness: format!("{{\"kind\": \"cli\", \"source\": {}, \"expected_bytes\": {}, \"observed_bytes\": {}, \"first_difference\": {}}}", json_str(&src), exp.len(), p.segs[k + 1].len(), pos),
                            core_item: if core { Some(format!("{}|wrap", i)) } else { None },
                        });
                    }
                }
            }
        }
        if i == 1 {
            rep.sample(format!("cli: int {:02x}h ah={:02x}h with DS:DX={:04x}:{:04x} cap={} stdin {} bytes -> {}", int_no, ah, seg, off, cap, stdin.len(), out.status_str()));
        }
    });
    rep.count("CLI interrupt-path runs", n as u64);
}

/// control transfers through the real driver, taken from three flag words, towards every kind of program end: the
/// target label is the last thing in the file (after an ordinary instruction / after a written hlt), or is followed
/// by a hlt or a print; free running, single-stepped with -i and single-stepped by the trap flag. Only aborts are judged.
fn cli_transfers(rep: &Report) {
    let mut jobs = Vec::new();
    for j in ALL_JCC {
        for flags in [0u16, 0x08D5, 0x00C0] {
            for tail in 0..4usize {
                for mode in 0..3usize {
                    jobs.push((j, flags, tail, mode));
                }
            }
        }
    }
    let n = jobs.len();
    par_for(n, 4, |i| {
        let (j, flags, tail, mode) = jobs[i];
        let fl = if mode == 2 { flags | 0x0100 } else { flags };
        let tail_text = ["mov bx, 2\nend:\n", "mov bx, 2\nhlt\nend:\n", "mov bx, 2\nend:\nhlt\n", "mov bx, 2\nend:\nprint reg\n"][tail];
        let src = format!("start:\nmov cx, 2\nmov ax, {}\npush ax\npopf\n{} end\n{}", fl, j.name(), tail_text);
        let nexts = b"n\n".repeat(40);
        let out = run_cli(src.as_bytes(), &CliOpts { interpreted: mode == 1, stdin: if mode == 0 { b"" } else { &nexts }, ..Default::default() });
        rep.eval(1);
        rep.distinct_str(&format!("xfer|{}|{}|{}|{}", j.name(), flags, tail, mode));
        if out.timed_out {
            rep.inconclusive("cli watchdog");
            return;
        }
        if !out.clean_exit() {
            rep.fail(Failure {
                sig: format!("total:transfer-to-program-end:{}:abort", ["free-running", "interpreted", "trap-flag"][mode]),
                what: format!("C09 CLI: a control transfer towards the end of the program aborts the emulator ({})", out.status_str()),
                witness: format!("{{\"kind\": \"cli\", \"source\": {}, \"interpreted\": {}, \"status\": {}}}", json_str(&src), mode == 1, json_str(&out.status_str())),
                core_item: Some(format!("{}|{:?}|{:?}", i, out.code, out.signal)),
            });
        }
    });
    rep.count("CLI runs of control transfers towards the program end", n as u64);
}

pub fn run(rep: &Report) {
    cli_transfers(rep);
    sweep(rep, 13 * 8 * 60, true, 0xC09);
    let t = rep.thorough();
    sweep(rep, if t { 13 * 8 * 20_000 } else { 13 * 8 * 400 }, false, rep.seed ^ 0x90);
    edge_sweep(rep, 600, true, 0xC09E);
    edge_sweep(rep, if t { 200_000 } else { 3000 }, false, rep.seed ^ 0x9E);
    cli_interrupts(rep, if t { 3000 } else { 360 + 60 }, rep.seed);
    rep.floor("instruction executions", rep.evals(), 20_000);
}

pub const RULE: &str = "random instructions from all 13 classes the assembler can emit (arithmetic, logic, unary incl. mul/div, shifts/rotates with counts 0..255 immediate and CL, mov, xchg, stack, lea, strings with every prefix, jumps/loops, call/ret/int, all 21 single-opcode instructions, print) in every operand form, executed from adversarial states (registers from {0,1,0x7FFF,0x8000,0xFFFE,0xFFFF,random}, segments making seg*16+off straddle 2^20, divisors 0/1/-1, empty and non-empty call stack) in a build with integer-overflow checks; every class again with its memory / label / string operand aimed at physical 0xFFFFD..0xFFFFF and 0 (operands straddling the end of the 1 MiB space); INT 10h/21h services through the real binary with buffers at the top of memory and short/long/closed stdin. Only aborts are judged here (values belong to C01-C07, C18). Distinct = (instruction class with operand shapes, outcome kind) resp. CLI scenario. Through the binary: every jump/loop spelling taken towards four kinds of program end (label last, behind a written hlt, before hlt / print), free, -i and trap flag; INT 10h/13h and the other services with CX up to 65535. The core slice enumerates 5 services x 12 buffer offsets x 6 kinds of standard input completely; what INT 10h/13h writes is compared with the byte sequence wrapped at 2^20.";
