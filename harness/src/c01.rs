//! C01 — ADD/ADC/SUB/SBB/CMP/INC/DEC/NEG: result and six status flags, nothing else changes.
use crate::asm;
use crate::ast::*;
use crate::fnplane::*;
use crate::gen::*;
use crate::insplane::check_ins;
use crate::machine::*;
use crate::ref8086::*;
use crate::report::{FailAgg, Local, Report};
use crate::util::*;
use emulator_8086_lib::instructions::arithmetic as ar;
use emulator_8086_lib::VM;
use std::panic::{catch_unwind, AssertUnwindSafe};

#[derive(Clone, Copy, PartialEq, Eq, Debug)]
enum K {
    Add,
    Adc,
    Sub,
    Sbb,
    Cmp,
}
type F8 = fn(&mut VM, u8, u8) -> u8;
type F16 = fn(&mut VM, u16, u16) -> u16;
type U8 = fn(&mut VM, &mut u8) -> Result<(), emulator_8086_lib::util::interpreter_util::DivByZero>;
type U16 = fn(&mut VM, &mut u16) -> Result<(), emulator_8086_lib::util::interpreter_util::DivByZero>;

const BIN8: [(&str, F8, K); 5] = [
    ("byte_add", ar::byte_add, K::Add),
    ("byte_adc", ar::byte_adc, K::Adc),
    ("byte_sub", ar::byte_sub, K::Sub),
    ("byte_sbb", ar::byte_sbb, K::Sbb),
    ("byte_cmp", ar::byte_cmp, K::Cmp),
];
const BIN16: [(&str, F16, K); 5] = [
    ("word_add", ar::word_add, K::Add),
    ("word_adc", ar::word_adc, K::Adc),
    ("word_sub", ar::word_sub, K::Sub),
    ("word_sbb", ar::word_sbb, K::Sbb),
    ("word_cmp", ar::word_cmp, K::Cmp),
];
#[derive(Clone, Copy, PartialEq, Eq, Debug)]
enum UK {
    Inc,
    Dec,
    Neg,
}
const UN8: [(&str, U8, UK); 3] = [("byte_inc", ar::byte_inc, UK::Inc), ("byte_dec", ar::byte_dec, UK::Dec), ("byte_neg", ar::byte_neg, UK::Neg)];
const UN16: [(&str, U16, UK); 3] = [("word_inc", ar::word_inc, UK::Inc), ("word_dec", ar::word_dec, UK::Dec), ("word_neg", ar::word_neg, UK::Neg)];

fn expect_bin(k: K, w: u32, a: u32, b: u32, cin: u32) -> (u32, u16) {
    match k {
        K::Add => add(w, a, b, 0),
        K::Adc => add(w, a, b, cin),
        K::Sub => sub(w, a, b, 0),
        K::Sbb => sub(w, a, b, cin),
        K::Cmp => {
            let (_, f) = sub(w, a, b, 0);
            (a, f) // the helper returns the unchanged destination
        }
    }
}
fn expect_un(k: UK, w: u32, a: u32) -> (u32, u16, u16) {
    // (result, flags, which flags are written)
    match k {
        UK::Inc => {
            let (r, f) = add(w, a, 1, 0);
            (r, f, STATUS6 & !CF)
        }
        UK::Dec => {
            let (r, f) = sub(w, a, 1, 0);
            (r, f, STATUS6 & !CF)
        }
        UK::Neg => {
            let (r, f) = sub(w, 0, a, 0);
            (r, f, STATUS6)
        }
    }
}

const FLAG_BASES: [u16; 3] = [0x0000, 0xFFFE, 0xF002];

fn one_bin(vm: &mut VM, agg: &mut FailAgg, core: bool, name: &'static str, w: u32, k: K, a: u32, b: u32, fin: u16, call: &dyn Fn(&mut VM) -> u32) {
    let pre = read_regs(vm);
    let r = catch_unwind(AssertUnwindSafe(|| call(vm)));
    let cin = (fin & CF) as u32;
    let (eres, ef) = expect_bin(k, w, a, b, cin);
    let (mask, ores, fout) = match r {
        Err(_) => (C_PANIC, 0, vm.arch.flag),
        Ok(res) => {
            let fout = vm.arch.flag;
            let mut m = flag_comps(fin, fout, ef, STATUS6);
            if res != eres {
                m |= C_RESULT;
            }
            if other_regs_changed(vm, &pre, &[]) {
                m |= C_OTHERSTATE;
            }
            (m, res, fout)
        }
    };
    if mask != 0 {
        report(
            agg,
            "alu",
            name,
            mask,
            core,
            &[a as u64, b as u64, fin as u64],
            &[ores as u64, fout as u64],
            "C01 function plane",
            &|| {
                format!(
                    "{{\"kind\": \"fn\", \"fn\": \"{}\", \"a\": {}, \"b\": {}, \"flags_in\": \"{:04x}\", \"expected\": {{\"result\": {}, \"status_flags\": \"{:04x}\"}}, \"observed\": {{\"result\": {}, \"flags\": \"{:04x}\", \"panic\": {}}}}}",
                    name, a, b, fin, eres, ef, ores, fout, json_str(&if mask & C_PANIC != 0 { last_panic() } else { String::new() })
                )
            },
        );
        // a panic may leave the vm in any state: reset registers
        let fresh = [0u16; 14];
        load_regs(vm, &fresh);
    }
}

fn one_un(vm: &mut VM, agg: &mut FailAgg, core: bool, name: &'static str, w: u32, k: UK, a: u32, fin: u16, call: &dyn Fn(&mut VM) -> u32) {
    let pre = read_regs(vm);
    let r = catch_unwind(AssertUnwindSafe(|| call(vm)));
    let (eres, ef, which) = expect_un(k, w, a);
    let (mask, ores, fout) = match r {
        Err(_) => (C_PANIC, 0, vm.arch.flag),
        Ok(res) => {
            let fout = vm.arch.flag;
            let exp = (fin & !which) | (ef & which);
            let mut m = flag_comps(fin, fout, exp, STATUS6);
            if res != eres {
                m |= C_RESULT;
            }
            if other_regs_changed(vm, &pre, &[]) {
                m |= C_OTHERSTATE;
            }
            (m, res, fout)
        }
    };
    if mask != 0 {
        report(
            agg,
            "alu",
            name,
            mask,
            core,
            &[a as u64, fin as u64],
            &[ores as u64, fout as u64],
            "C01 function plane",
            &|| {
                format!(
                    "{{\"kind\": \"fn\", \"fn\": \"{}\", \"a\": {}, \"flags_in\": \"{:04x}\", \"expected\": {{\"result\": {}, \"status_flags\": \"{:04x}\", \"flags_written\": \"{:04x}\"}}, \"observed\": {{\"result\": {}, \"flags\": \"{:04x}\"}}}}",
                    name, a, fin, eres, ef, which, ores, fout
                )
            },
        );
        let fresh = [0u16; 14];
        load_regs(vm, &fresh);
    }
}

fn class_key(name: &str, fin: u16, fout: u16) -> u64 {
    hash3(fnv64(name.as_bytes()), (fin & STATUS6) as u64, (fout & STATUS6) as u64)
}
fn hash3(a: u64, b: u64, c: u64) -> u64 {
    crate::report::hnum(&[a, b, c])
}

/// exhaustive byte sweeps + word lattice (deterministic core)
fn core_fn_plane(rep: &Report) {
    // byte binary: 5 ops × 2^16 pairs × cin × flag bases — parallel over (op, a)
    let jobs: Vec<(usize, u32)> = (0..5).flat_map(|o| (0..256u32).map(move |a| (o, a))).collect();
    par_for(jobs.len(), 8, |j| {
        let (o, a) = jobs[j];
        let (name, f, k) = BIN8[o];
        let mut vm = VM::new();
        let mut agg = FailAgg::new();
        let mut loc = Local::default();
        for b in 0..256u32 {
            for base in FLAG_BASES {
                for cin in 0..2u16 {
                    let fin = (base & !CF) | cin;
                    vm.arch.flag = fin;
                    one_bin(&mut vm, &mut agg, true, name, 8, k, a, b, fin, &|vm| f(vm, a as u8, b as u8) as u32);
                    loc.evals += 1;
                    loc.distinct.insert(class_key(name, fin, vm.arch.flag));
                }
            }
        }
        if !mem_all_zero(&vm) {
            agg.add(fnv64(b"alu-mem"), Some(1), || {
                (format!("alu:{}:memory", name), format!("C01 function plane `{}` wrote to memory", name), format!("{{\"kind\":\"fn\",\"fn\":\"{}\",\"a\":{}}}", name, a))
            });
        }
        agg.flush(rep);
        loc.flush(rep);
    });
    rep.count("fn-plane byte binary cases (exhaustive 5 ops x 2^16 x cin x 3 flag bases)", 5 * 65536 * 6);
    // byte unary
    for (name, f, k) in UN8 {
        let mut vm = VM::new();
        let mut agg = FailAgg::new();
        let mut loc = Local::default();
        for a in 0..256u32 {
            for fin in 0..(1u32 << 12) {
                // all combinations of the low 12 flag bits (covers the six status flags exhaustively)
                let fin = fin as u16 | 0xF000;
                vm.arch.flag = fin;
                one_un(&mut vm, &mut agg, true, name, 8, k, a, fin, &|vm| {
                    let mut v = a as u8;
                    let _ = f(vm, &mut v);
                    v as u32
                });
                loc.evals += 1;
                loc.distinct.insert(class_key(name, fin, vm.arch.flag));
            }
        }
        agg.flush(rep);
        loc.flush(rep);
    }
    rep.count("fn-plane byte unary cases (exhaustive 3 ops x 256 x 4096 flag words)", 3 * 256 * 4096);
    // word binary on the lattice
    let lat = lattice16();
    let n = lat.len();
    par_for(5 * n, 4, |j| {
        let (o, ai) = (j / n, j % n);
        let (name, f, k) = BIN16[o];
        let a = lat[ai] as u32;
        let mut vm = VM::new();
        let mut agg = FailAgg::new();
        let mut loc = Local::default();
        for &b in &lat {
            for base in FLAG_BASES {
                for cin in 0..2u16 {
                    let fin = (base & !CF) | cin;
                    vm.arch.flag = fin;
                    one_bin(&mut vm, &mut agg, true, name, 16, k, a, b as u32, fin, &|vm| f(vm, a as u16, b) as u32);
                    loc.evals += 1;
                    loc.distinct.insert(class_key(name, fin, vm.arch.flag));
                }
            }
        }
        agg.flush(rep);
        loc.flush(rep);
    });
    rep.count("fn-plane word binary lattice cases", (5 * n * n * 6) as u64);
    // word unary: all 65536 values × cin × flag bases
    par_for(3 * 16, 1, |j| {
        let (o, part) = (j / 16, j % 16);
        let (name, f, k) = UN16[o];
        let mut vm = VM::new();
        let mut agg = FailAgg::new();
        let mut loc = Local::default();
        for a in (part * 4096)..((part + 1) * 4096) {
            let a = a as u32;
            for base in FLAG_BASES {
                for extra in [0u16, CF, SF, SF | CF, ZF | AF | OF] {
                    let fin = base ^ extra;
                    vm.arch.flag = fin;
                    one_un(&mut vm, &mut agg, true, name, 16, k, a, fin, &|vm| {
                        let mut v = a as u16;
                        let _ = f(vm, &mut v);
                        v as u32
                    });
                    loc.evals += 1;
                    loc.distinct.insert(class_key(name, fin, vm.arch.flag));
                }
            }
        }
        agg.flush(rep);
        loc.flush(rep);
    });
    rep.count("fn-plane word unary cases (exhaustive 3 ops x 2^16 x 15 flag words)", 3 * 65536 * 15);
}

fn random_fn_plane(rep: &Report, n: usize) {
    let seed = rep.seed;
    let chunks = 64;
    par_for(chunks, 1, |c| {
        let mut rng = Rng::new(seed).fork(0xC01_0000 + c as u64);
        let mut vm = VM::new();
        let mut agg = FailAgg::new();
        let mut loc = Local::default();
        for _ in 0..(n / chunks) {
            let o = rng.below(5);
            let (name, f, k) = BIN16[o];
            let a = rng.u16();
            let b = if rng.chance(1, 4) { a ^ (1 << rng.below(16)) } else { rng.u16() };
            let fin = rng.u16();
            vm.arch.flag = fin;
            one_bin(&mut vm, &mut agg, false, name, 16, k, a as u32, b as u32, fin, &|vm| f(vm, a, b) as u32);
            loc.evals += 1;
            loc.distinct.insert(class_key(name, fin, vm.arch.flag));
        }
        agg.flush(rep);
        loc.flush(rep);
    });
    rep.count("fn-plane random word pairs", n as u64);
}

/// thorough: all 2^32 word pairs × cin for the five binary ops
fn exhaustive_word(rep: &Report, budget_s: f64) {
    let t0 = std::time::Instant::now();
    let done = std::sync::atomic::AtomicU64::new(0);
    let stopped = std::sync::atomic::AtomicBool::new(false);
    par_for(5 * 65536, 64, |j| {
        if stopped.load(std::sync::atomic::Ordering::Relaxed) {
            return;
        }
        if j % 1024 == 0 && t0.elapsed().as_secs_f64() > budget_s {
            stopped.store(true, std::sync::atomic::Ordering::Relaxed);
            return;
        }
        let (o, a) = (j / 65536, (j % 65536) as u32);
        let (name, f, k) = BIN16[o];
        let mut vm = VM::new();
        let mut agg = FailAgg::new();
        for b in 0..65536u32 {
            for cin in 0..2u16 {
                let fin = 0xF002 | cin;
                vm.arch.flag = fin;
                // inlined fast path: compare first, report through the slow path only on mismatch
                let res = f(&mut vm, a as u16, b as u16) as u32;
                let (eres, ef) = expect_bin(k, 16, a, b, cin as u32);
                if res != eres || vm.arch.flag != (fin & !STATUS6) | ef {
                    vm.arch.flag = fin;
                    one_bin(&mut vm, &mut agg, false, name, 16, k, a, b, fin, &|vm| f(vm, a as u16, b as u16) as u32);
                }
            }
        }
        agg.flush(rep);
        done.fetch_add(131072, std::sync::atomic::Ordering::Relaxed);
    });
    let d = done.load(std::sync::atomic::Ordering::Relaxed);
    rep.eval(d);
    rep.count("fn-plane exhaustive word pairs x cin (thorough)", d);
    if stopped.load(std::sync::atomic::Ordering::Relaxed) {
        rep.note(format!("exhaustive word sweep stopped by its time budget after {} of {} cases", d, 5u64 * 65536 * 131072));
    } else {
        rep.note("exhaustive word sweep completed: 5 ops x 2^32 pairs x cin".to_string());
    }
}

pub const BLABELS: [(&str, u16); 3] = [("vb0", 0), ("vb1", 0x1234), ("vbe", 0xFFFF)];
pub const WLABELS: [(&str, u16); 3] = [("vw0", 0x0010), ("vw1", 0x4321), ("vwe", 0xFFFE)];

pub fn bench_with_labels(salt: u32) -> Bench {
    let mut b = Bench::new(salt);
    for (n, o) in BLABELS {
        b.add_data_label(n, o);
    }
    for (n, o) in WLABELS {
        b.add_data_label(n, o);
    }
    b.add_code_label("tgt", 3);
    b.add_proc("fnp", 5);
    b
}

fn arith_ins(rng: &mut Rng, form: usize, opk: usize) -> Ins {
    let bl: Vec<&str> = BLABELS.iter().map(|x| x.0).collect();
    let wl: Vec<&str> = WLABELS.iter().map(|x| x.0).collect();
    if opk < 5 {
        let (d, s) = alu2_form(form % ALU2_FORMS, rng, &bl, &wl);
        Ins::Alu2(ALL_ARITH2[opk], d, s)
    } else {
        let d = un_form(form % UN_FORMS, rng, &bl, &wl);
        Ins::Un([Un::Inc, Un::Dec, Un::Neg][opk - 5], d)
    }
}

/// instruction plane: every operand form × states, full memory diff
fn ins_plane(rep: &Report, states_per_form: usize, core: bool, seed: u64) {
    let jobs: Vec<(usize, usize)> = (0..8).flat_map(|o| (0..if o < 5 { ALU2_FORMS } else { UN_FORMS }).map(move |f| (o, f))).collect();
    par_for(jobs.len(), 1, |j| {
        let (o, form) = jobs[j];
        let mut rng = Rng::new(seed).fork(0xC01_1000 + j as u64);
        let mut b = bench_with_labels(0x51 + j as u32);
        let mut agg = FailAgg::new();
        let mut loc = Local::default();
        for _ in 0..states_per_form {
            let ins = arith_ins(&mut rng, form, o);
            let pre = hostile_regs(&mut rng);
            let line = ins.ir();
            let mn = match &ins {
                Ins::Alu2(op, ..) => op.name(),
                Ins::Un(op, ..) => op.name(),
                _ => "?",
            };
            let out = check_ins(&mut b, &ins, &line, &pre, &mut agg, core, "C01 instruction plane", &|c| Some(format!("ins:{}:{}", mn, c)));
            loc.evals += 1;
            loc.distinct.insert(fnv64(format!("{}|{}", ins.class(), out.alt).as_bytes()));
            if j == 0 && loc.evals == 1 {
                rep.sample(format!("ir `{}` pre={}", line, regs_json(&pre)));
            }
        }
        agg.flush(rep);
        loc.flush(rep);
    });
    rep.count(if core { "instruction-plane core cases" } else { "instruction-plane random cases" }, (jobs.len() * states_per_form) as u64);
}

/// source plane: the same forms written in assembler syntax through the real Preprocessor
fn source_plane(rep: &Report, per_form: usize, core: bool, seed: u64) {
    // data layout giving the labels: offsets must stay below 0xFFFF for the assembler's counter
    let data_src = "pad0: db [0,16]\nvw0: dw 4660\npadA: db [0,4642]\nvb1: db 7\npadB: db [0,12526]\nvw1: dw 9\n";
    // vb0 at 0: define first
    let data_src = format!("vb0: db 1\n{}", &data_src.replace("pad0: db [0,16]", "pad0: db [0,15]"));
    let bl = ["vb0", "vb1"];
    let wl = ["vw0", "vw1"];
    let jobs: Vec<(usize, usize)> = (0..8).flat_map(|o| (0..if o < 5 { ALU2_FORMS } else { UN_FORMS }).map(move |f| (o, f))).collect();
    par_for(jobs.len(), 1, |j| {
        let (o, form) = jobs[j];
        let mut rng = Rng::new(seed).fork(0xC01_2000 + j as u64);
        let mut agg = FailAgg::new();
        let mut loc = Local::default();
        let mut b = Bench::new(0x77 + j as u32);
        let mut labels_set = false;
        for it in 0..per_form {
            let ins = if o < 5 {
                let (d, s) = alu2_form(form, &mut rng, &bl, &wl);
                Ins::Alu2(ALL_ARITH2[o], d, s)
            } else {
                Ins::Un([Un::Inc, Un::Dec, Un::Neg][o - 5], un_form(form, &mut rng, &bl, &wl))
            };
            let mut sp = if it % 2 == 0 { Spell::plain() } else { Spell::random_syn(rng.fork(it as u64)) };
            let text = format!("{}start:\n{}\n", data_src, ins.src(&mut sp));
            let a = match asm::assemble(&text) {
                Ok(a) => a,
                Err(e) => {
                    // the assembler refusing a documented form is C10's subject; count it here
                    loc.counters.entry("source forms rejected by the assembler (filed under C10)").and_modify(|x| *x += 1).or_insert(1);
                    let _ = e;
                    continue;
                }
            };
            if !labels_set {
                for (k, v) in a.data_labels() {
                    b.add_data_label(&k, v);
                }
                b.add_code_label("start", 0);
                labels_set = true;
            }
            if a.code.len() != 1 {
                loc.counters.entry("source forms emitting != 1 line (filed under C11)").and_modify(|x| *x += 1).or_insert(1);
                continue;
            }
            let pre = hostile_regs(&mut rng);
            let mn = match &ins {
                Ins::Alu2(op, ..) => op.name(),
                Ins::Un(op, ..) => op.name(),
                _ => "?",
            };
            // an emitted line the interpreter rejects is C10's finding, not C01's
            let probe = b.step(7, &a.code[0], &pre);
            b.restore_mem();
            if matches!(probe.0, ObsFlow::Rejected(_)) {
                loc.counters.entry("emitted lines rejected by the interpreter (filed under C10)").and_modify(|x| *x += 1).or_insert(1);
                continue;
            }
            let out = check_ins(&mut b, &ins, &a.code[0], &pre, &mut agg, core, "C01 source plane", &|c| Some(format!("src:{}:{}", mn, c)));
            loc.evals += 1;
            loc.distinct.insert(fnv64(format!("src|{}|{}", ins.class(), out.alt).as_bytes()));
            if j == 3 && it == 1 {
                rep.sample(format!("source `{}` -> ir `{}`", ins.src(&mut Spell::plain()), a.code[0]));
            }
        }
        agg.flush(rep);
        loc.flush(rep);
    });
}

pub fn run(rep: &Report) {
    core_fn_plane(rep);
    ins_plane(rep, 24, true, 0xC01);
    source_plane(rep, 8, true, 0xC01);
    // seeded random slice
    let thorough = rep.thorough();
    random_fn_plane(rep, if thorough { 20_000_000 } else { 400_000 });
    ins_plane(rep, if thorough { 4000 } else { 60 }, false, rep.seed ^ 0xABCD);
    source_plane(rep, if thorough { 400 } else { 10 }, false, rep.seed ^ 0x1234);
    crate::insplane::mixed_history(rep, if thorough { 40_000 } else { 500 }, 60, rep.seed ^ 0x141, "C01 among all instruction families", "ins", &|i| match i {
        Ins::Alu2(op, ..) => ALL_ARITH2.contains(op),
        Ins::Un(op, _) => matches!(op, Un::Inc | Un::Dec | Un::Neg),
        _ => false,
    });
    crate::insplane::history_plane(rep, if thorough { 40_000 } else { 600 }, 120, rep.seed ^ 0x41, false, "C01 lock-step history", "ins", &|rng| {
        // the whole ADD..NEG family in every operand form, between neighbours that share the grammar's unary
        // rules (MUL/DIV in register and memory forms), flag setters and register loads
        let bl: Vec<&str> = BLABELS.iter().map(|x| x.0).collect();
        let wl: Vec<&str> = WLABELS.iter().map(|x| x.0).collect();
        match rng.below(10) {
            0 | 1 | 2 | 3 | 4 | 5 => {
                let opk = rng.below(8);
                let form = rng.below(if opk < 5 { ALU2_FORMS } else { UN_FORMS });
                arith_ins(rng, form, opk)
            }
            6 | 7 => {
                let op = *rng.pick(&[Un::Mul, Un::Imul, Un::Div, Un::Idiv]);
                let mut loc = crate::gen::un_form(rng.below(UN_FORMS), rng, &bl, &wl);
                if op == Un::Imul && loc.width() == W::B {
                    loc = Loc::R16(crate::gen::rand_r16(rng));
                }
                Ins::Un(op, loc)
            }
            8 => Ins::Simple(*rng.pick(&["stc", "clc", "cmc"])),
            _ => Ins::Mov(Loc::R16(crate::gen::rand_r16(rng)), Src::Imm(rng.hostile16())),
        }
    });
    crate::insplane::edge_plane(rep, if thorough { 400_000 } else { 6000 }, rep.seed ^ 0xE1, false, "C01 at the end of memory", "ins", &|rng| {
        let opk = rng.below(8);
        let form = rng.below(if opk < 5 { ALU2_FORMS } else { UN_FORMS });
        arith_ins(rng, form, opk)
    });
    if thorough {
        exhaustive_word(rep, 900.0);
    }
    rep.sample("fn byte_add(a=0x7f,b=0x01,flags_in=0x0000) -> result 0x80 flags OF|SF|AF".to_string());
    rep.sample("fn word_sbb(a=0x0000,b=0xffff,flags_in=CF) compared on result + CF PF AF ZF SF OF + untouched bits".to_string());
    rep.floor("function-plane evaluations", rep.evals(), 2_000_000);
}

pub const RULE: &str = "function plane: every pub byte_/word_ add/adc/sub/sbb/cmp/inc/dec/neg helper called directly (bytes exhaustively over all operand pairs x carry-in x flag bases, words on a 16-bit boundary lattice squared, unary words over all 65536 values, thorough: all 2^32 word pairs x cin); instruction plane: every one of the 16+6 operand forms through Interpreter::parse from hostile register/segment states with whole-memory diff; source plane: the same forms through the real Preprocessor. A case is distinct/non-trivial by (function or operand-form class, status flags in, status flags out) resp. (instruction class, accept-set member). History planes: lock-step histories of the whole ADD..NEG family next to MUL/DIV (register and memory forms), flag setters and loads, and mixed-family histories drawn from all 13 instruction classes (divergences reported at this family's instructions; status flags of INC/DEC/NEG are left to the function plane with its recorded findings); every operand form also with the operand aimed at the last bytes of memory.";
