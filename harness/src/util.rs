//! Small self-contained utilities: PRNG, hashing, JSON escaping, parallel-for.
use std::sync::atomic::{AtomicUsize, Ordering};

#[derive(Clone)]
pub struct Rng(pub u64);

impl Rng {
    pub fn new(seed: u64) -> Rng {
        Rng(seed ^ 0x9E3779B97F4A7C15)
    }
    /// derive an independent stream
    pub fn fork(&self, tag: u64) -> Rng {
        let mut r = Rng(self.0 ^ tag.wrapping_mul(0xD6E8FEB86659FD93));
        r.next();
        r
    }
    pub fn next(&mut self) -> u64 {
        self.0 = self.0.wrapping_add(0x9E3779B97F4A7C15);
        let mut z = self.0;
        z = (z ^ (z >> 30)).wrapping_mul(0xBF58476D1CE4E5B9);
        z = (z ^ (z >> 27)).wrapping_mul(0x94D049BB133111EB);
        z ^ (z >> 31)
    }
    pub fn u16(&mut self) -> u16 {
        self.next() as u16
    }
    pub fn u8(&mut self) -> u8 {
        self.next() as u8
    }
    pub fn below(&mut self, n: usize) -> usize {
        if n == 0 {
            0
        } else {
            (self.next() % n as u64) as usize
        }
    }
    pub fn range(&mut self, lo: i64, hi: i64) -> i64 {
        // inclusive
        lo + (self.next() % ((hi - lo + 1) as u64)) as i64
    }
    pub fn chance(&mut self, num: u32, den: u32) -> bool {
        (self.next() % den as u64) < num as u64
    }
    pub fn pick<'a, T>(&mut self, v: &'a [T]) -> &'a T {
        &v[self.below(v.len())]
    }
    /// a 16-bit value biased toward boundaries
    pub fn hostile16(&mut self) -> u16 {
        const B: [u16; 14] = [
            0, 1, 2, 0x7F, 0x80, 0xFF, 0x100, 0x7FFF, 0x8000, 0x8001, 0xFFFE, 0xFFFF, 0xF, 0x10,
        ];
        if self.chance(1, 2) {
            B[self.below(B.len())]
        } else {
            self.u16()
        }
    }
}

pub fn fnv64(s: &[u8]) -> u64 {
    let mut h: u64 = 0xcbf29ce484222325;
    for b in s {
        h ^= *b as u64;
        h = h.wrapping_mul(0x100000001b3);
    }
    h
}

pub fn json_str(s: &str) -> String {
    let mut o = String::with_capacity(s.len() + 2);
    o.push('"');
    for c in s.chars() {
        match c {
            '"' => o.push_str("\\\""),
            '\\' => o.push_str("\\\\"),
            '\n' => o.push_str("\\n"),
            '\r' => o.push_str("\\r"),
            '\t' => o.push_str("\\t"),
            c if (c as u32) < 0x20 => o.push_str(&format!("\\u{:04x}", c as u32)),
            c => o.push(c),
        }
    }
    o.push('"');
    o
}

pub fn json_bytes(b: &[u8]) -> String {
    // lossy but reversible enough for humans: bytes >= 0x80 or control as \u00XX
    let mut o = String::with_capacity(b.len() + 2);
    o.push('"');
    for &c in b {
        match c {
            b'"' => o.push_str("\\\""),
            b'\\' => o.push_str("\\\\"),
            b'\n' => o.push_str("\\n"),
            b'\r' => o.push_str("\\r"),
            b'\t' => o.push_str("\\t"),
            c if c < 0x20 || c >= 0x7f => o.push_str(&format!("\\u{:04x}", c as u32)),
            c => o.push(c as char),
        }
    }
    o.push('"');
    o
}

/// run `f(i)` for i in 0..n on `threads` workers (dynamic scheduling, chunked)
pub fn par_for<F: Fn(usize) + Sync>(n: usize, chunk: usize, f: F) {
    let threads = nthreads();
    let next = AtomicUsize::new(0);
    let chunk = chunk.max(1);
    std::thread::scope(|s| {
        for _ in 0..threads {
            s.spawn(|| loop {
                let start = next.fetch_add(chunk, Ordering::Relaxed);
                if start >= n {
                    break;
                }
                let end = (start + chunk).min(n);
                for i in start..end {
                    f(i);
                }
            });
        }
    });
}

pub fn nthreads() -> usize {
    std::env::var("VERIF_THREADS")
        .ok()
        .and_then(|s| s.parse().ok())
        .unwrap_or_else(|| std::thread::available_parallelism().map(|n| n.get()).unwrap_or(8))
        .max(1)
}

/// 16-bit boundary lattice: 0, 1, ±2^k, ±2^k±1, nibble/byte carry edges, MIN/MAX
pub fn lattice16() -> Vec<u16> {
    let mut v: Vec<u16> = vec![0, 1, 2, 3, 9, 10, 0xF, 0x10, 0x11, 0x7F, 0x80, 0x81, 0xFF, 0x100, 0x101];
    for k in 0..16u32 {
        let p = 1u32 << k;
        for d in [-1i32, 0, 1] {
            v.push((p as i32 + d) as u16);
            v.push((-(p as i32) + d) as u16);
        }
    }
    for x in [0x7FFFu16, 0x8000, 0x8001, 0xFFFE, 0xFFFF, 0x0FFF, 0x1000, 0xF000, 0xF00F, 0x00F0, 0x0F0F, 0xAAAA, 0x5555, 0x1234, 0xFEDC, 0x0099, 0x9999, 0x0A0A, 0x7F7F, 0x8080, 0x00FE, 0xFF00, 0xFF01, 0xFEFF] {
        v.push(x);
    }
    v.sort();
    v.dedup();
    v
}

pub fn lattice8() -> Vec<u8> {
    let mut v: Vec<u8> = vec![0, 1, 2, 3, 9, 10, 0xF, 0x10, 0x11, 0x7E, 0x7F, 0x80, 0x81, 0xFE, 0xFF, 0x99, 0x9A, 0xA0, 0x55, 0xAA, 0x0A, 0x60, 0x66, 0xF0];
    for k in 0..8u32 {
        let p = 1u32 << k;
        for d in [-1i32, 0, 1] {
            v.push((p as i32 + d) as u8);
            v.push((-(p as i32) + d) as u8);
        }
    }
    v.sort();
    v.dedup();
    v
}

/// integer fields / iterator items of the library read as usize whatever their declared width or reference shape
/// (the harness must keep compiling when a refactoring narrows or widens a public integer type)
pub trait AsIndex {
    fn ix(self) -> usize;
}
macro_rules! as_index_impl {
    ($($t:ty),*) => { $(
        impl AsIndex for $t { fn ix(self) -> usize { self as usize } }
        impl AsIndex for &$t { fn ix(self) -> usize { *self as usize } }
    )* };
}
as_index_impl!(u8, u16, u32, u64, usize);
