//! Process plane: run the real `emulator_8086` binary (built from the working tree with the
//! `verif_hooks` feature and overflow checks) on a generated source file with a scripted stdin.
use crate::ref8086::Regs;
use std::io::{Read, Write};
use std::os::unix::process::ExitStatusExt;
use std::process::{Command, Stdio};
use std::sync::atomic::{AtomicU64, Ordering};
use std::time::{Duration, Instant};

pub fn cli_path() -> String {
    std::env::var("VERIF_CLI").unwrap_or_else(|_| format!("{}/target/release/emulator_8086", crate::report::verif_root()))
}

static CASE_NO: AtomicU64 = AtomicU64::new(0);

pub fn run_dir() -> String {
    let d = std::env::var("VERIF_RUN_DIR").unwrap_or_else(|_| format!("{}/target/run/{}", crate::report::verif_root(), std::process::id()));
    let _ = std::fs::create_dir_all(&d);
    d
}
pub fn cleanup_run_dir() {
    if std::env::var("VERIF_RUN_DIR").is_err() {
        let d = format!("{}/target/run/{}", crate::report::verif_root(), std::process::id());
        let _ = std::fs::remove_dir_all(d);
    }
}

#[derive(Debug, Clone)]
pub struct CliOut {
    pub stdout: Vec<u8>,
    pub stderr: Vec<u8>,
    pub code: Option<i32>,
    pub signal: Option<i32>,
    pub timed_out: bool,
    /// output cap exceeded (process killed)
    pub flooded: bool,
    pub wall: f64,
    /// CPU seconds (user + system) of the child, sampled from /proc while it ran (10 ms ticks; insensitive to how
    /// loaded the machine is, unlike `wall`)
    pub cpu: f64,
}
impl CliOut {
    pub fn panicked(&self) -> bool {
        self.code == Some(101)
    }
    pub fn aborted(&self) -> bool {
        matches!(self.signal, Some(6) | Some(11) | Some(4) | Some(7)) || self.code == Some(134)
    }
    pub fn clean_exit(&self) -> bool {
        !self.timed_out && !self.flooded && self.signal.is_none() && self.code.is_some() && self.code != Some(101) && self.code != Some(134)
    }
    pub fn status_str(&self) -> String {
        format!(
            "code={:?} signal={:?} timed_out={} flooded={} stdout_len={} stderr_head={:?}",
            self.code,
            self.signal,
            self.timed_out,
            self.flooded,
            self.stdout.len(),
            String::from_utf8_lossy(&self.stderr[..self.stderr.len().min(200)])
        )
    }
}

pub struct CliOpts<'a> {
    pub interpreted: bool,
    pub env: Vec<(&'a str, &'a str)>,
    pub timeout_s: f64,
    pub cap: usize,
    /// close stdin immediately after writing `stdin`
    pub stdin: &'a [u8],
    /// instead of a pipe: open this path as stdin (a directory makes every read fail with EISDIR)
    pub stdin_path: Option<&'a str>,
}
impl<'a> Default for CliOpts<'a> {
    fn default() -> Self {
        CliOpts { interpreted: false, env: vec![], timeout_s: 20.0, cap: 8 << 20, stdin: b"", stdin_path: None }
    }
}

pub fn run_cli(src: &[u8], o: &CliOpts) -> CliOut {
    let n = CASE_NO.fetch_add(1, Ordering::Relaxed);
    let path = format!("{}/case{}.s", run_dir(), n);
    std::fs::write(&path, src).expect("write case file");
    let out = run_cli_path(&path, o);
    let _ = std::fs::remove_file(&path);
    out
}

pub fn run_cli_path(path: &str, o: &CliOpts) -> CliOut {
    let t0 = Instant::now();
    let mut cmd = Command::new(cli_path());
    if o.interpreted {
        cmd.arg("-i");
    }
    cmd.arg(path);
    cmd.env_remove("RUST_BACKTRACE");
    cmd.env("RUST_BACKTRACE", "0");
    for (k, v) in &o.env {
        cmd.env(k, v);
    }
    let from_path = o.stdin_path.and_then(|p| std::fs::File::open(p).ok());
    match from_path {
        Some(f) => {
            cmd.stdin(Stdio::from(f));
        }
        None => {
            cmd.stdin(Stdio::piped());
        }
    }
    cmd.stdout(Stdio::piped()).stderr(Stdio::piped());
    let mut child = match cmd.spawn() {
        Ok(c) => c,
        Err(e) => {
            return CliOut { stdout: vec![], stderr: format!("spawn failed: {}", e).into_bytes(), code: None, signal: None, timed_out: true, flooded: false, wall: 0.0, cpu: 0.0 }
        }
    };
    let stdin = child.stdin.take();
    let data = o.stdin.to_vec();
    let feeder = std::thread::spawn(move || {
        if let Some(mut stdin) = stdin {
            let _ = stdin.write_all(&data);
        }
        // dropping closes the pipe
    });
    let mut so = child.stdout.take().unwrap();
    let mut se = child.stderr.take().unwrap();
    let cap = o.cap;
    let flooded = std::sync::Arc::new(std::sync::atomic::AtomicBool::new(false));
    let fl2 = flooded.clone();
    let reader = std::thread::spawn(move || {
        let mut buf = Vec::new();
        let mut chunk = [0u8; 65536];
        loop {
            match so.read(&mut chunk) {
                Ok(0) => break,
                Ok(k) => {
                    if buf.len() < cap {
                        buf.extend_from_slice(&chunk[..k]);
                    } else {
                        fl2.store(true, Ordering::Relaxed);
                        // keep draining so the child is not blocked; the watchdog kills it
                    }
                }
                Err(_) => break,
            }
        }
        buf
    });
    let ereader = std::thread::spawn(move || {
        let mut buf = Vec::new();
        let mut chunk = [0u8; 8192];
        loop {
            match se.read(&mut chunk) {
                Ok(0) => break,
                Ok(k) => {
                    if buf.len() < 65536 {
                        buf.extend_from_slice(&chunk[..k]);
                    }
                }
                Err(_) => break,
            }
        }
        buf
    });
    let mut timed_out = false;
    let pid = child.id();
    let mut cpu = 0.0f64;
    let sample_cpu = |cpu: &mut f64| {
        if let Ok(t) = std::fs::read_to_string(format!("/proc/{}/stat", pid)) {
            if let Some(p) = t.rfind(')') {
                let f: Vec<&str> = t[p + 1..].split_whitespace().collect();
                // after the command name: state ppid ... utime is the 12th, stime the 13th field
                if f.len() > 12 {
                    if let (Ok(u), Ok(s)) = (f[11].parse::<f64>(), f[12].parse::<f64>()) {
                        let v = (u + s) / 100.0;
                        if v > *cpu {
                            *cpu = v;
                        }
                    }
                }
            }
        }
    };
    let status = loop {
        sample_cpu(&mut cpu);
        match child.try_wait() {
            Ok(Some(s)) => break Some(s),
            Ok(None) => {
                if flooded.load(Ordering::Relaxed) {
                    let _ = child.kill();
                    break child.wait().ok();
                }
                if t0.elapsed().as_secs_f64() > o.timeout_s {
                    timed_out = true;
                    let _ = child.kill();
                    break child.wait().ok();
                }
                std::thread::sleep(Duration::from_millis(2));
            }
            Err(_) => break None,
        }
    };
    let _ = feeder.join();
    let stdout = reader.join().unwrap_or_default();
    let stderr = ereader.join().unwrap_or_default();
    let fl = flooded.load(Ordering::Relaxed);
    let (code, signal) = match status {
        Some(s) => {
            if timed_out || fl {
                (None, None)
            } else {
                (s.code(), s.signal())
            }
        }
        None => (None, None),
    };
    CliOut { stdout, stderr, code, signal, timed_out, flooded: fl, wall: t0.elapsed().as_secs_f64(), cpu }
}

// ---------------------------------------------------------------------------------------
// hook records

#[derive(Debug, Clone)]
pub struct Rec {
    pub idx: usize,
    pub tf: bool,
    pub regs: Regs,
    pub mem: Option<u64>,
    pub line: String,
    /// non-zero memory runs (only when the record carried a dump)
    pub dump: Option<Vec<(u32, Vec<u8>)>>,
}

#[derive(Debug, Clone, Default)]
pub struct Parsed {
    pub recs: Vec<Rec>,
    /// stdout with all records removed (the byte stream an un-hooked binary would have produced)
    pub plain: Vec<u8>,
    /// segs[i] = plain output emitted after record i-1 (or program start) and before record i;
    /// segs[recs.len()] = output after the last record
    pub segs: Vec<Vec<u8>>,
    pub malformed: usize,
}

fn find(hay: &[u8], needle: &[u8], from: usize) -> Option<usize> {
    if needle.is_empty() || hay.len() < needle.len() {
        return None;
    }
    let mut i = from;
    while i + needle.len() <= hay.len() {
        if &hay[i..i + needle.len()] == needle {
            return Some(i);
        }
        i += 1;
    }
    None
}

pub fn parse_records(out: &[u8]) -> Parsed {
    let mut p = Parsed::default();
    let mut cur: Vec<u8> = Vec::new();
    let mut i = 0;
    while i < out.len() {
        if out[i] == 0x1e && out[i..].starts_with(b"\x1e@@") {
            if let Some(end) = find(out, b"\x1f\n", i) {
                let body = &out[i + 1..end];
                if body.starts_with(b"@@V ") {
                    match parse_v(&body[4..]) {
                        Some(r) => {
                            p.recs.push(r);
                            p.segs.push(std::mem::take(&mut cur));
                        }
                        None => p.malformed += 1,
                    }
                } else if body.starts_with(b"@@M") {
                    let d = parse_m(&body[3..]);
                    if let Some(last) = p.recs.last_mut() {
                        last.dump = Some(d);
                    }
                } else {
                    p.malformed += 1;
                }
                i = end + 2;
                continue;
            }
        }
        cur.push(out[i]);
        p.plain.push(out[i]);
        i += 1;
    }
    p.segs.push(cur);
    p
}

fn parse_v(b: &[u8]) -> Option<Rec> {
    let s = String::from_utf8_lossy(b).to_string();
    // idx=N tf=N regs=<14 words> mem=X line=...
    let lp = s.find(" line=")?;
    let line = s[lp + 6..].to_string();
    let head = &s[..lp];
    let mut idx = None;
    let mut tf = false;
    let mut regs: Regs = [0; 14];
    let mut mem = None;
    let toks: Vec<&str> = head.split(' ').collect();
    let mut k = 0;
    while k < toks.len() {
        let t = toks[k];
        if let Some(x) = t.strip_prefix("idx=") {
            idx = x.parse().ok();
        } else if let Some(x) = t.strip_prefix("tf=") {
            tf = x == "1";
        } else if let Some(x) = t.strip_prefix("regs=") {
            regs[0] = u16::from_str_radix(x, 16).ok()?;
            for j in 1..14 {
                regs[j] = u16::from_str_radix(toks.get(k + j)?, 16).ok()?;
            }
            k += 13;
        } else if let Some(x) = t.strip_prefix("mem=") {
            mem = u64::from_str_radix(x, 16).ok();
        }
        k += 1;
    }
    Some(Rec { idx: idx?, tf, regs, mem, line, dump: None })
}

fn parse_m(b: &[u8]) -> Vec<(u32, Vec<u8>)> {
    let s = String::from_utf8_lossy(b);
    let mut v = Vec::new();
    for tok in s.split(' ') {
        if let Some(c) = tok.find(':') {
            if let Ok(a) = u32::from_str_radix(&tok[..c], 16) {
                let hex = &tok[c + 1..];
                let mut bytes = Vec::with_capacity(hex.len() / 2);
                let hb = hex.as_bytes();
                let mut i = 0;
                while i + 1 < hb.len() {
                    if let Ok(x) = u8::from_str_radix(&hex[i..i + 2], 16) {
                        bytes.push(x);
                    }
                    i += 2;
                }
                v.push((a, bytes));
            }
        }
    }
    v
}

/// expand a dump into a full memory image
pub fn dump_to_mem(d: &[(u32, Vec<u8>)]) -> Vec<u8> {
    let mut m = vec![0u8; 1 << 20];
    for (a, bytes) in d {
        for (i, b) in bytes.iter().enumerate() {
            let x = (*a as usize + i) % (1 << 20);
            m[x] = *b;
        }
    }
    m
}

pub fn fnv_mem(mem: &[u8]) -> u64 {
    crate::util::fnv64(mem)
}
