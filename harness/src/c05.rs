//! C05 — MOV/XCHG/PUSH/POP/PUSHF/POPF/LAHF/SAHF/XLAT move exactly the operand; the stack stays sound.
use crate::asm;
use crate::ast::*;
use crate::c01::{bench_with_labels, BLABELS, WLABELS};
use crate::gen::*;
use crate::insplane::check_ins;
use crate::machine::*;
use crate::ref8086::*;
use crate::report::{FailAgg, Local, Report};
use crate::util::*;

fn kc(l: &Loc) -> &'static str {
    match l {
        Loc::R8(_) => "r8",
        Loc::R16(R16::SP) => "sp",
        Loc::R16(_) => "r16",
        Loc::SR(SR::CS) => "cs",
        Loc::SR(_) => "sreg",
        Loc::Mem(W::B, _) => "mem8",
        Loc::Mem(W::W, _) => "mem16",
        Loc::Label(W::B, _) => "label8",
        Loc::Label(W::W, _) => "label16",
    }
}
fn ks(s: &Src) -> &'static str {
    match s {
        Src::Loc(l) => kc(l),
        Src::Imm(_) => "imm",
    }
}
pub fn xfer_class(ins: &Ins) -> String {
    match ins {
        Ins::Mov(d, s) => format!("mov[{},{}]", kc(d), ks(s)),
        Ins::Xchg(a, b) => format!("xchg[{},{}]", kc(a), kc(b)),
        Ins::Push(l) => format!("push[{}]", kc(l)),
        Ins::Pop(l) => format!("pop[{}]", kc(l)),
        Ins::Simple(s) => s.to_string(),
        o => o.class(),
    }
}

pub const MOV_FORMS: usize = 22;
pub fn mov_form(k: usize, rng: &mut Rng, bl: &[&str], wl: &[&str]) -> Ins {
    let sr = |rng: &mut Rng| Loc::SR(*rng.pick(&[SR::ES, SR::DS, SR::SS, SR::CS]));
    if k < 16 {
        let (d, s) = alu2_form(k, rng, bl, wl);
        return Ins::Mov(d, s);
    }
    match k {
        16 => Ins::Mov(sr(rng), Src::Loc(Loc::R16(rand_r16(rng)))),
        17 => Ins::Mov(Loc::R16(rand_r16(rng)), Src::Loc(sr(rng))),
        18 => Ins::Mov(sr(rng), Src::Loc(Loc::Mem(W::W, rand_mem(rng)))),
        19 => Ins::Mov(sr(rng), Src::Loc(Loc::Label(W::W, rng.pick(wl).to_string()))),
        20 => Ins::Mov(Loc::Mem(W::W, rand_mem(rng)), Src::Loc(sr(rng))),
        _ => Ins::Mov(Loc::Label(W::W, rng.pick(wl).to_string()), Src::Loc(sr(rng))),
    }
}
pub const XCHG_FORMS: usize = 10;
pub fn xchg_form(k: usize, rng: &mut Rng, bl: &[&str], wl: &[&str]) -> Ins {
    match k {
        0 => Ins::Xchg(Loc::R8(rand_r8(rng)), Loc::R8(rand_r8(rng))),
        1 => Ins::Xchg(Loc::R16(rand_r16(rng)), Loc::R16(rand_r16(rng))),
        2 => Ins::Xchg(Loc::Mem(W::B, rand_mem(rng)), Loc::R8(rand_r8(rng))),
        3 => Ins::Xchg(Loc::R8(rand_r8(rng)), Loc::Mem(W::B, rand_mem(rng))),
        4 => Ins::Xchg(Loc::Mem(W::W, rand_mem(rng)), Loc::R16(rand_r16(rng))),
        5 => Ins::Xchg(Loc::R16(rand_r16(rng)), Loc::Mem(W::W, rand_mem(rng))),
        6 => Ins::Xchg(Loc::Label(W::B, rng.pick(bl).to_string()), Loc::R8(rand_r8(rng))),
        7 => Ins::Xchg(Loc::R8(rand_r8(rng)), Loc::Label(W::B, rng.pick(bl).to_string())),
        8 => Ins::Xchg(Loc::Label(W::W, rng.pick(wl).to_string()), Loc::R16(rand_r16(rng))),
        _ => Ins::Xchg(Loc::R16(rand_r16(rng)), Loc::Label(W::W, rng.pick(wl).to_string())),
    }
}
pub const STACK_FORMS: usize = 9;
pub fn stack_form(k: usize, rng: &mut Rng, wl: &[&str]) -> Ins {
    match k {
        0 => Ins::Push(Loc::R16(rand_r16(rng))),
        1 => Ins::Push(Loc::SR(*rng.pick(&[SR::ES, SR::DS, SR::SS, SR::CS]))),
        2 => Ins::Push(Loc::Mem(W::W, rand_mem(rng))),
        3 => Ins::Push(Loc::Label(W::W, rng.pick(wl).to_string())),
        4 => Ins::Pop(Loc::R16(rand_r16(rng))),
        5 => Ins::Pop(Loc::SR(*rng.pick(&[SR::ES, SR::DS, SR::SS]))),
        6 => Ins::Pop(Loc::Mem(W::W, rand_mem(rng))),
        7 => Ins::Pop(Loc::Label(W::W, rng.pick(wl).to_string())),
        _ => Ins::Simple(*rng.pick(&["pushf", "popf"])),
    }
}

fn hostile_stack(rng: &mut Rng, r: &mut Regs) {
    match rng.below(8) {
        0 => r[SP] = 0,
        1 => r[SP] = 1,
        2 => r[SP] = 2,
        3 => r[SP] = 0xFFFE,
        4 => r[SP] = 0xFFFF,
        5 => {
            // SS:SP at the very top of the 1 MiB space
            r[SS] = 0xFFFF;
            r[SP] = *rng.pick(&[0x000Eu16, 0x000F, 0x0010, 0x0011]);
        }
        6 => {
            r[SS] = 0xF000;
            r[SP] = 0xFFFF;
        }
        _ => {}
    }
}

fn singles(rep: &Report, per_form: usize, core: bool, seed: u64) {
    let total = MOV_FORMS + XCHG_FORMS + STACK_FORMS + 3;
    par_for(total, 1, |j| {
        let mut rng = Rng::new(seed).fork(0xC05_0000 + j as u64);
        let mut b = bench_with_labels(0x50 + j as u32);
        let bl: Vec<&str> = BLABELS.iter().map(|x| x.0).collect();
        let wl: Vec<&str> = WLABELS.iter().map(|x| x.0).collect();
        let mut agg = FailAgg::new();
        let mut loc = Local::default();
        for it in 0..per_form {
            let ins = if j < MOV_FORMS {
                mov_form(j, &mut rng, &bl, &wl)
            } else if j < MOV_FORMS + XCHG_FORMS {
                xchg_form(j - MOV_FORMS, &mut rng, &bl, &wl)
            } else if j < MOV_FORMS + XCHG_FORMS + STACK_FORMS {
                stack_form(j - MOV_FORMS - XCHG_FORMS, &mut rng, &wl)
            } else {
                Ins::Simple(["lahf", "sahf", "xlat"][j - MOV_FORMS - XCHG_FORMS - STACK_FORMS])
            };
            let mut pre = hostile_regs(&mut rng);
            if it % 2 == 0 {
                hostile_stack(&mut rng, &mut pre);
            }
            let line = ins.ir();
            let cls = xfer_class(&ins);
            let out = check_ins(&mut b, &ins, &line, &pre, &mut agg, core, "C05 data transfer", &|c| Some(format!("xfer:{}:{}", cls, cclass(c))));
            loc.evals += 1;
            loc.distinct.insert(fnv64(format!("{}|{}|sp{}", cls, out.alt, sp_class(pre[SP])).as_bytes()));
            if it == 0 && j % 9 == 0 {
                rep.sample(format!("ir `{}` pre={}", line, regs_json(&pre)));
            }
        }
        agg.flush(rep);
        loc.flush(rep);
    });
}
fn cclass(c: &str) -> String {
    if c.starts_with("flag:") {
        "flags".to_string()
    } else {
        c.to_string()
    }
}
fn sp_class(sp: u16) -> &'static str {
    match sp {
        0 => "0",
        1 => "1",
        0xFFFF => "ffff",
        0xFFFE => "fffe",
        _ => "mid",
    }
}

/// LAHF/SAHF over all 2^16 flag words
fn flags_transfer(rep: &Report) {
    par_for(16, 1, |part| {
        let mut b = Bench::new(0x5F);
        let mut agg = FailAgg::new();
        let mut loc = Local::default();
        let mut rng = Rng::new(0x5AF).fork(part as u64);
        for f in (part * 4096)..((part + 1) * 4096) {
            let f = f as u16;
            for name in ["lahf", "sahf"] {
                let mut pre = hostile_regs(&mut rng);
                pre[FLAG] = f;
                if name == "sahf" {
                    pre[AX] = (f.rotate_left(3) ^ 0xA55A) & 0xFF00 | (pre[AX] & 0xFF);
                }
                let ins = Ins::Simple(if name == "lahf" { "lahf" } else { "sahf" });
                check_ins(&mut b, &ins, name, &pre, &mut agg, true, "C05 flag transfer", &|c| Some(format!("xfer:{}:{}", name, cclass(c))));
                loc.evals += 1;
            }
        }
        loc.distinct.insert(part as u64 + 0x1000);
        agg.flush(rep);
        loc.flush(rep);
    });
    rep.count("LAHF/SAHF cases (all 2^16 flag words)", 2 * 65536);
}

/// random push/pop/pushf/popf histories against the reference stack, memory persisting across steps
fn histories(rep: &Report, n: usize, maxlen: usize, core: bool, seed: u64) {
    par_for(n, 4, |h| {
        let mut rng = Rng::new(seed).fork(0xC05_7000 + h as u64);
        thread_local! { static B: std::cell::RefCell<Option<Bench>> = std::cell::RefCell::new(None); }
        B.with(|cell| {
            let mut slot = cell.borrow_mut();
            if slot.is_none() {
                *slot = Some(bench_with_labels(0x57));
            }
            let b = slot.as_mut().unwrap();
            let wl: Vec<&str> = WLABELS.iter().map(|x| x.0).collect();
            let mut agg = FailAgg::new();
            let mut loc = Local::default();
            let mut r = hostile_regs(&mut rng);
            hostile_stack(&mut rng, &mut r);
            r[FLAG] &= !TF;
            b.keep = true;
            let len = 2 + rng.below(maxlen - 1);
            let mut depth: i32 = 0;
            for step in 0..len {
                let k = if depth <= 0 || rng.chance(3, 5) { rng.below(4) } else { 4 + rng.below(4) };
                let ins = if rng.chance(1, 6) {
                    Ins::Simple(if k < 4 { "pushf" } else { "popf" })
                } else {
                    stack_form(k, &mut rng, &wl)
                };
                depth += if matches!(ins, Ins::Push(_)) || ins == Ins::Simple("pushf") { 1 } else { -1 };
                let line = ins.ir();
                let cls = xfer_class(&ins);
                let out = check_ins(b, &ins, &line, &r, &mut agg, core, "C05 stack history", &|c| Some(format!("xfer:{}:{}", cls, cclass(c))));
                loc.evals += 1;
                if !out.ok {
                    break;
                }
                // continue from the observed state (equal to the matched reference outcome)
                r = out.post;
                if step == len - 1 {
                    loc.distinct.insert(fnv64(format!("hist|{}|{}", len, depth).as_bytes()));
                }
            }
            b.end_history();
            b.restore_mem();
            agg.flush(rep);
            loc.flush(rep);
        });
    });
    rep.count(if core { "stack histories (core)" } else { "stack histories (random)" }, n as u64);
}

/// push x ; pop y round trips from source text through the real assembler
fn source_roundtrip(rep: &Report, n: usize, core: bool, seed: u64) {
    let data_src = "vb0: db 1\npad0: db [0,15]\nvw0: dw 4660\npadA: db [0,4642]\nvb1: db 7\npadB: db [0,12524]\nvw1: dw 9\n";
    let bl = ["vb0", "vb1"];
    let wl = ["vw0", "vw1"];
    par_for(16, 1, |t| {
        let mut rng = Rng::new(seed).fork(0xC05_9000 + t as u64);
        let mut b = Bench::new(0x59 + t as u32);
        let mut labels_set = false;
        let mut agg = FailAgg::new();
        let mut loc = Local::default();
        for it in 0..n / 16 {
            let which = it % (MOV_FORMS + XCHG_FORMS + STACK_FORMS);
            let ins = if which < MOV_FORMS {
                mov_form(which, &mut rng, &bl, &wl)
            } else if which < MOV_FORMS + XCHG_FORMS {
                xchg_form(which - MOV_FORMS, &mut rng, &bl, &wl)
            } else {
                stack_form(which - MOV_FORMS - XCHG_FORMS, &mut rng, &wl)
            };
            let mut sp = if it % 2 == 0 { Spell::plain() } else { Spell::random_syn(rng.fork(it as u64)) };
            let mut text = format!("{}start:\n{}\n", data_src, ins.src(&mut sp));
            // every fourth time the memory / label operand reaches the instruction as a macro argument (the assembler
            // re-formats an argument before it substitutes it)
            if it % 4 == 3 {
                if let Some(l) = crate::gen::first_mem_operand(&ins) {
                    let full = ins.src(&mut Spell::plain());
                    let opnd = l.src(&mut Spell::plain());
                    if full.matches(opnd.as_str()).count() == 1 {
                        text = format!("{}macro viaarg(zzp) -> {} <-\nstart:\nviaarg({})\n", data_src, full.replacen(opnd.as_str(), "zzp", 1), opnd);
                        *loc.counters.entry("source forms whose memory operand is passed as a macro argument").or_insert(0) += 1;
                    }
                }
            }
            let a = match asm::assemble(&text) {
                Ok(a) => a,
                Err(_) => {
                    *loc.counters.entry("source forms rejected by the assembler (filed under C10)").or_insert(0) += 1;
                    continue;
                }
            };
            if !labels_set {
                for (k, v) in a.data_labels() {
                    b.add_data_label(&k, v);
                }
                b.add_code_label("start", 0);
                labels_set = true;
            }
            if a.code.len() != 1 {
                continue;
            }
            let mut pre = hostile_regs(&mut rng);
            hostile_stack(&mut rng, &mut pre);
            let probe = b.step(7, &a.code[0], &pre);
            b.restore_mem();
            let mut line = a.code[0].clone();
            if matches!(probe.0, ObsFlow::Rejected(_)) {
                *loc.counters.entry("emitted lines rejected by the interpreter (filed under C10; hand-rendered IR used instead)").or_insert(0) += 1;
                line = ins.ir();
            }
            let cls = xfer_class(&ins);
            let out = check_ins(&mut b, &ins, &line, &pre, &mut agg, core, "C05 source plane", &|c| Some(format!("xfer-src:{}:{}", cls, cclass(c))));
            loc.evals += 1;
            loc.distinct.insert(fnv64(format!("src|{}|{}", cls, out.alt).as_bytes()));
        }
        agg.flush(rep);
        loc.flush(rep);
    });
}

pub fn run(rep: &Report) {
    singles(rep, 40, true, 0xC05);
    flags_transfer(rep);
    histories(rep, 600, 32, true, 0xC05);
    source_roundtrip(rep, 41 * 16 * 2, true, 0xC05);
    let t = rep.thorough();
    singles(rep, if t { 20_000 } else { 1500 }, false, rep.seed ^ 0x50);
    histories(rep, if t { 200_000 } else { 10_000 }, if t { 1024 } else { 64 }, false, rep.seed ^ 0x51);
    source_roundtrip(rep, if t { 200_000 } else { 12_000 }, false, rep.seed ^ 0x52);
    crate::insplane::mixed_history(rep, if t { 40_000 } else { 500 }, 60, rep.seed ^ 0x145, "C05 among all instruction families", "xfer", &|i| match i {
        Ins::Mov(..) | Ins::Xchg(..) | Ins::Push(_) | Ins::Pop(_) => true,
        Ins::Simple(s) => ["lahf", "sahf", "pushf", "popf", "xlat"].contains(s),
        _ => false,
    });
    crate::insplane::edge_plane(rep, if t { 400_000 } else { 8000 }, rep.seed ^ 0xE5, false, "C05 data transfer at the end of memory", "xfer", &|rng| {
        let bl: Vec<&str> = crate::c01::BLABELS.iter().map(|x| x.0).collect();
        let wl: Vec<&str> = crate::c01::WLABELS.iter().map(|x| x.0).collect();
        match rng.below(3) {
            0 => mov_form(rng.below(MOV_FORMS), rng, &bl, &wl),
            1 => xchg_form(rng.below(XCHG_FORMS), rng, &bl, &wl),
            _ => stack_form(rng.below(STACK_FORMS), rng, &wl),
        }
    });
    rep.floor("data-transfer evaluations", rep.evals(), 100_000);
}

pub const RULE: &str = "every operand-kind pair of MOV (22), XCHG (10), PUSH/POP (8) plus PUSHF/POPF/LAHF/SAHF/XLAT through Interpreter::parse from hostile states (SS:SP in {0,1,2,0xFFFE,0xFFFF, top of 1 MiB}), LAHF/SAHF over all 2^16 flag words, random push/pop/pushf/popf histories run in lock-step with a reference stack with memory persisting across steps, and the same forms from source text through the real assembler. Whole-state comparison after every step. Distinct = (operand-kind class, accept-set member, SP class) resp. (history length, final depth). Mixed-family histories over all 13 instruction classes; operands aimed at the last bytes of memory. Every fourth source form passes its memory / label operand as a macro argument.";
