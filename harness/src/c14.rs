//! C14 — invalid programs are rejected with a diagnostic before anything executes.
use crate::asm::*;
use crate::ast::*;
use crate::cli::*;
use crate::genprog::*;
use crate::prog::*;
use crate::report::{Failure, Report};
use crate::util::*;

/// does the tool chain (assembler + the driver's pre-run checks) accept the text?
fn accepted(text: &str) -> Result<(), String> {
    match assemble(&strip_comments(text)) {
        Err(AsmErr::Diag(_, m)) => Err(m),
        Err(AsmErr::Panic(p)) => Err(format!("PANIC {}", p)),
        Ok(a) => match a.driver_checks() {
            Ok(_) => Ok(()),
            Err(r) => Err(format!("{:?}", r)),
        },
    }
}

struct Mutant {
    class: String,
    text: String,
}
/// mutation classes whose refusal lives in the driver (not in the assembler): always run through the binary
fn driver_level(class: &str) -> bool {
    class.starts_with("jump-undefined") || class.starts_with("no-start") || class.starts_with("label-definition-dropped") || class.starts_with("jump-retargeted-to-undefined")
}

fn insert_line(lines: &[String], at: usize, l: &str) -> String {
    let mut v: Vec<String> = lines.to_vec();
    v.insert(at.min(v.len()), l.to_string());
    v.join("\n")
}

/// single defective instruction lines: (class, text)
fn bad_lines(rng: &mut Rng) -> Vec<(&'static str, String)> {
    let r8 = ["al", "bl", "cl", "dl", "ah", "bh", "ch", "dh"];
    let r16 = ["ax", "bx", "cx", "dx", "si", "di", "bp", "sp"];
    let a8 = *rng.pick(&r8);
    let a16 = *rng.pick(&r16);
    let b16 = *rng.pick(&r16);
    let op2 = *rng.pick(&["mov", "add", "adc", "sub", "sbb", "cmp", "and", "or", "xor", "test"]);
    let jmp = *rng.pick(&["jmp", "je", "jne", "ja", "jb", "jg", "jl", "jcxz", "loop", "loope", "loopne", "JMP", "Jz", "jnbe"]);
    vec![
        ("jump-undefined", format!("{} nosuchlabel{}", jmp, rng.below(10))),
        ("jump-to-data-label", format!("{} {}", jmp, rng.pick(&["bv0", "bv1", "wv2", "wv3"]))),
        ("call-code-label", "call start".to_string()),
        ("call-code-label", "call Lb0".to_string()),
        ("call-data-label", format!("call {}", rng.pick(&["bv0", "wv2"]))),
        ("call-unknown", "call nosuchproc".to_string()),
        ("data-operand-code-label", format!("{} {}, byte start", op2, a8)),
        ("data-operand-code-label", format!("{} word Lb0, {}", op2, a16)),
        ("data-operand-code-label", "inc word start".to_string()),
        ("data-operand-unknown", format!("{} {}, word nosuchdata", op2, a16)),
        ("data-operand-unknown", "neg byte nosuchdata".to_string()),
        ("offset-code-label", format!("mov {}, offset start", a16)),
        ("offset-code-label", format!("add {}, OFFSET Lb0", a16)),
        ("offset-unknown", format!("mov {}, offset nosuchdata", a16)),
        ("width-mix", format!("{} {}, {}", op2, a8, a16)),
        ("width-mix", format!("{} {}, {}", op2, a16, a8)),
        ("width-mix", format!("{} {}, byte bv0", op2, a16)),
        ("width-mix", format!("{} {}, word wv2", op2, a8)),
        ("width-mix", format!("xchg {}, {}", a8, a16)),
        ("width-mix", format!("mov byte [bx], {}", a16)),
        ("width-mix", format!("mov word [si], {}", a8)),
        ("two-memory-operands", format!("{} byte [bx], byte [si]", op2)),
        ("two-memory-operands", format!("{} word wv2, word wv3", op2)),
        ("two-memory-operands", format!("{} byte bv0, byte [di]", op2)),
        ("two-memory-operands", "xchg word [bx], word [si]".to_string()),
        ("two-memory-operands", format!("{} word [bp,2], word wv2", op2)),
        // a shift / rotate count is an unsigned byte number or CL, nothing else
        ("shift-count-register", format!("{} word wv2, {}", rng.pick(&["shl", "sal", "shr", "sar", "rol", "ror", "rcl", "rcr", "ROL", "SAR"]), rng.pick(&["dl", "al", "ah", "bl", "bh", "ch", "dh", "DL"]))),
        ("shift-count-register", format!("{} byte bv0, {}", rng.pick(&["shl", "shr", "sar", "rol", "ror", "rcl", "rcr"]), rng.pick(&["dl", "al", "bl", "ch"]))),
        ("shift-count-register", format!("{} {}, {}", rng.pick(&["shl", "shr", "sar", "rol", "ror", "rcl", "rcr"]), a16, rng.pick(&["dl", "al", "bl", "ch", "cx", "dx"]))),
        ("shift-count-register", format!("{} {}, {}", rng.pick(&["shl", "shr", "sar", "rol", "ror", "rcl", "rcr"]), a8, rng.pick(&["dl", "al", "bl", "ch", "cx"]))),
        ("shift-count-register", format!("{} word [bx], {}", rng.pick(&["shl", "shr", "sar", "rol", "ror", "rcl", "rcr"]), rng.pick(&["dl", "al", "bl", "ch"]))),
        ("shift-count-register", format!("{} byte [si,2], {}", rng.pick(&["shl", "shr", "sar", "rol", "ror", "rcl", "rcr"]), rng.pick(&["dl", "al", "bl", "ch"]))),
        ("unsupported-instruction", "in al, 5".to_string()),
        ("unsupported-instruction", "out 5, al".to_string()),
        ("unsupported-instruction", "in ax, dx".to_string()),
        ("unsupported-instruction", format!("lds {}, word [bx]", a16)),
        ("unsupported-instruction", format!("les {}, word wv2", b16)),
        ("unsupported-instruction", "wait".to_string()),
        ("unsupported-instruction", "esc".to_string()),
        ("unsupported-instruction", "lock".to_string()),
        ("unsupported-instruction", "into".to_string()),
        ("unsupported-instruction", "iret".to_string()),
        ("unsupported-instruction", "INTO".to_string()),
        ("unsupported-instruction", "IRET".to_string()),
        ("unsupported-interrupt", format!("int {}", rng.pick(&[0u32, 1, 2, 4, 5, 9, 15, 17, 32, 34, 255]))),
        ("unsupported-interrupt", format!("int {}", rng.pick(&["0x20", "0x22", "0x13", "0x0", "0b100", "256", "65536"]))),
        ("unsupported-directive", format!("{} 5", rng.pick(&["dd", "dq", "org", "equ", "resb"]))),
        ("duplicate-code-label", "start:".to_string()),
        ("duplicate-code-label", "Lb0:".to_string()),
        ("label-redefines-data-label", "bv0:".to_string()),
    ]
}

/// constant positions: template with a {} hole, inclusive valid range
fn const_positions() -> Vec<(&'static str, &'static str, i64, i64, bool)> {
    // (position name, template, lo, hi, lower bound is 0 (unsigned position))
    vec![
        ("imm8-reg", "mov al, {}", -128, 255, false),
        ("imm8-reg", "add bh, {}", -128, 255, false),
        ("imm8-reg", "cmp cl, {}", -128, 255, false),
        ("imm8-mem", "mov byte [bx], {}", -128, 255, false),
        ("imm8-mem", "sub byte [si,4], {}", -128, 255, false),
        ("imm8-label", "adc byte bv0, {}", -128, 255, false),
        ("imm8-logic", "and dl, {}", -128, 255, false),
        ("imm8-logic", "or byte [di], {}", -128, 255, false),
        ("imm8-logic", "xor byte bv1, {}", -128, 255, false),
        ("imm8-logic", "test al, {}", -128, 255, false),
        ("imm16-reg", "mov ax, {}", -32768, 65535, false),
        ("imm16-reg", "sbb di, {}", -32768, 65535, false),
        ("imm16-mem", "mov word [bp], {}", -32768, 65535, false),
        ("imm16-label", "add word wv2, {}", -32768, 65535, false),
        ("imm16-logic", "and cx, {}", -32768, 65535, false),
        ("imm16-logic", "test word [bx,si], {}", -32768, 65535, false),
        ("displacement", "mov ax, word [bx, {}]", -32768, 65535, false),
        ("displacement", "mov al, byte [si, {}]", -32768, 65535, false),
        ("displacement", "add word [bp, di, {}], cx", -32768, 65535, false),
        ("displacement", "lea dx, word es[bx, si, {}]", -32768, 65535, false),
        ("direct-address", "mov al, byte [{}]", 0, 65535, true),
        ("direct-address", "inc word ds[{}]", 0, 65535, true),
        ("shift-count", "shl ax, {}", 0, 255, true),
        ("shift-count", "ror byte [bx], {}", 0, 255, true),
        ("shift-count", "rcl word wv3, {}", 0, 255, true),
        ("shift-count", "sar cl, {}", 0, 255, true),
    ]
}
fn data_positions() -> Vec<(&'static str, &'static str, i64, i64, bool)> {
    vec![
        ("set", "set {}", 0, 65535, true),
        ("db-value", "db {}", -128, 255, false),
        ("dw-value", "dw {}", -32768, 65535, false),
        ("db-fill-value", "db [{}, 3]", -128, 255, false),
        ("dw-fill-value", "dw [{}, 3]", -32768, 65535, false),
        ("array-size", "db [{}]", 0, 65535, true),
        ("array-size", "dw [7, {}]", 0, 65535, true),
    ]
}

fn spell_const(rng: &mut Rng, v: i64) -> String {
    if v < 0 {
        return format!("{}", v);
    }
    match rng.below(4) {
        0 => format!("0x{:x}", v),
        1 => format!("0b{:b}", v),
        _ => format!("{}", v),
    }
}

struct Parent {
    lines: Vec<String>,
    /// index of the first line after the one holding `start:`
    code_from: usize,
    /// line indices inside a procedure body
    proc_inner: Vec<usize>,
    program: Program,
}

fn make_parent(rng: &mut Rng) -> Option<Parent> {
    let n = 3 + rng.below(10);
    let mut p = if rng.chance(1, 4) { structured_program(rng, &SOpts { prints: true, ..Default::default() }) } else { rand_program_any(rng, n) };
    if p.data.is_empty() {
        // the defective lines refer to these
        p.data = vec![
            DataItem::Def(DataDef { label: Some("bv0".into()), word: false, kind: DK::Num(1) }),
            DataItem::Def(DataDef { label: Some("bv1".into()), word: false, kind: DK::Num(2) }),
            DataItem::Def(DataDef { label: Some("wv2".into()), word: true, kind: DK::Num(3) }),
            DataItem::Def(DataDef { label: Some("wv3".into()), word: true, kind: DK::Num(4) }),
        ];
    }
    if !p.items.iter().any(|i| matches!(i, Item::Label(l) if l == "Lb0")) {
        p.items.push(Item::Label("Lb0".into()));
    }
    let lay = Layout { trailing_newline: true, filler_pct: 10, pack_pct: 0, comments: rng.chance(1, 4) };
    let r = p.render(&mut Spell::random(rng.fork(4)), &lay);
    if accepted(&r.text).is_err() {
        return None;
    }
    let lines: Vec<String> = r.text.trim_end_matches('\n').split('\n').map(|s| s.to_string()).collect();
    let sl = lines.iter().position(|l| l.trim_start().starts_with("start:"))?;
    let mut proc_inner = Vec::new();
    let mut inside = false;
    for (i, l) in lines.iter().enumerate() {
        let t = l.trim().to_ascii_lowercase();
        if t.starts_with("def ") {
            inside = true;
            continue;
        }
        if t.starts_with('}') {
            inside = false;
        }
        if inside {
            proc_inner.push(i);
        }
    }
    Some(Parent { lines, code_from: sl + 1, proc_inner, program: p })
}

fn mutants(rng: &mut Rng, par: &Parent) -> Vec<Mutant> {
    let mut v = Vec::new();
    let nl = par.lines.len();
    let code_at = |rng: &mut Rng| par.code_from + rng.below(nl - par.code_from + 1);
    // defective instruction lines at a random code position (top level or inside a procedure)
    for (class, l) in bad_lines(rng) {
        let inside = !par.proc_inner.is_empty() && rng.chance(1, 4) && !l.ends_with(':');
        let at = if inside { *rng.pick(&par.proc_inner) } else { code_at(rng) };
        v.push(Mutant { class: format!("{}{}", class, if inside { ":in-procedure" } else { "" }), text: insert_line(&par.lines, at, &l) + "\n" });
        // the same defect carried by a macro: the definition alone is text, the use must be refused
        if !l.ends_with(':') && !l.contains('"') && rng.chance(1, 3) {
            let at = code_at(rng);
            let mut ls: Vec<String> = par.lines.clone();
            ls.insert(at.min(ls.len()), "mbad(_)".to_string());
            ls.insert(at.min(ls.len()), format!("macro mbad(_) -> {} <-", l));
            v.push(Mutant { class: format!("{}:in-macro", class), text: ls.join("\n") + "\n" });
        }
    }
    // constants one past each end of their range
    for (pos, tpl, lo, hi, unsigned) in const_positions() {
        let at = code_at(rng);
        for (which, val) in [("above", hi + 1), ("below", lo - 1), ("far-above", *rng.pick(&[70000i64, 1 << 20, 4294967296, 99999999999])), ("far-below", *rng.pick(&[-70000i64, -4294967297]))] {
            if unsigned && which == "far-below" {
                continue;
            }
            let l = tpl.replace("{}", &spell_const(rng, val));
            v.push(Mutant { class: format!("constant:{}:{}", pos, which), text: insert_line(&par.lines, at, &l) + "\n" });
        }
    }
    for (pos, tpl, lo, hi, _) in data_positions() {
        for (which, val) in [("above", hi + 1), ("below", lo - 1)] {
            let l = tpl.replace("{}", &spell_const(rng, val));
            // data definitions go before the code
            v.push(Mutant { class: format!("constant:{}:{}", pos, which), text: insert_line(&par.lines, 0, &l) + "\n" });
        }
    }
    // one macro use carrying two forward jumps, one of them to a label that is never defined (both name orders)
    for (a, b, defined) in [("aaa_fwd", "zzz_undef", "aaa_fwd"), ("aaa_undef", "zzz_fwd", "zzz_fwd"), ("mmm_undef", "mmm_undef2", "")] {
        let at = code_at(rng);
        let mut l: Vec<String> = par.lines.clone();
        l.insert(at.min(l.len()), format!("mj2({}, {})", a, b));
        l.insert(at.min(l.len()), format!("macro mj2(p,q) -> {} p {} q <-", rng.pick(&["jmp", "je", "loop"]), rng.pick(&["jmp", "jne", "jcxz"])));
        if !defined.is_empty() {
            l.push(format!("{}:", defined));
        }
        v.push(Mutant { class: "jump-undefined:two-jumps-in-one-macro-use".into(), text: l.join("\n") + "\n" });
    }
    // an undefined jump target among hundreds / thousands of forward references to a label that is defined later
    if rng.chance(1, 6) {
        let n = *rng.pick(&[257usize, 300, 1000, 4097, 5000]);
        let at = code_at(rng);
        let mut l: Vec<String> = par.lines.clone();
        let mut block: Vec<String> = vec![format!("{} nosuch_among_many", rng.pick(&["jmp", "je", "loop"]))];
        for _ in 0..n {
            block.push("jmp defined_much_later".into());
        }
        // the undefined one first, in the middle or last among them
        let first = block.remove(0);
        let pos = match rng.below(3) {
            0 => 0,
            1 => block.len() / 2,
            _ => block.len(),
        };
        block.insert(pos, first);
        let at = at.min(l.len());
        for (k, b) in block.into_iter().enumerate() {
            l.insert(at + k, b);
        }
        l.push("defined_much_later:".into());
        v.push(Mutant { class: "jump-undefined:among-many-forward-references".into(), text: l.join("\n") + "\n" });
    }
    // duplicate data label / procedure
    v.push(Mutant { class: "duplicate-data-label".into(), text: insert_line(&par.lines, 0, "bv0: db 9") + "\n" });
    v.push(Mutant { class: "duplicate-data-label".into(), text: insert_line(&par.lines, 0, "wv2: db 9") + "\n" });
    v.push(Mutant { class: "duplicate-procedure".into(), text: insert_line(&insert_line(&par.lines, 0, "def dupf { stc }").split('\n').map(|s| s.to_string()).collect::<Vec<_>>(), 0, "def dupf { clc }") + "\n" });
    // 'start' missing / a data label / differently spelled
    let joined = par.lines.join("\n") + "\n";
    let sline = par.code_from - 1;
    {
        let mut l = par.lines.clone();
        l[sline] = l[sline].replacen("start:", "", 1);
        v.push(Mutant { class: "no-start:removed".into(), text: l.join("\n") + "\n" });
        let mut l = par.lines.clone();
        l[sline] = l[sline].replacen("start:", "Start:", 1);
        v.push(Mutant { class: "no-start:other-case".into(), text: l.join("\n") + "\n" });
        let mut l = par.lines.clone();
        l[sline] = l[sline].replacen("start:", "begin:", 1);
        l.insert(0, "start: db 1".into());
        v.push(Mutant { class: "no-start:data-label".into(), text: l.join("\n") + "\n" });
    }
    let _ = joined;
    // AST level: drop the definition of a label some jump refers to; retarget a jump
    let mut p = par.program.clone();
    let targets: Vec<String> = collect_jump_targets(&p.items);
    if let Some(t) = targets.first() {
        if remove_label(&mut p.items, t) {
            v.push(Mutant { class: "label-definition-dropped".into(), text: p.render_plain().text });
        }
    }
    let mut p = par.program.clone();
    if retarget_first_jump(&mut p.items, "wv2") {
        v.push(Mutant { class: "jump-retargeted-to-data-label".into(), text: p.render_plain().text });
    }
    let mut p = par.program.clone();
    if retarget_first_jump(&mut p.items, "nowhere_at_all") {
        v.push(Mutant { class: "jump-retargeted-to-undefined".into(), text: p.render_plain().text });
    }
    v
}

fn collect_jump_targets(items: &[Item]) -> Vec<String> {
    let mut v = Vec::new();
    for it in items {
        match it {
            Item::Ins(Ins::J(_, l)) => v.push(l.clone()),
            Item::Proc(_, b) => v.extend(collect_jump_targets(b)),
            _ => {}
        }
    }
    v
}
fn remove_label(items: &mut Vec<Item>, name: &str) -> bool {
    if let Some(i) = items.iter().position(|it| matches!(it, Item::Label(l) if l == name)) {
        items.remove(i);
        return true;
    }
    for it in items.iter_mut() {
        if let Item::Proc(_, b) = it {
            if remove_label(b, name) {
                return true;
            }
        }
    }
    false
}
fn retarget_first_jump(items: &mut Vec<Item>, to: &str) -> bool {
    for it in items.iter_mut() {
        match it {
            Item::Ins(Ins::J(_, l)) => {
                *l = to.to_string();
                return true;
            }
            Item::Proc(_, b) => {
                if retarget_first_jump(b, to) {
                    return true;
                }
            }
            _ => {}
        }
    }
    false
}

/// single-defect programs for other monitors (C10 runs them through the binary: refused, or run without reaching an
/// 'Internal Error' path)
pub fn sample_mutants(rng: &mut Rng) -> Vec<(String, String)> {
    let par = loop {
        if let Some(p) = make_parent(rng) {
            break p;
        }
    };
    mutants(rng, &par).into_iter().map(|m| (m.class, m.text)).collect()
}

fn judge(rep: &Report, m: &Mutant, core: Option<String>, cli: bool) {
    rep.eval(1);
    let sig_class = m.class.clone();
    let fail = |sym: &str, what: String, detail: String| {
        rep.fail(Failure {
            sig: format!("mutant:{}:{}", sig_class, sym),
            what,
            witness: format!("{{\"kind\": \"cli\", \"source\": {}, \"stdin\": \"\", \"mutation\": {}, \"detail\": {}}}", json_str(&m.text), json_str(&m.class), json_str(&detail)),
            core_item: core.as_ref().map(|c| format!("{}|{}|{}", c, sig_class, sym)),
        });
    };
    rep.distinct_str(&format!("mutant|{}", m.class));
    match accepted(&m.text) {
        Ok(()) => {
            fail("accepted", format!("C14: an invalid program ({}) is accepted by the assembler and the driver's checks", m.class), "in process: Preprocessor::parse Ok, all referenced labels defined, code label 'start' present".into());
        }
        Err(e) if e.starts_with("PANIC") => {
            fail("panic", format!("C14: an invalid program ({}) makes the assembler panic instead of producing a diagnostic", m.class), e);
        }
        Err(e) => {
            if e.trim().is_empty() {
                fail("empty-diagnostic", format!("C14: an invalid program ({}) is refused with an empty diagnostic", m.class), String::new());
            }
        }
    }
    if cli {
        let out = run_cli(m.text.as_bytes(), &CliOpts { env: vec![("VERIF_NOMEM", "1")], ..Default::default() });
        rep.count("mutants run through the binary", 1);
        if out.timed_out || out.flooded {
            rep.inconclusive("cli watchdog");
            return;
        }
        let p = parse_records(&out.stdout);
        if !out.clean_exit() {
            fail("cli-abort", format!("C14: the binary aborts on an invalid program ({}) instead of producing a diagnostic", m.class), out.status_str());
        } else if !p.recs.is_empty() {
            fail("cli-executed", format!("C14: the binary executes instructions of an invalid program ({})", m.class), format!("{} hook records, first {:?}", p.recs.len(), p.recs[0].line));
        } else if String::from_utf8_lossy(&p.plain).trim().is_empty() {
            fail("cli-no-diagnostic", format!("C14: the binary is silent on an invalid program ({})", m.class), String::new());
        }
    }
}

/// a constant may also be written as OFFSET of a data label: in an 8-bit position an offset above 255 is out of range
fn offset_constants(rep: &Report) {
    let byte_positions = ["mov ch, offset lab", "mov byte [bx], OFFSET lab", "add dl, offset lab", "cmp byte bv0, offset lab", "and al, offset lab", "shl ax, offset lab", "rcr byte [si], OFFSET lab", "db offset lab", "db [offset lab, 2]", "int offset lab"];
    for n in [254usize, 255, 256, 257, 300, 511, 512, 65535] {
        for (k, pos) in byte_positions.iter().enumerate() {
            let data_pos = pos.starts_with("db");
            let text = if data_pos {
                format!("bv0: db 1\npad: db [0,{}]\nlab: db 7\n{}\nstart:\nmov ax,1\n", n - 1, pos)
            } else {
                format!("bv0: db 1\npad: db [0,{}]\nlab: db 7\nstart:\nmov ax,1\n{}\nmov bx,2\n", n - 1, pos)
            };
            let class = format!("constant:offset-in-byte-position:{}", pos.split(|c| c == ' ' || c == ',').next().unwrap_or("?"));
            if n <= 255 {
                // in range (int needs 3/16/33): counted only
                rep.count("in-range OFFSET constants in byte positions tried", 1);
                if accepted(&text).is_err() && !pos.starts_with("int") {
                    rep.count("in-range OFFSET constants refused (not judged here)", 1);
                }
                continue;
            }
            let m = Mutant { class, text };
            judge(rep, &m, Some(format!("off{}k{}", n, k)), k % 2 == 0);
        }
    }
}

/// every kind of data definition makes its label a data label: jumping to it, or using it as the program's `start`,
/// must be refused whatever the definition's size (also zero bytes)
fn data_label_kinds(rep: &Report) {
    let defs = ["db 5", "db -1", "db [3]", "db [0]", "db [7,2]", "db [7,0]", "db \"ab\"", "db \"\"", "dw 5", "dw [3]", "dw [0]", "dw [7,2]", "dw [7,0]", "dw \"ab\"", "dw \"\""];
    let jumps = ["jmp", "je", "loop", "jcxz", "JNZ", "call"];
    let mut k = 0usize;
    for d in defs.iter() {
        for j in jumps.iter() {
            let text = format!("pad: db 1\nlab: {}\nafter: db 2\nstart:\nmov ax,1\n{} lab\nmov bx,2\n", d, j);
            let class = format!("{}-to-data-label:{}", if *j == "call" { "call" } else { "jump" }, d.split(' ').next().unwrap_or("?"));
            let m = Mutant { class: format!("{}:{}", class, if d.ends_with("\"\"") || d.contains("[0]") || d.ends_with(",0]") { "empty-definition" } else { "definition" }), text };
            judge(rep, &m, Some(format!("dk{}", k)), k % 3 == 0);
            k += 1;
        }
        let text = format!("start: {}\nbegin:\nmov ax,1\nmov bx,2\n", d);
        let m = Mutant { class: format!("no-start:data-label:{}", if d.ends_with("\"\"") || d.contains("[0]") || d.ends_with(",0]") { "empty-definition" } else { "definition" }), text };
        judge(rep, &m, Some(format!("dks{}", k)), true);
        k += 1;
    }
}

/// every two-operand mnemonic x every destination form x an out-of-range immediate (also as OFFSET of a far label):
/// enumerated, not sampled - a range check dropped from a single production of a single mnemonic must be met.
/// A (mnemonic, destination) pair exists when the same line with a boundary value is accepted; only those are judged.
fn constant_grid(rep: &Report) {
    let two = ["mov", "add", "adc", "sub", "sbb", "cmp", "and", "or", "xor", "test"];
    let shifts = ["shl", "sal", "shr", "sar", "rol", "ror", "rcl", "rcr"];
    let d8 = ["al", "ch", "dl", "bh", "byte [bx]", "byte [si,4]", "byte [bp,di]", "byte [bx,si,2]", "byte es[di]", "byte cs[bx,6]", "byte [100]", "byte ss[100]", "byte bv0", "byte es bv0"];
    let d16 = ["ax", "sp", "di", "bp", "word [bx]", "word [di,4]", "word [bp,si]", "word [bx,di,2]", "word es[si]", "word [200]", "word ds[200]", "word wv2", "word ss wv2"];
    let prologue = "bv0: db 1\nbv1: db 1\nwv2: dw 1\nwv3: dw 1\npad: db [0,400]\nfar: db 7\n";
    let wrap = |l: &str| format!("{}start:\nmov cx,1\n{}\nmov bx,2\n", prologue, l);
    let mut k = 0usize;
    let mut tried = 0u64;
    let mut absent = 0u64;
    for (ops, word_count) in [(&two[..], true), (&shifts[..], false)] {
        for (mi, m) in ops.iter().enumerate() {
            for (wide, dests) in [(false, &d8[..]), (true, &d16[..])] {
                for (di, d) in dests.iter().enumerate() {
                    // the immediate is as wide as the destination; a shift count is always 0..255
                    let (lo, hi): (i64, i64) = if !word_count { (0, 255) } else if wide { (-32768, 65535) } else { (-128, 255) };
                    let mn = if (mi + di) % 3 == 2 { m.to_uppercase() } else { m.to_string() };
                    let line = |v: &str| format!("{} {}, {}", mn, d, v);
                    tried += 1;
                    if accepted(&wrap(&line(&hi.to_string()))).is_err() {
                        absent += 1;
                        continue;
                    }
                    let pos = format!("{}{}", if word_count { if wide { "imm16" } else { "imm8" } } else { "shift-count" }, if d.contains('[') { "-mem" } else if d.contains(' ') { "-label" } else { "-reg" });
                    let mut vals: Vec<(&str, String)> = vec![("above", (hi + 1).to_string()), ("above", format!("0x{:x}", hi + 1)), ("far-above", (hi + 45).to_string()), ("far-above", "70000".into()), ("below", (lo - 1).to_string())];
                    if hi == 255 {
                        // `far` sits at offset 404
                        vals.push(("offset-above", "offset far".into()));
                        vals.push(("far-above", "0x1234".into()));
                    }
                    for (which, v) in vals {
                        let mt = Mutant { class: format!("constant:{}:{}:{}", pos, which, m), text: wrap(&line(&v)) };
                        judge(rep, &mt, Some(format!("grid{}", k)), k % 40 == 0);
                        k += 1;
                    }
                }
            }
        }
    }
    rep.count("constant grid: (mnemonic, destination form) pairs tried", tried);
    rep.count("constant grid: pairs the assembler does not have (boundary value refused; not judged)", absent);
    rep.floor("constant grid pairs judged", tried - absent, 200);
}

/// boundary values themselves must stay usable: counted, not judged (acceptance of documented shapes is C10's subject)
fn boundaries(rep: &Report) {
    let mut refused = 0u64;
    let mut total = 0u64;
    for (_, tpl, lo, hi, _) in const_positions() {
        for v in [lo, hi] {
            let text = format!("bv0: db 1\nbv1: db 1\nwv2: dw 1\nwv3: dw 1\nstart:\n{}\n", tpl.replace("{}", &format!("{}", v)));
            total += 1;
            if accepted(&text).is_err() {
                refused += 1;
            }
        }
    }
    for (_, tpl, lo, hi, _) in data_positions() {
        for v in [lo, hi] {
            let text = format!("{}\nstart:\n", tpl.replace("{}", &format!("{}", v)));
            total += 1;
            if accepted(&text).is_err() {
                refused += 1;
            }
        }
    }
    rep.count("boundary constants (lo and hi of every position) tried", total);
    rep.count("boundary constants refused (not judged here)", refused);
}

pub fn run(rep: &Report) {
    boundaries(rep);
    offset_constants(rep);
    data_label_kinds(rep);
    constant_grid(rep);
    let t = rep.thorough();
    let nparents = if t { 4000 } else { 40 };
    let ncore = 12;
    let seed = rep.seed;
    par_for(ncore + nparents, 1, |i| {
        let core = i < ncore;
        let mut rng = if core { Rng::new(0xC14).fork(i as u64) } else { Rng::new(seed).fork(0xC14_0000 + i as u64) };
        let par = loop {
            if let Some(p) = make_parent(&mut rng) {
                break p;
            }
            rep.count("generated parents refused (discarded)", 1);
        };
        rep.count("valid parents", 1);
        let ms = mutants(&mut rng, &par);
        for (k, m) in ms.iter().enumerate() {
            let cli = driver_level(&m.class) || (k + i) % (if t { 12 } else { 8 }) == 0;
            judge(rep, m, if core { Some(format!("p{}m{}", i, k)) } else { None }, cli);
        }
        // aftermath: a context that met a program refused from inside a macro expansion and was clear()ed must still
        // refuse the invalid programs (all derived from the same parent: the names coincide)
        let in_macro: Vec<&Mutant> = ms.iter().filter(|m| m.class.ends_with(":in-macro") || m.class.contains("in-one-macro-use")).collect();
        if !in_macro.is_empty() {
            // small invalid programs that lean on names the refused program defined (and define nothing themselves)
            let first = in_macro[rng.below(in_macro.len())];
            let mut code_labels: Vec<String> = Vec::new();
            let mut procs: Vec<String> = Vec::new();
            for l in first.text.lines() {
                let t = l.trim();
                if let Some(rest) = t.strip_prefix("def ") {
                    if let Some(n) = rest.split(|c: char| !(c.is_ascii_alphanumeric() || c == '_')).next() {
                        procs.push(n.to_string());
                    }
                } else if let Some(p) = t.find(':') {
                    let n = &t[..p];
                    if !n.is_empty() && n != "start" && n.chars().all(|c| c.is_ascii_alphanumeric() || c == '_') && !t[p + 1..].trim_start().to_ascii_lowercase().starts_with("d") {
                        code_labels.push(n.to_string());
                    }
                }
            }
            let mut targets: Vec<(String, String)> = vec![("no-start".into(), "mov ax,1\nmov bx,2\n".into()), ("no-start".into(), "begin:\nmov ax,1\n".into())];
            if let Some(l) = code_labels.first() {
                targets.push(("jump-undefined".into(), format!("start:\nmov ax,1\njmp {}\n", l)));
            }
            if let Some(p) = procs.first() {
                targets.push(("call-unknown".into(), format!("start:\ncall {}\nmov ax,1\n", p)));
            }
            for (class, text) in targets.iter() {
                // every one of them is refused on a fresh context
                if accepted(text).is_ok() {
                    continue;
                }
                let mut sess = Session::new();
                let r0 = sess.parse(&first.text);
                sess.clear();
                let r1 = sess.parse(text);
                let a = sess.finish();
                rep.eval(1);
                rep.count("invalid programs assembled on a context that refused another program before (after clear)", 1);
                if r1.is_ok() && a.driver_checks().is_ok() {
                    rep.fail(Failure {
                        sig: format!("mutant:{}:accepted-after-refused-program", class),
                        what: format!("C14: an invalid program ({}) is accepted on a context that met another program before and was cleared", class),
                        witness: format!("{{\"kind\": \"src\", \"first_program\": {}, \"first_program_refused\": {}, \"source\": {}, \"mutation\": {}}}", json_str(&first.text), r0.is_err(), json_str(text), json_str(class)),
                        core_item: if core { Some(format!("p{}|after|{}", i, class)) } else { None },
                    });
                }
            }
        }
        if i == 0 {
            rep.sample(format!("parent {:?}", par.lines.join("\n")));
            rep.sample(format!("mutant [{}] {:?}", ms[3].class, ms[3].text));
        }
    });
    rep.floor("mutants", rep.evals(), 3000);
    rep.floor("mutants run through the binary", rep.counter("mutants run through the binary"), 300);
}

pub const RULE: &str = "valid parents (random well-formed programs of all instruction classes and structured programs; each is first checked to be accepted) receive one defect each: a defective instruction line inserted at a random position of the code (top level or inside a procedure) from 46 templates (a third of them also carried by a macro whose use must be refused) - jump to an undefined / data label (14 jump spellings), call of a code label / data label / unknown name, byte/word data operand or OFFSET naming a code label or an unknown name, mixed operand widths (7 shapes x 10 mnemonics), two memory operands (5 shapes), unsupported instructions (in/out/lds/les/wait/esc/lock/into/iret), interrupt numbers other than 3/10h/21h in three radices, unsupported directives, duplicate code labels, a code label redefining a data label; a macro use carrying two forward jumps of which one target is never defined; duplicate data labels and procedures; every constant position (imm8/imm16 to register, memory, label; logic immediates; displacements of all addressing shapes; direct addresses; shift counts; SET; DB/DW values, fill values and array sizes) pushed one past the upper end, one past the lower end, and far outside in decimal/hex/binary; constants written as OFFSET of a data label placed at offsets 256..65535 in ten 8-bit positions; 'start' removed, spelled 'Start', or made a data label; jumps/calls to, and 'start' as, a label of each of 15 kinds of data definition incl. empty ones; at AST level the definition of a referenced label dropped and a jump retargeted to a data label / undefined name. Oracle: in process Preprocessor::parse is Err with a non-empty message or the replicated driver checks refuse; through the binary (every 8th mutant, and every mutant whose refusal is the driver's job: undefined labels, missing start) there are zero hook records, non-empty output and a clean exit. Distinct = mutation class (incl. position). Constant grid: 10 two-operand mnemonics and 8 shifts x 27 destination forms (registers, every addressing shape with and without segment override, direct addresses, data labels) - wherever the boundary value is accepted, one past either end, far outside (hi+45, 70000, 0x1234) and OFFSET of a label at offset 404 must be refused, enumerated. Undefined jump targets among 257..5000 forward references to a label defined later; two forward jumps out of one macro use. Aftermath: small invalid programs leaning on names that an earlier program (refused inside a macro expansion) defined must still be refused on the clear()ed context.";
