//! C03 — MUL/IMUL/DIV/IDIV, AAA/AAS/DAA/DAS/AAM/AAD, CBW/CWD; divide errors raise INT 0.
use crate::ast::*;
use crate::c01::{bench_with_labels, BLABELS, WLABELS};
use crate::fnplane::*;
use crate::gen::*;
use crate::insplane::check_ins;
use crate::machine::*;
use crate::ref8086::*;
use crate::report::{hnum, FailAgg, Local, Report};
use crate::util::*;
use emulator_8086_lib::instructions::arithmetic as ar;
use emulator_8086_lib::util::interpreter_util::DivByZero;
use emulator_8086_lib::VM;
use std::panic::{catch_unwind, AssertUnwindSafe};

type U8 = fn(&mut VM, &mut u8) -> Result<(), DivByZero>;
type U16 = fn(&mut VM, &mut u16) -> Result<(), DivByZero>;
const MD8: [(&str, U8, Un); 4] = [("byte_mul", ar::byte_mul, Un::Mul), ("byte_imul", ar::byte_imul, Un::Imul), ("byte_div", ar::byte_div, Un::Div), ("byte_idiv", ar::byte_idiv, Un::Idiv)];
const MD16: [(&str, U16, Un); 4] = [("word_mul", ar::word_mul, Un::Mul), ("word_imul", ar::word_imul, Un::Imul), ("word_div", ar::word_div, Un::Div), ("word_idiv", ar::word_idiv, Un::Idiv)];

/// one mul/div case on the function plane. `w` = 8 or 16.
fn one_md(vm: &mut VM, agg: &mut FailAgg, core: bool, name: &'static str, w: u32, op: Un, ax: u16, dx: u16, opnd: u16, fin: u16, f8: Option<U8>, f16: Option<U16>) {
    let mut pre: Regs = [0; 14];
    pre[FLAG] = fin;
    pre[AX] = ax;
    pre[DX] = dx;
    pre[BX] = 0x1357;
    pre[CX] = 0x2468;
    load_regs(vm, &pre);
    let r = catch_unwind(AssertUnwindSafe(|| {
        if w == 8 {
            let mut v = opnd as u8;
            let r = (f8.unwrap())(vm, &mut v);
            (r.is_ok(), v as u16)
        } else {
            let mut v = opnd;
            let r = (f16.unwrap())(vm, &mut v);
            (r.is_ok(), v)
        }
    }));
    // expected
    #[derive(Debug)]
    enum E {
        Val { ax: u16, dx: u16, flags: u16, care: u16 },
        Fault,
        Either { ax: u16, dx: u16 },
    }
    let exp = match op {
        Un::Mul | Un::Imul => {
            let (eax, edx, sig) = if w == 8 {
                let (p, s) = if op == Un::Mul { mul8(ax as u8, opnd as u8) } else { imul8(ax as u8, opnd as u8) };
                (p, dx, s)
            } else if op == Un::Mul {
                mul16(ax, opnd)
            } else {
                imul16(ax, opnd)
            };
            E::Val { ax: eax, dx: edx, flags: (fin & !(CF | OF)) | if sig { CF | OF } else { 0 }, care: 0xFFFF & !(SF | ZF | AF | PF) }
        }
        _ => {
            let res = if w == 8 {
                if op == Un::Div {
                    div8(ax, opnd as u8)
                } else {
                    idiv8(ax, opnd as u8)
                }
            } else if op == Un::Div {
                div16(dx, ax, opnd)
            } else {
                idiv16(dx, ax, opnd)
            };
            match res {
                DivRes::Fault => E::Fault,
                DivRes::Ok { q, r, boundary } => {
                    let (eax, edx) = if w == 8 { ((r << 8) | (q & 0xFF), dx) } else { (q, r) };
                    if boundary {
                        E::Either { ax: eax, dx: edx }
                    } else {
                        E::Val { ax: eax, dx: edx, flags: fin, care: 0xFFFF & !STATUS6 }
                    }
                }
            }
        }
    };
    let mut mask = 0u32;
    let post = read_regs(vm);
    let mut obs_ok = false;
    match &r {
        Err(_) => mask |= C_PANIC,
        Ok((ok, v)) => {
            obs_ok = *ok;
            if *v != opnd && w == 16 || (w == 8 && (*v & 0xFF) != (opnd & 0xFF)) {
                mask |= C_OTHERSTATE; // the operand itself must not be modified by mul/div
            }
            let check_val = |eax: u16, edx: u16, flags: u16, care: u16, mask: &mut u32| {
                if post[AX] != eax || post[DX] != edx {
                    *mask |= C_RESULT;
                }
                let d = (post[FLAG] ^ flags) & care;
                if d & CF != 0 {
                    *mask |= 1 << 1;
                }
                if d & OF != 0 {
                    *mask |= 1 << 6;
                }
                if d & !(CF | OF) != 0 {
                    *mask |= C_OTHERFLAGS;
                }
            };
            match &exp {
                E::Val { ax: eax, dx: edx, flags, care } => {
                    if !*ok {
                        mask |= C_OUTCOME;
                    } else {
                        check_val(*eax, *edx, *flags, *care, &mut mask);
                    }
                }
                E::Fault => {
                    if *ok {
                        mask |= C_OUTCOME;
                    } else if post[AX] != ax || post[DX] != dx {
                        mask |= C_RESULT;
                    }
                }
                E::Either { ax: eax, dx: edx } => {
                    if *ok {
                        check_val(*eax, *edx, fin, 0xFFFF & !STATUS6, &mut mask);
                    } else if post[AX] != ax || post[DX] != dx {
                        mask |= C_RESULT;
                    }
                }
            }
            for i in [BX, CX, SP, BP, SI, DI, IP, CS, DS, SS, ES] {
                if post[i] != pre[i] {
                    mask |= C_OTHERSTATE;
                }
            }
        }
    }
    if mask != 0 {
        report(
            agg,
            "muldiv",
            name,
            mask,
            core,
            &[ax as u64, dx as u64, opnd as u64, fin as u64],
            &[post[AX] as u64, post[DX] as u64, post[FLAG] as u64, obs_ok as u64],
            "C03 function plane",
            &|| {
                format!(
                    "{{\"kind\": \"fn\", \"fn\": \"{}\", \"ax\": \"{:04x}\", \"dx\": \"{:04x}\", \"operand\": \"{:04x}\", \"flags_in\": \"{:04x}\", \"expected\": {}, \"observed\": {{\"returned_ok\": {}, \"ax\": \"{:04x}\", \"dx\": \"{:04x}\", \"flags\": \"{:04x}\", \"panic\": {}}}}}",
                    name,
                    ax,
                    dx,
                    opnd,
                    fin,
                    json_str(&format!("{:x?}", exp)),
                    obs_ok,
                    post[AX],
                    post[DX],
                    post[FLAG],
                    json_str(&if mask & C_PANIC != 0 { last_panic() } else { String::new() })
                )
            },
        );
    }
}

fn core_fn_plane(rep: &Report) {
    // byte forms: all 2^16 AX × all 256 operands × 4 ops
    par_for(4 * 256, 2, |j| {
        let (o, opnd) = (j / 256, (j % 256) as u16);
        let (name, f, op) = MD8[o];
        let mut vm = VM::new();
        let mut agg = FailAgg::new();
        let mut loc = Local::default();
        let second = lattice8().contains(&(opnd as u8));
        for ax in 0..=0xFFFFu16 {
            one_md(&mut vm, &mut agg, true, name, 8, op, ax, 0x5A5A, opnd, 0x0000, Some(f), None);
            loc.evals += 1;
            if second {
                one_md(&mut vm, &mut agg, true, name, 8, op, ax, 0xA5A5, opnd, 0xFFFF, Some(f), None);
                loc.evals += 1;
            }
        }
        loc.distinct.insert(hnum(&[o as u64, opnd as u64]));
        agg.flush(rep);
        loc.flush(rep);
    });
    rep.count("fn-plane byte mul/imul/div/idiv: exhaustive 2^16 AX x 256 operands x 4 ops", 4 * 256 * 65536);
    // word forms: DX:AX lattice × operand lattice
    let lat = lattice16();
    let n = lat.len();
    par_for(4 * n, 1, |j| {
        let (o, di) = (j / n, j % n);
        let (name, f, op) = MD16[o];
        let dx = lat[di];
        let mut vm = VM::new();
        let mut agg = FailAgg::new();
        let mut loc = Local::default();
        for &ax in &lat {
            for &opnd in &lat {
                let fin = if (ax ^ opnd) & 1 == 0 { 0 } else { 0xFFFF };
                one_md(&mut vm, &mut agg, true, name, 16, op, ax, dx, opnd, fin, None, Some(f));
                loc.evals += 1;
            }
        }
        loc.distinct.insert(hnum(&[4 + o as u64, dx as u64]));
        agg.flush(rep);
        loc.flush(rep);
    });
    rep.count("fn-plane word mul/div lattice triples", (4 * n * n * n) as u64);
    // adjusts
    adjusts_fn_plane(rep);
}

fn adjusts_fn_plane(rep: &Report) {
    let names = ["aaa", "aas", "daa", "das", "aam", "aad", "cbw", "cwd"];
    let funcs: [fn(&mut VM); 8] = [ar::aaa, ar::aas, ar::daa, ar::das, ar::aam, ar::aad, ar::cbw, ar::cwd];
    par_for(8 * 16, 1, |j| {
        let (k, part) = (j / 16, j % 16);
        let name = names[k];
        let f = funcs[k];
        let mut vm = VM::new();
        let mut agg = FailAgg::new();
        let mut loc = Local::default();
        let labels = std::collections::HashMap::new();
        let cx = Ctx { labels: &labels };
        let zero_mem = [0u8; 0];
        let ins = Ins::Simple(SIMPLE.iter().copied().find(|s| *s == name).unwrap());
        for ax in (part * 4096)..((part + 1) * 4096) {
            let ax = ax as u16;
            for fl in 0..8u16 {
                // all combinations of AF, CF and one "everything else" toggle
                let mut fin = 0u16;
                if fl & 1 != 0 {
                    fin |= AF;
                }
                if fl & 2 != 0 {
                    fin |= CF;
                }
                if fl & 4 != 0 {
                    fin |= 0xFFFF & !(AF | CF);
                }
                let mut pre: Regs = [0; 14];
                pre[FLAG] = fin;
                pre[AX] = ax;
                pre[DX] = 0x1234;
                pre[BX] = 0x9ABC;
                load_regs(&mut vm, &pre);
                let r = catch_unwind(AssertUnwindSafe(|| f(&mut vm)));
                let post = read_regs(&vm);
                let outs = exec(&pre, &zero_mem, &cx, &ins);
                let mut mask = 0u32;
                if r.is_err() {
                    mask |= C_PANIC;
                } else {
                    let ok = outs.iter().any(|o| {
                        (1..14).all(|i| o.r[i] == post[i]) && (o.r[FLAG] ^ post[FLAG]) & o.care == 0
                    });
                    if !ok {
                        // components against the closest acceptable outcome (fewest differing components)
                        let mut best = u32::MAX;
                        for o in &outs {
                            let mut m = 0u32;
                            if o.r[AX] != post[AX] || o.r[DX] != post[DX] {
                                m |= C_RESULT;
                            }
                            m |= flag_comps(fin, post[FLAG], o.r[FLAG], o.care) & !C_OTHERFLAGS;
                            if (o.r[FLAG] ^ post[FLAG]) & o.care & !STATUS6 != 0 {
                                m |= C_OTHERFLAGS;
                            }
                            for i in [BX, CX, SP, BP, SI, DI, IP, CS, DS, SS, ES] {
                                if o.r[i] != post[i] {
                                    m |= C_OTHERSTATE;
                                }
                            }
                            if m.count_ones() < best.count_ones() || best == u32::MAX {
                                best = m;
                            }
                        }
                        mask = best;
                    }
                }
                loc.evals += 1;
                loc.distinct.insert(hnum(&[k as u64, (post[FLAG] & STATUS6) as u64, fl as u64]));
                if mask != 0 {
                    report(agg_ref(&mut agg), "adjust", name, mask, true, &[ax as u64, fin as u64], &[post[AX] as u64, post[DX] as u64, post[FLAG] as u64], "C03 function plane", &|| {
                        format!(
                            "{{\"kind\": \"fn\", \"fn\": \"{}\", \"ax\": \"{:04x}\", \"flags_in\": \"{:04x}\", \"acceptable\": {}, \"observed\": {{\"ax\": \"{:04x}\", \"dx\": \"{:04x}\", \"flags\": \"{:04x}\"}}}}",
                            name,
                            ax,
                            fin,
                            json_str(&outs.iter().map(|o| format!("ax={:04x} dx={:04x} flags={:04x}/care={:04x}", o.r[AX], o.r[DX], o.r[FLAG], o.care)).collect::<Vec<_>>().join(" | ")),
                            post[AX],
                            post[DX],
                            post[FLAG]
                        )
                    });
                }
            }
        }
        agg.flush(rep);
        loc.flush(rep);
    });
    rep.count("fn-plane adjust/convert cases: exhaustive 8 instructions x 2^16 AX x {AF,CF,rest}", 8 * 65536 * 8);
}
fn agg_ref(a: &mut FailAgg) -> &mut FailAgg {
    a
}

fn random_fn_plane(rep: &Report, n: usize) {
    let seed = rep.seed;
    let chunks = 64;
    par_for(chunks, 1, |c| {
        let mut rng = Rng::new(seed).fork(0xC03_0000 + c as u64);
        let mut vm = VM::new();
        let mut agg = FailAgg::new();
        let mut loc = Local::default();
        for _ in 0..(n / chunks) {
            let (name, f, op) = MD16[rng.below(4)];
            let opnd = if rng.chance(1, 3) { rng.hostile16() } else { rng.u16() };
            let (dx, ax) = match rng.below(4) {
                // quotient near the overflow boundary: dividend ~ opnd * 2^16 or * 2^15
                0 => {
                    let q = 0xFFFFu32.wrapping_add(rng.below(5) as u32).wrapping_sub(2);
                    let n = (opnd as u32).wrapping_mul(q).wrapping_add(rng.below(3) as u32);
                    ((n >> 16) as u16, n as u16)
                }
                1 => {
                    let q = 0x7FFFu32 + rng.below(4) as u32 - 1;
                    let n = (opnd as i16 as i32).wrapping_mul(q as i32).wrapping_add(rng.below(3) as i32 - 1) as u32;
                    ((n >> 16) as u16, n as u16)
                }
                2 => (rng.hostile16(), rng.hostile16()),
                _ => (rng.u16(), rng.u16()),
            };
            let fin = rng.u16();
            one_md(&mut vm, &mut agg, false, name, 16, op, ax, dx, opnd, fin, None, Some(f));
            loc.evals += 1;
        }
        agg.flush(rep);
        loc.flush(rep);
    });
    rep.count("fn-plane random word mul/div triples", n as u64);
}

fn md_ins(rng: &mut Rng, k: usize, form: usize) -> Ins {
    let bl: Vec<&str> = BLABELS.iter().map(|x| x.0).collect();
    let wl: Vec<&str> = WLABELS.iter().map(|x| x.0).collect();
    if k < 4 {
        Ins::Un([Un::Mul, Un::Imul, Un::Div, Un::Idiv][k], un_form(form % UN_FORMS, rng, &bl, &wl))
    } else {
        Ins::Simple(["aaa", "aas", "daa", "das", "aam", "aad", "cbw", "cwd"][k - 4])
    }
}

fn ins_plane(rep: &Report, per_form: usize, core: bool, seed: u64) {
    let jobs: Vec<(usize, usize)> = (0..12).flat_map(|k| (0..if k < 4 { UN_FORMS } else { 1 }).map(move |f| (k, f))).collect();
    par_for(jobs.len(), 1, |j| {
        let (k, form) = jobs[j];
        let mut rng = Rng::new(seed).fork(0xC03_1000 + j as u64);
        let mut b = bench_with_labels(0x31 + j as u32);
        let mut agg = FailAgg::new();
        let mut loc = Local::default();
        for it in 0..per_form {
            let ins = md_ins(&mut rng, k, form);
            let mut pre = hostile_regs(&mut rng);
            if k < 4 && it % 3 == 0 {
                // small dividends so that not every division faults
                pre[DX] = if rng.chance(1, 2) { 0 } else { 0xFFFF };
            }
            let line = ins.ir();
            let mn = match &ins {
                Ins::Un(op, d) => format!("{}{}", op.name(), d.width().bits()),
                Ins::Simple(s) => s.to_string(),
                _ => "?".to_string(),
            };
            // register operands that alias the implicit accumulator get their own signature
            let alias = match &ins {
                Ins::Un(_, Loc::R8(r)) if matches!(r, R8::AL | R8::AH) => ":operand-aliases-AX",
                Ins::Un(_, Loc::R16(r)) if matches!(r, R16::AX | R16::DX) => ":operand-aliases-DX:AX",
                _ => "",
            };
            let out = check_ins(&mut b, &ins, &line, &pre, &mut agg, core, "C03 instruction plane", &|c| Some(format!("ins:{}{}:{}", mn, alias, c)));
            loc.evals += 1;
            loc.distinct.insert(fnv64(format!("{}|{}|{}", ins.class(), out.alt, out.obs.kind()).as_bytes()));
            if j == 2 && it == 0 {
                rep.sample(format!("ir `{}` pre={} -> {:?}", line, regs_json(&pre), out.obs));
            }
        }
        agg.flush(rep);
        loc.flush(rep);
    });
    rep.count(if core { "instruction-plane core cases" } else { "instruction-plane random cases" }, (jobs.len() * per_form) as u64);
}

/// source plane: the instruction as the user writes it (mnemonic, registers and keywords in either case, synonyms,
/// white space) goes through the assembler; the line it emits is executed and judged like the instruction plane does.
/// Byte IMUL is left out (recorded known finding of the instruction plane).
fn source_plane(rep: &Report, per_form: usize, core: bool, seed: u64) {
    let data_src = "vb0: db 1\npad0: db [0,15]\nvw0: dw 4660\npadA: db [0,4642]\nvb1: db 7\npadB: db [0,12526]\nvw1: dw 9\n";
    let bl = ["vb0", "vb1"];
    let wl = ["vw0", "vw1"];
    let jobs: Vec<(usize, usize)> = (0..12).flat_map(|k| (0..if k < 4 { UN_FORMS } else { 1 }).map(move |f| (k, f))).collect();
    par_for(jobs.len(), 1, |j| {
        let (k, form) = jobs[j];
        let mut rng = Rng::new(seed).fork(0xC03_2000 + j as u64);
        let mut agg = FailAgg::new();
        let mut loc = Local::default();
        let mut b = Bench::new(0x91 + j as u32);
        let mut labels_set = false;
        for it in 0..per_form {
            let ins = if k < 4 { Ins::Un([Un::Mul, Un::Imul, Un::Div, Un::Idiv][k], un_form(form, &mut rng, &bl, &wl)) } else { Ins::Simple(["aaa", "aas", "daa", "das", "aam", "aad", "cbw", "cwd"][k - 4]) };
            if matches!(&ins, Ins::Un(Un::Imul, d) if d.width() == W::B) {
                continue;
            }
            // all-lower, all-upper and mixed spellings take turns
            let mut sp = match it % 3 {
                0 => Spell::plain(),
                1 => Spell::random_syn(rng.fork(it as u64)),
                _ => Spell::upper(),
            };
            let text = format!("{}start:\n{}\n", data_src, ins.src(&mut sp));
            let a = match crate::asm::assemble(&text) {
                Ok(a) => a,
                Err(_) => {
                    loc.counters.entry("source forms rejected by the assembler (filed under C10)").and_modify(|x| *x += 1).or_insert(1);
                    continue;
                }
            };
            if !labels_set {
                for (k, v) in a.data_labels() {
                    b.add_data_label(&k, v);
                }
                b.add_code_label("start", 0);
                labels_set = true;
            }
            if a.code.len() != 1 {
                loc.counters.entry("source forms emitting != 1 line (filed under C11)").and_modify(|x| *x += 1).or_insert(1);
                continue;
            }
            let mut pre = hostile_regs(&mut rng);
            if k < 4 && it % 2 == 0 {
                // small dividends so that not every division faults; both signs
                pre[DX] = if rng.chance(1, 2) { 0 } else { 0xFFFF };
                if rng.chance(1, 2) {
                    pre[AX] = (rng.below(400) as i16 - 200) as u16;
                }
            }
            let mn = match &ins {
                Ins::Un(op, d) => format!("{}{}", op.name(), d.width().bits()),
                Ins::Simple(s) => s.to_string(),
                _ => "?".to_string(),
            };
            let probe = b.step(7, &a.code[0], &pre);
            b.restore_mem();
            if matches!(probe.0, ObsFlow::Rejected(_)) {
                loc.counters.entry("emitted lines rejected by the interpreter (filed under C10)").and_modify(|x| *x += 1).or_insert(1);
                continue;
            }
            let out = check_ins(&mut b, &ins, &a.code[0], &pre, &mut agg, core, "C03 source plane", &|c| Some(format!("src:{}:{}", mn, c)));
            loc.evals += 1;
            loc.distinct.insert(fnv64(format!("src|{}|{}|{}", ins.class(), out.alt, out.obs.kind()).as_bytes()));
            if j == 2 && it == 2 {
                rep.sample(format!("source `{}` -> ir `{}`", ins.src(&mut Spell::upper()), a.code[0]));
            }
        }
        agg.flush(rep);
        loc.flush(rep);
    });
    rep.count(if core { "source-plane core cases" } else { "source-plane random cases" }, (jobs.len() * per_form) as u64);
}

pub fn run(rep: &Report) {
    core_fn_plane(rep);
    ins_plane(rep, 40, true, 0xC03);
    let thorough = rep.thorough();
    random_fn_plane(rep, if thorough { 3_000_000_000 } else { 4_000_000 });
    ins_plane(rep, if thorough { 5000 } else { 80 }, false, rep.seed ^ 0xD1);
    source_plane(rep, 30, true, 0xC035);
    source_plane(rep, if thorough { 3000 } else { 60 }, false, rep.seed ^ 0xD2);
    // histories mix the multiply/divide family with flag-setting neighbours (incoming flags vary along the way);
    // byte IMUL is left out (recorded known finding)
    crate::insplane::mixed_history(rep, if thorough { 40_000 } else { 500 }, 60, rep.seed ^ 0x143, "C03 among all instruction families", "ins", &|i| match i {
        Ins::Un(op, _) => matches!(op, Un::Mul | Un::Imul | Un::Div | Un::Idiv),
        Ins::Simple(s) => ["aaa", "aas", "daa", "das", "aam", "aad", "cbw", "cwd"].contains(s),
        _ => false,
    });
    crate::insplane::history_plane(rep, if thorough { 40_000 } else { 600 }, 80, rep.seed ^ 0x43, false, "C03 lock-step history", "ins", &|rng| {
        let bl: Vec<&str> = crate::c01::BLABELS.iter().map(|x| x.0).collect();
        let wl: Vec<&str> = crate::c01::WLABELS.iter().map(|x| x.0).collect();
        match rng.below(10) {
            0 | 1 | 2 | 3 | 4 => {
                let op = *rng.pick(&[Un::Mul, Un::Imul, Un::Div, Un::Idiv]);
                let mut loc = crate::gen::un_form(rng.below(6), rng, &bl, &wl);
                if op == Un::Imul && loc.width() == W::B {
                    loc = Loc::R16(crate::gen::rand_r16(rng));
                }
                Ins::Un(op, loc)
            }
            5 => Ins::Simple(*rng.pick(&["aaa", "aas", "daa", "das", "aam", "aad", "cbw", "cwd"])),
            6 => Ins::Simple(*rng.pick(&["stc", "clc", "cmc", "std", "cld"])),
            7 => {
                let (d, s) = crate::gen::alu2_form(rng.below(crate::gen::ALU2_FORMS), rng, &bl, &wl);
                Ins::Alu2(*rng.pick(&[Alu2::Add, Alu2::Sub, Alu2::Xor, Alu2::Cmp]), d, s)
            }
            _ => Ins::Mov(Loc::R16(crate::gen::rand_r16(rng)), Src::Imm(rng.hostile16())),
        }
    });
    crate::insplane::edge_plane(rep, if thorough { 300_000 } else { 6000 }, rep.seed ^ 0xE3, false, "C03 at the end of memory", "ins", &|rng| {
        let bl: Vec<&str> = crate::c01::BLABELS.iter().map(|x| x.0).collect();
        let wl: Vec<&str> = crate::c01::WLABELS.iter().map(|x| x.0).collect();
        let op = *rng.pick(&[Un::Mul, Un::Imul, Un::Div, Un::Idiv]);
        Ins::Un(op, crate::gen::un_form(2 + rng.below(4), rng, &bl, &wl))
    });
    crate::c03cli::run(rep);
    rep.sample("fn byte_idiv(ax=0xfff9, operand=0x02) -> AL=0xfd AH=0xff (truncation toward zero)".to_string());
    rep.sample("fn word_div(dx=0x0001, ax=0x0000, operand=0x0001) -> divide error (quotient 0x10000 does not fit)".to_string());
    rep.floor("function-plane evaluations", rep.evals(), 50_000_000);
}

pub const RULE: &str = "function plane: byte mul/imul/div/idiv over all 2^16 AX x all 256 operands (exhaustive), word forms over the DX:AX x operand boundary lattice plus seeded random 48-bit triples biased to the quotient-overflow boundary, adjust/convert instructions over all 2^16 AX x {AF,CF,other flags} (exhaustive); instruction plane: all six operand forms incl. operands aliasing AX/DX; source plane: the same forms as the user writes them (all-lower, all-upper and mixed-case mnemonics/registers/keywords, synonyms) through the assembler, the emitted line executed and judged against the reference (byte IMUL left out: known finding); CLI: divide-error programs end-to-end. Undefined flags masked, documented accept-sets for DAA/DAS/AAA/AAS/AAM and the most negative IDIV quotient. Distinct = (function, operand) resp. (function, DX) resp. (instruction, flags out) classes. History planes: lock-step and mixed-family histories; the divide-error path through the binary with comment lines (ASCII / multi-byte), blank lines and data lines around the division.";
