//! C11 — the assembler's output means what the source says, independent of spelling.
use crate::asm::*;
use crate::ast::*;
use crate::cli::*;
use crate::genprog::*;
use crate::irdecode;
use crate::prog::*;
use crate::report::{Failure, Report};
use crate::util::*;

fn ins_mn(i: &Ins) -> String {
    i.class().split(' ').next().unwrap_or("?").to_string()
}

/// decode one emitted data line: (word?, kind)
fn decode_data(line: &str) -> Option<DataItem> {
    let l = line.trim();
    let (kw, rest) = l.split_once(char::is_whitespace).unwrap_or((l, ""));
    let rest = rest.trim();
    let num = |s: &str| -> Option<i64> {
        let s = s.trim();
        let (neg, s) = match s.strip_prefix('-') {
            Some(x) => (true, x),
            None => (false, s),
        };
        let sl = s.to_ascii_lowercase();
        let v = if let Some(h) = sl.strip_prefix("0x") {
            i64::from_str_radix(h, 16).ok()?
        } else if let Some(b) = sl.strip_prefix("0b") {
            i64::from_str_radix(b, 2).ok()?
        } else {
            sl.parse::<i64>().ok()?
        };
        Some(if neg { -v } else { v })
    };
    match kw.to_ascii_lowercase().as_str() {
        "set" => Some(DataItem::Set(num(rest)? as u16)),
        k @ ("db" | "dw") => {
            let word = k == "dw";
            let m = |v: i64| if word { v as u16 } else { (v as u16) & 0xFF };
            let kind = if rest.starts_with('"') && rest.ends_with('"') && rest.len() >= 2 {
                DK::Str(rest[1..rest.len() - 1].to_string())
            } else if rest.starts_with('[') && rest.ends_with(']') {
                let inner = &rest[1..rest.len() - 1];
                match inner.split_once(',') {
                    Some((v, n)) => DK::Fill(m(num(v)?), num(n)? as u16),
                    None => DK::Zeros(num(inner)? as u16),
                }
            } else {
                DK::Num(m(num(rest)?))
            };
            Some(DataItem::Def(DataDef { label: None, word, kind }))
        }
        _ => None,
    }
}

fn strip_label(d: &DataItem) -> DataItem {
    match d {
        DataItem::Def(x) => {
            let mut y = x.clone();
            y.label = None;
            DataItem::Def(y)
        }
        o => o.clone(),
    }
}

#[derive(Clone, Copy, PartialEq, Eq, Debug)]
enum Dim {
    Case,
    Radix,
    Space,
    Comments,
    All,
}
impl Dim {
    fn name(self) -> &'static str {
        match self {
            Dim::Case => "case",
            Dim::Radix => "radix",
            Dim::Space => "whitespace",
            Dim::Comments => "comments",
            Dim::All => "all",
        }
    }
}

fn render_dim(p: &Program, d: Dim, rng: &Rng) -> String {
    let mut sp = Spell::random(rng.fork(d as u64 + 1));
    sp.upper_prob = if matches!(d, Dim::Case | Dim::All) { 50 } else { 0 };
    sp.radix_mix = matches!(d, Dim::Radix | Dim::All);
    sp.ws_mix = matches!(d, Dim::Space | Dim::All);
    let lay = Layout {
        trailing_newline: true,
        filler_pct: if matches!(d, Dim::Space | Dim::Comments | Dim::All) { 25 } else { 0 },
        pack_pct: if matches!(d, Dim::Space | Dim::All) { 25 } else { 0 },
        comments: matches!(d, Dim::Comments | Dim::All),
    };
    let text = p.render(&mut sp, &lay).text;
    if lay.comments {
        strip_comments(&text)
    } else {
        text
    }
}

fn one_program(rep: &Report, p: &Program, rng: &Rng, core: bool, idx: usize) {
    let plain = p.render_plain().text;
    rep.eval(1);
    let base = match assemble(&plain) {
        Ok(a) => a,
        Err(AsmErr::Panic(_)) => {
            rep.count("assembler panics (filed under C15)", 1);
            return;
        }
        Err(AsmErr::Diag(_, m)) => {
            rep.count("generated programs refused by the assembler (filed under C10 when documented)", 1);
            if idx < 3 {
                rep.note(format!("sample refusal: {}", m.replace('\n', " ")));
            }
            return;
        }
    };
    let flat = p.flatten();
    let img = data_image(&p.data);
    // (1) structural
    let mut fail = |sig: String, what: String, detail: String, src: &str| {
        rep.fail(Failure {
            sig,
            what,
            witness: format!("{{\"kind\": \"src\", \"source\": {}, \"detail\": {}}}", json_str(src), json_str(&detail)),
            core_item: if core { Some(format!("{}|{}", idx, detail)) } else { None },
        });
    };
    if base.code.len() != flat.code.len() {
        fail(
            "sem:count".into(),
            "C11: number of emitted instructions differs from the number of source instructions".into(),
            format!("emitted {} expected {}", base.code.len(), flat.code.len()),
            &plain,
        );
    } else {
        for (i, line) in base.code.iter().enumerate() {
            match irdecode::decode(line) {
                None => rep.inconclusive("emitted line unreadable by the independent decoder"),
                Some(d) => {
                    if !irdecode::same(&d, &flat.code[i].ins) {
                        let mn = ins_mn(&flat.code[i].ins);
                        let what = if ins_mn(&d) != mn { "operation" } else { "operands" };
                        fail(
                            format!("sem:{}:{}", mn, what),
                            format!("C11: emitted instruction has different {} than the source instruction (`{}`)", what, mn),
                            format!("source #{} {:?} -> emitted `{}` decoded {:?}", i, flat.code[i].ins.src(&mut Spell::plain()), line, d),
                            &plain,
                        );
                    }
                    rep.distinct_str(&format!("{}", flat.code[i].ins.class()));
                }
            }
        }
        // label / procedure targets
        for (l, t) in &flat.labels {
            match base.labels.get(l) {
                Some((false, m)) if m == t => {}
                other => fail("sem:label-target".into(), "C11: a code label resolves to a different instruction index".into(), format!("label {} expected {} observed {:?}", l, t, other), &plain),
            }
        }
        for (l, t) in &flat.procs {
            if base.fn_map.get(l) != Some(t) {
                fail("sem:proc-target".into(), "C11: a procedure resolves to a different instruction index".into(), format!("proc {} expected {} observed {:?}", l, t, base.fn_map.get(l)), &plain);
            }
        }
    }
    if !img.overflow {
        if base.data.len() != p.data.len() {
            fail("sem:data-count".into(), "C11: number of emitted data lines differs".into(), format!("{} vs {}", base.data.len(), p.data.len()), &plain);
        } else {
            for (i, d) in base.data.iter().enumerate() {
                match decode_data(d) {
                    None => rep.inconclusive("emitted data line unreadable"),
                    Some(x) => {
                        if x != strip_label(&p.data[i]) {
                            fail("sem:data-line".into(), "C11: emitted data line denotes a different definition".into(), format!("source {:?} emitted `{}`", p.data[i], d), &plain);
                        }
                    }
                }
            }
        }
    }
    // (2) metamorphic: one spelling dimension at a time, then all together
    for d in [Dim::Case, Dim::Radix, Dim::Space, Dim::Comments, Dim::All] {
        let text = render_dim(p, d, rng);
        rep.eval(1);
        match assemble(&text) {
            Ok(a) => {
                let kind = if a.code != base.code {
                    Some(("code-differs", format!("first difference: {:?}", a.code.iter().zip(base.code.iter()).find(|(x, y)| x != y))))
                } else if a.data != base.data {
                    Some(("data-differs", format!("first difference: {:?}", a.data.iter().zip(base.data.iter()).find(|(x, y)| x != y))))
                } else if a.labels != base.labels || a.fn_map != base.fn_map {
                    Some(("labels-differ", String::new()))
                } else {
                    None
                };
                if let Some((k, det)) = kind {
                    fail(format!("meta:{}:{}", d.name(), k), format!("C11: two spellings ({}) of the same program assemble differently", d.name()), det, &text);
                }
            }
            Err(AsmErr::Diag(_, m)) => fail(
                format!("meta:{}:acceptance-differs", d.name()),
                format!("C11: a re-spelling ({}) of an accepted program is refused", d.name()),
                m.replace('\n', " "),
                &text,
            ),
            Err(AsmErr::Panic(_)) => rep.count("assembler panics (filed under C15)", 1),
        }
    }
    if idx == 0 {
        rep.sample(format!("program rendered with all spelling choices: {:?}", render_dim(p, Dim::All, rng)));
    }
}

fn case_sensitive_labels(rep: &Report) {
    // labels differing only in case stay distinct
    let src = "start:\nLoop1:\nstc\nloop1:\nclc\nLOOP1:\njmp loop1\njmp Loop1\njmp LOOP1\n";
    rep.eval(1);
    match assemble(src) {
        Ok(a) => {
            let t: Vec<_> = ["Loop1", "loop1", "LOOP1"].iter().map(|l| a.labels.get(*l).map(|x| x.1)).collect();
            if t != vec![Some(0), Some(1), Some(2)] || a.code[2..] != ["jmp loop1".to_string(), "jmp Loop1".to_string(), "jmp LOOP1".to_string()] {
                rep.fail(Failure {
                    sig: "sem:label-case".into(),
                    what: "C11: labels that differ only in case are not kept distinct".into(),
                    witness: format!("{{\"kind\": \"src\", \"source\": {}, \"targets\": {}}}", json_str(src), json_str(&format!("{:?}", t))),
                    core_item: Some("label-case".into()),
                });
            }
        }
        Err(e) => rep.fail(Failure {
            sig: "sem:label-case".into(),
            what: "C11: labels that differ only in case are rejected".into(),
            witness: format!("{{\"kind\": \"src\", \"source\": {}, \"error\": {}}}", json_str(src), json_str(&format!("{:?}", e))),
            core_item: Some("label-case-rejected".into()),
        }),
    }
}

/// names that differ only in case stay different names wherever they occur: labels next to macro parameters,
/// data labels next to code labels, procedures
fn case_sensitive_names(rep: &Report) {
    // (source, expected code lines)
    let cases: Vec<(&str, Vec<&str>)> = vec![
        ("TOTAL: dw 1\nother: dw 2\nmacro ld(total) -> mov ax,word total mov bx,word TOTAL <-\nstart:\nld(other)\n", vec!["mov ax,word other", "mov bx,word TOTAL"]),
        ("macro pr(n,N) -> mov cx,n mov dx,N <-\nstart:\npr(3,4)\n", vec!["mov cx,3", "mov dx,4"]),
        ("macro jm(done) -> jmp done jmp Done <-\nstart:\nDone:\nstc\nfin:\njm(fin)\n", vec!["stc", "jmp fin", "jmp Done"]),
        ("val: db 1\nVAL: db 2\nVal: db 3\nstart:\nmov al,byte val\nmov bl,byte VAL\nmov cl,byte Val\n", vec!["mov al,byte val", "mov bl,byte VAL", "mov cl,byte Val"]),
        ("def f { stc }\ndef F { clc }\nstart:\ncall f\ncall F\n", vec!["stc", "ret", "clc", "ret", "call f", "call F"]),
    ];
    for (i, (src, want)) in cases.iter().enumerate() {
        rep.eval(1);
        rep.distinct_str(&format!("name-case|{}", i));
        let norm = |l: &str| l.split_whitespace().collect::<Vec<_>>().join(" ").replace(" ,", ",").replace(", ", ",");
        match assemble(src) {
            Ok(a) => {
                let got: Vec<String> = a.code.iter().map(|l| norm(l)).collect();
                let exp: Vec<String> = want.iter().map(|l| norm(l)).collect();
                let offs_ok = i != 3 || (a.labels.get("val").map(|x| x.1) == Some(0) && a.labels.get("VAL").map(|x| x.1) == Some(1) && a.labels.get("Val").map(|x| x.1) == Some(2));
                if got != exp || !offs_ok {
                    rep.fail(Failure {
                        sig: "sem:name-case".into(),
                        what: "C11: names that differ only in case (label vs macro parameter, parameters, data labels, procedures) are not kept distinct".into(),
                        witness: format!("{{\"kind\": \"src\", \"source\": {}, \"expected\": {}, \"emitted\": {}}}", json_str(src), json_str(&format!("{:?}", exp)), json_str(&format!("{:?}", got))),
                        core_item: Some(format!("name-case{}", i)),
                    });
                }
            }
            Err(e) => rep.fail(Failure {
                sig: "sem:name-case".into(),
                what: "C11: a program using names that differ only in case is rejected".into(),
                witness: format!("{{\"kind\": \"src\", \"source\": {}, \"error\": {}}}", json_str(src), json_str(&format!("{:?}", e))),
                core_item: Some(format!("name-case-rejected{}", i)),
            }),
        }
    }
}

/// a macro use emits what its hand expansion emits, for parameter lists of every length 1..=14 (two-digit
/// parameter numbers) and arguments that are prefixes of one another (1, 10, 100, 11): metamorphic, both texts go
/// through the assembler, nothing depends on how the output is spelled
fn wide_macros(rep: &Report, n: usize, seed: u64) {
    par_for(n, 8, |i| {
        let mut rng = Rng::new(seed).fork(0xC11D_0000 + i as u64);
        let np = 1 + i % 14;
        let names: Vec<String> = (0..np).map(|k| format!("q{}", (b'a' + k as u8) as char)).collect();
        let pool = [1u16, 10, 100, 11, 110, 2, 20, 0, 101, 12, 21, 255, 1000, 65535];
        let args: Vec<u16> = (0..np).map(|_| *rng.pick(&pool)).collect();
        let regs = ["ax", "bx", "cx", "dx", "si", "di"];
        let mut body = String::new();
        let mut hand = String::new();
        // the last parameter always, others at random
        let mut used: Vec<usize> = (0..np).filter(|_| rng.chance(1, 2)).collect();
        used.push(np - 1);
        for k in used {
            let op = *rng.pick(&["mov", "add", "xor", "cmp"]);
            let r = *rng.pick(&regs);
            body.push_str(&format!("{} {},{} ", op, r, names[k]));
            hand.push_str(&format!("{} {},{}\n", op, r, args[k]));
        }
        let argt: Vec<String> = args.iter().map(|a| a.to_string()).collect();
        let m = format!("macro wide({}) -> {}<-\nstart:\nstc\nwide({})\nclc\n", names.join(","), body, argt.join(","));
        let h = format!("start:\nstc\n{}clc\n", hand);
        rep.eval(1);
        rep.distinct_str(&format!("wide-macro|{}", np));
        let (am, ah) = (assemble(&m), assemble(&h));
        let bad = match (&am, &ah) {
            (Ok(a), Ok(b)) => a.code != b.code,
            (Err(_), Ok(_)) => true,
            _ => false,
        };
        if bad {
            rep.fail(Failure {
                sig: "sem:macro-parameter-count".into(),
                what: "C11: a macro use does not emit what its hand expansion emits (many parameters / arguments that are prefixes of one another)".into(),
                witness: format!(
                    "{{\"kind\": \"src\", \"source\": {}, \"hand_expanded\": {}, \"emitted\": {}, \"expected\": {}}}",
                    json_str(&m),
                    json_str(&h),
                    json_str(&format!("{:?}", am.as_ref().map(|a| a.code.clone()).map_err(|e| format!("{:?}", e)))),
                    json_str(&format!("{:?}", ah.as_ref().map(|a| a.code.clone()).map_err(|e| format!("{:?}", e))))
                ),
                core_item: None,
            });
        }
    });
    rep.count("macro uses with 1..14 parameters compared with their hand expansion", n as u64);
}

/// the comment layer lives in the binary: its hook trace must show the same lines as the in-process replica
fn cli_comments(rep: &Report, n: usize, seed: u64) {
    par_for(n, 1, |i| {
        let core = i < 10;
        let mut rng = if core { Rng::new(0xC11C).fork(i as u64) } else { Rng::new(seed).fork(0xC11C_0000 + i as u64) };
        let p = structured_program(&mut rng, &SOpts::default());
        let mut sp = Spell::random(rng.fork(9));
        let lay = Layout { trailing_newline: true, filler_pct: 30, pack_pct: 0, comments: true };
        let text = p.render(&mut sp, &lay).text;
        let stripped = strip_comments(&text);
        let a = match assemble(&stripped) {
            Ok(a) => a,
            Err(_) => {
                rep.count("cli comment programs refused in process", 1);
                return;
            }
        };
        let out = run_cli(text.as_bytes(), &CliOpts { env: vec![("VERIF_NOMEM", "1")], ..Default::default() });
        rep.eval(1);
        if !out.clean_exit() {
            rep.inconclusive("cli did not exit cleanly");
            return;
        }
        let parsed = parse_records(&out.stdout);
        let bad = parsed.recs.iter().find(|r| r.line != "hlt" && a.code.get(r.idx) != Some(&r.line));
        if let Some(r) = bad {
            rep.fail(Failure {
                sig: "meta:comments:cli-trace".into(),
                what: "C11: with ';' comments the binary executes different lines than the comment-free program assembles to".into(),
                witness: format!("{{\"kind\": \"cli\", \"source\": {}, \"record\": {}}}", json_str(&text), json_str(&format!("idx {} line {}", r.idx, r.line))),
                core_item: if core { Some(format!("{}", i)) } else { None },
            });
        }
        if parsed.recs.is_empty() {
            rep.inconclusive("no hook records");
        }
        rep.distinct_str(&format!("cli-comments|{}", parsed.recs.len()));
    });
}

/// a constant written as OFFSET of a data label must emit exactly what the literal offset emits; the offset
/// itself comes from the independently computed data image
fn offset_spelling(rep: &Report, n: usize, seed: u64) {
    par_for(n, 8, |i| {
        let core = i < 60;
        let mut rng = if core { Rng::new(0xC110).fork(i as u64) } else { Rng::new(seed).fork(0xC110_0000 + i as u64) };
        let (mut data, bl, wl) = rand_data(&mut rng, 2, 2);
        // sometimes a few hundred bytes (or most of a segment) in front, so that label offsets leave the byte range
        if rng.chance(1, 3) {
            // (the first label then sits exactly at / next to the last offset a byte position can hold)
            let n = match rng.below(8) { 0 | 1 => 40_000 + rng.below(20_000) as u16, 2 | 3 | 4 => *rng.pick(&[253u16, 254, 255, 256, 257]), _ => 200 + rng.below(200) as u16 };
            data.insert(0, DataItem::Def(DataDef { label: None, word: false, kind: DK::Fill(7, n) }));
        }
        if rng.chance(1, 3) {
            data.insert(0, DataItem::Set(rng.u16()));
        }
        let img = data_image(&data);
        if img.overflow {
            return;
        }
        let dtext = Program { data: data.clone(), items: vec![] }.render(&mut Spell::random(rng.fork(1)), &Layout::plain()).text;
        let names: Vec<String> = bl.iter().chain(wl.iter()).cloned().collect();
        let tpls = ["mov ax, {}", "add bx, {}", "cmp word [si], {}", "mov dx, word [bx, {}]", "mov al, byte [{}]", "lea di, word [bp, si, {}]", "sub word es[di, {}], cx", "print mem {} -> 1048575", "print mem : {}", "mov cl, {}", "and byte [bx], {}", "mov bl, {}", "cmp al, {}", "int {}"];
        let mut lit = format!("{}start:\n", dtext);
        let mut off = lit.clone();
        let mut used = 0;
        for name in &names {
            let o = match img.labels.get(name) {
                Some(o) => *o,
                None => continue,
            };
            for _ in 0..3 {
                let t = tpls[rng.below(tpls.len())];
                let byte_pos = t.starts_with("mov cl") || t.starts_with("and byte") || t.starts_with("mov bl") || t.starts_with("cmp al") || t.starts_with("int ");
                if byte_pos && o > 255 {
                    // out of range for the position: both spellings must meet the same fate (a program of its own)
                    let l1 = format!("{}start:\n{}\n", dtext, t.replace("{}", &format!("{}", o)));
                    let o1 = format!("{}start:\n{}\n", dtext, t.replace("{}", &format!("OFFSET {}", name)));
                    rep.eval(1);
                    rep.count("OFFSET-spelled constants out of range for their position (same fate as the literal)", 1);
                    if let (Err(_), Ok(b)) = (assemble(&l1), assemble(&o1)) {
                        rep.fail(Failure {
                            sig: "spelling:offset:out-of-range-accepted".into(),
                            what: "C11: a constant refused as a number (out of range for a byte position) is accepted when written as OFFSET of a label with that offset".into(),
                            witness: format!("{{\"kind\": \"src\", \"source\": {}, \"literal_spelling\": {}, \"emitted_offset\": {}}}", json_str(&o1), json_str(&l1), json_str(&format!("{:?}", b.code))),
                            core_item: if core { Some(format!("{}|oor", i)) } else { None },
                        });
                    }
                    continue;
                }
                lit.push_str(&t.replace("{}", &format!("{}", o)));
                lit.push('\n');
                off.push_str(&t.replace("{}", &format!("{} {}", if rng.chance(1, 2) { "offset" } else { "OFFSET" }, name)));
                off.push('\n');
                used += 1;
            }
        }
        if used == 0 {
            return;
        }
        rep.eval(1);
        // half of the time through a context that processed another program before and was clear()ed
        let noise = "set 0x20\nna: db [1,10]\nnb: dw \"xy\"\nmacro nm(a) -> mov ax,a <-\ndef nf { ret }\nstart:\nnl: jmp nl\nnm(5)\n";
        let reused = i % 2 == 1;
        let asm2 = |t: &str| if reused { assemble_after_clear(noise, t) } else { assemble(t) };
        match (assemble(&lit), asm2(&off)) {
            (Ok(a), Ok(b)) => {
                rep.count("OFFSET-spelled constants compared with their literal spelling", used as u64);
                rep.distinct_str(&format!("offset-spelling|{}", used));
                if a.code != b.code {
                    let k = (0..a.code.len().min(b.code.len())).find(|k| a.code[*k] != b.code[*k]).unwrap_or(0);
                    rep.fail(Failure {
                        sig: "spelling:offset:constant".into(),
                        what: "C11: a constant written as OFFSET of a data label emits a different instruction than the same constant written as a number".into(),
                        witness: format!("{{\"kind\": \"src\", \"source\": {}, \"literal_spelling\": {}, \"emitted_offset\": {}, \"emitted_literal\": {}}}", json_str(&off), json_str(&lit), json_str(b.code.get(k).map(|s| s.as_str()).unwrap_or("")), json_str(a.code.get(k).map(|s| s.as_str()).unwrap_or(""))),
                        core_item: if core { Some(format!("{}|{}", i, k)) } else { None },
                    });
                }
            }
            (Ok(_), Err(e)) => {
                rep.fail(Failure {
                    sig: "spelling:offset:rejected".into(),
                    what: "C11: a program is accepted with a literal constant but refused when the same constant is written as OFFSET of a data label".into(),
                    witness: format!("{{\"kind\": \"src\", \"source\": {}, \"error\": {}}}", json_str(&off), json_str(&format!("{:?}", e))),
                    core_item: if core { Some(format!("{}", i)) } else { None },
                });
            }
            _ => rep.count("offset-spelling programs refused in their literal form (not judged)", 1),
        }
        if i == 0 {
            rep.sample(format!("offset spelling {:?} vs literal {:?}", off, lit));
        }
    });
}

pub fn run(rep: &Report) {
    case_sensitive_labels(rep);
    case_sensitive_names(rep);
    wide_macros(rep, if rep.thorough() { 20_000 } else { 280 }, rep.seed ^ 0x11D);
    offset_spelling(rep, if rep.thorough() { 40_000 } else { 600 }, rep.seed);
    // deterministic core
    par_for(400, 8, |i| {
        let mut rng = Rng::new(0xC11).fork(i as u64);
        let p = rand_program_any(&mut rng, 4 + i % 12);
        one_program(rep, &p, &rng, true, i);
    });
    let t = rep.thorough();
    let n = if t { 200_000 } else { 2500 };
    let seed = rep.seed;
    par_for(n, 16, |i| {
        let mut rng = Rng::new(seed).fork(0xC11_0000 + i as u64);
        let p = if i % 4 == 0 { structured_program(&mut rng, &SOpts { prints: true, int3: true, ..Default::default() }) } else { rand_program_any(&mut rng, 3 + i % 20) };
        one_program(rep, &p, &rng, false, 1000 + i);
    });
    cli_comments(rep, if t { 1500 } else { 40 }, rep.seed);
    rep.floor("programs assembled", rep.evals(), 5000);
}

pub const RULE: &str = "random programs rendered from an abstract syntax tree (all instruction classes and operand forms, data definitions, labels, procedures, macros) under random spelling choices. (1) structural: every emitted line is decoded by an independent reader and must denote the same operation with the same operands in the same roles (constants modulo operand width, xchg unordered, synonyms folded), one per source instruction in source order, labels/procedures resolving to the same instruction; data lines likewise. (2) metamorphic: re-renderings varying one dimension at a time (case, radix, white space / line breaks / several instructions per line, ';' comments through the driver's stripping rule) and all together must emit identical code, data and label maps; constants written as OFFSET of a data label (offset taken from the independently computed data image) must emit what the literal number emits, in immediate, displacement, direct-address and print positions, also when the context was used for another program before and clear()ed. Labels differing only in case stay distinct, also next to macro parameters, as data labels and as procedure names. The comment layer is cross-checked on the real binary's hook trace. Distinct = instruction class resp. CLI trace length. Macro uses with 1..14 parameters against their hand expansion; OFFSET of labels behind hundreds / tens of thousands of data bytes, with the same-fate rule for positions the offset does not fit. Filler sizes 253..257 put the first label exactly at / next to offset 255.";
