//! C02 — AND/OR/XOR/TEST/NOT and SHL/SAL/SHR/SAR/ROL/ROR/RCL/RCR for every value and count 0..255.
use crate::asm;
use crate::ast::*;
use crate::c01::{bench_with_labels, BLABELS, WLABELS};
use crate::fnplane::*;
use crate::gen::*;
use crate::insplane::check_ins;
use crate::machine::*;
use crate::ref8086::*;
use crate::report::{hnum, FailAgg, Local, Report};
use crate::util::*;
use emulator_8086_lib::instructions::bit_manipulation as bm;
use emulator_8086_lib::VM;
use std::panic::{catch_unwind, AssertUnwindSafe};

type F8 = fn(&mut VM, u8, u8) -> u8;
type F16 = fn(&mut VM, u16, u16) -> u16;

const LOGIC8: [(&str, F8, Alu2); 4] =
    [("byte_and", bm::byte_and, Alu2::And), ("byte_or", bm::byte_or, Alu2::Or), ("byte_xor", bm::byte_xor, Alu2::Xor), ("byte_test", bm::byte_test, Alu2::Test)];
const LOGIC16: [(&str, F16, Alu2); 4] =
    [("word_and", bm::word_and, Alu2::And), ("word_or", bm::word_or, Alu2::Or), ("word_xor", bm::word_xor, Alu2::Xor), ("word_test", bm::word_test, Alu2::Test)];
const SH8: [(&str, F8, Sh); 7] = [
    ("byte_sal", bm::byte_sal, Sh::Shl),
    ("byte_shr", bm::byte_shr, Sh::Shr),
    ("byte_sar", bm::byte_sar, Sh::Sar),
    ("byte_rol", bm::byte_rol, Sh::Rol),
    ("byte_ror", bm::byte_ror, Sh::Ror),
    ("byte_rcl", bm::byte_rcl, Sh::Rcl),
    ("byte_rcr", bm::byte_rcr, Sh::Rcr),
];
const SH16: [(&str, F16, Sh); 7] = [
    ("word_sal", bm::word_sal, Sh::Shl),
    ("word_shr", bm::word_shr, Sh::Shr),
    ("word_sar", bm::word_sar, Sh::Sar),
    ("word_rol", bm::word_rol, Sh::Rol),
    ("word_ror", bm::word_ror, Sh::Ror),
    ("word_rcl", bm::word_rcl, Sh::Rcl),
    ("word_rcr", bm::word_rcr, Sh::Rcr),
];

fn logic_expect(op: Alu2, w: u32, a: u32, b: u32) -> (u32, u16) {
    let r = match op {
        Alu2::And | Alu2::Test => a & b,
        Alu2::Or => a | b,
        _ => a ^ b,
    };
    (if op == Alu2::Test { a } else { r }, szp(w, r))
}

fn one_logic(vm: &mut VM, agg: &mut FailAgg, core: bool, name: &'static str, w: u32, op: Alu2, a: u32, b: u32, fin: u16, call: &dyn Fn(&mut VM) -> u32) {
    let pre = read_regs(vm);
    let r = catch_unwind(AssertUnwindSafe(|| call(vm)));
    let (eres, ef) = logic_expect(op, w, a, b);
    let (mask, ores, fout) = match r {
        Err(_) => (C_PANIC, 0, vm.arch.flag),
        Ok(res) => {
            let fout = vm.arch.flag;
            // CF=OF=0, SF/ZF/PF from result, AF not compared
            let mut m = flag_comps(fin, fout, ef, STATUS6 & !AF);
            if res != eres {
                m |= C_RESULT;
            }
            if other_regs_changed(vm, &pre, &[]) {
                m |= C_OTHERSTATE;
            }
            (m, res, fout)
        }
    };
    if mask != 0 {
        report(agg, "bit", name, mask, core, &[a as u64, b as u64, fin as u64], &[ores as u64, fout as u64], "C02 function plane", &|| {
            format!(
                "{{\"kind\": \"fn\", \"fn\": \"{}\", \"a\": {}, \"b\": {}, \"flags_in\": \"{:04x}\", \"expected\": {{\"result\": {}, \"status_flags(AF ignored)\": \"{:04x}\"}}, \"observed\": {{\"result\": {}, \"flags\": \"{:04x}\"}}}}",
                name, a, b, fin, eres, ef, ores, fout
            )
        });
        load_regs(vm, &[0u16; 14]);
    }
}

fn one_shift(vm: &mut VM, agg: &mut FailAgg, core: bool, name: &'static str, w: u32, op: Sh, a: u32, n: u32, fin: u16, call: &dyn Fn(&mut VM) -> u32) {
    let pre = read_regs(vm);
    let r = catch_unwind(AssertUnwindSafe(|| call(vm)));
    let (mask, ores, fout, eres, eflag, care) = {
        // expected
        let (eres, eflag, care) = if n == 0 {
            (a, fin, 0xFFFFu16)
        } else {
            let o = shift(op, w, a, n, fin & CF != 0);
            let mut f = fin;
            let mut care = 0xFFFFu16;
            f = (f & !CF) | if o.cf { CF } else { 0 };
            if n == 1 {
                f = (f & !OF) | if o.of1 { OF } else { 0 };
            } else {
                care &= !OF;
            }
            if !op.is_rotate() {
                f = (f & !(SF | ZF | PF)) | szp(w, o.res);
                care &= !AF;
            }
            (o.res, f, care)
        };
        match r {
            Err(_) => (C_PANIC, 0, vm.arch.flag, eres, eflag, care),
            Ok(res) => {
                let fout = vm.arch.flag;
                let mut m = 0u32;
                let d = (fout ^ eflag) & care;
                for (i, bit) in [CF, PF, AF, ZF, SF, OF].iter().enumerate() {
                    if d & bit != 0 {
                        m |= 1 << (i + 1);
                    }
                }
                if d & !STATUS6 != 0 {
                    m |= C_OTHERFLAGS;
                }
                if res != eres {
                    m |= C_RESULT;
                }
                if other_regs_changed(vm, &pre, &[]) {
                    m |= C_OTHERSTATE;
                }
                (m, res, fout, eres, eflag, care)
            }
        }
    };
    if mask != 0 {
        // signature carries the count class so that "count 0", "count = width" and "general" are separate findings
        let ci = if n == 0 {
            0
        } else if n == 1 {
            1
        } else if n < w {
            2
        } else if n == w {
            3
        } else if n == w + 1 {
            4
        } else {
            5
        };
        let fname = &fnames(name)[ci];
        report(agg, "bit", fname, mask, core, &[a as u64, n as u64, fin as u64], &[ores as u64, fout as u64], "C02 function plane", &|| {
            format!(
                "{{\"kind\": \"fn\", \"fn\": \"{}\", \"value\": {}, \"count\": {}, \"flags_in\": \"{:04x}\", \"expected\": {{\"result\": {}, \"flags\": \"{:04x}\", \"compared_mask\": \"{:04x}\"}}, \"observed\": {{\"result\": {}, \"flags\": \"{:04x}\", \"panic\": {}}}}}",
                name, a, n, fin, eres, eflag, care, ores, fout, json_str(&if mask & C_PANIC != 0 { last_panic() } else { String::new() })
            )
        });
        load_regs(vm, &[0u16; 14]);
    }
}

const FLAG_BASES: [u16; 2] = [0x0000, 0xFFFE];

const CLASSES: [&str; 6] = ["count0", "count1", "count<width", "count=width", "count=width+1", "count>width+1"];
thread_local! {
    static FNAMES: std::cell::RefCell<std::collections::HashMap<&'static str, &'static [String; 6]>> = std::cell::RefCell::new(std::collections::HashMap::new());
}
/// "<fn>:<count class>" strings, built once per thread and leaked (14 functions x 6 classes)
fn fnames(name: &'static str) -> &'static [String; 6] {
    FNAMES.with(|m| {
        let mut m = m.borrow_mut();
        *m.entry(name).or_insert_with(|| {
            let arr: [String; 6] = std::array::from_fn(|i| format!("{}:{}", name, CLASSES[i]));
            Box::leak(Box::new(arr))
        })
    })
}

/// Call-order workload: the same shift/rotate issued back to back in the other operand width, and twice in a row
/// from different flag words -- whatever one call leaves behind (a memo, a reused buffer) must not reach the next.
/// Every call is judged by the same oracle as the sweeps.
fn call_order_plane(rep: &Report) {
    let jobs: Vec<(usize, u32)> = (0..7).flat_map(|o| (0..256u32).map(move |n| (o, n))).collect();
    par_for(jobs.len(), 4, |j| {
        let (o, n) = jobs[j];
        let (n8, f8, op) = SH8[o];
        let (n16, f16, _) = SH16[o];
        let mut vm = VM::new();
        let mut agg = FailAgg::new();
        let mut loc = Local::default();
        for a in 0..256u32 {
            for cin in 0..2u16 {
                let fin = 0x0811u16 & !CF | cin;
                // byte then word, word then byte, then each once more from the other flag base
                for order in 0..2 {
                    for k in 0..2 {
                        let byte_now = (order + k) % 2 == 0;
                        vm.arch.flag = fin;
                        if byte_now {
                            one_shift(&mut vm, &mut agg, true, n8, 8, op, a, n, fin, &|vm| f8(vm, a as u8, n as u8) as u32);
                        } else {
                            one_shift(&mut vm, &mut agg, true, n16, 16, op, a, n, fin, &|vm| f16(vm, a as u16, n as u16) as u32);
                        }
                        loc.evals += 1;
                    }
                }
                // the identical call twice in a row, the second from a flag word that differs outside CF
                let fin2 = (0xF7EEu16 & !CF) | cin;
                vm.arch.flag = fin;
                one_shift(&mut vm, &mut agg, true, n16, 16, op, a | 0x8000, n, fin, &|vm| f16(vm, (a | 0x8000) as u16, n as u16) as u32);
                vm.arch.flag = fin2;
                one_shift(&mut vm, &mut agg, true, n16, 16, op, a | 0x8000, n, fin2, &|vm| f16(vm, (a | 0x8000) as u16, n as u16) as u32);
                loc.evals += 2;
            }
        }
        loc.distinct.insert(hnum(&[0xCA11, o as u64, n as u64]));
        agg.flush(rep);
        loc.flush(rep);
    });
    rep.count("fn-plane call-order cases (7 ops x 256 counts x 256 values x cin x alternating widths / repeated calls)", 7 * 256 * 256 * 2 * 6);
}

fn core_fn_plane(rep: &Report) {
    // logic bytes exhaustive
    let jobs: Vec<(usize, u32)> = (0..4).flat_map(|o| (0..256u32).map(move |a| (o, a))).collect();
    par_for(jobs.len(), 8, |j| {
        let (o, a) = jobs[j];
        let (name, f, op) = LOGIC8[o];
        let mut vm = VM::new();
        let mut agg = FailAgg::new();
        let mut loc = Local::default();
        for b in 0..256u32 {
            for fin in [0x0000u16, 0xFFFF, 0x0811] {
                vm.arch.flag = fin;
                one_logic(&mut vm, &mut agg, true, name, 8, op, a, b, fin, &|vm| f(vm, a as u8, b as u8) as u32);
                loc.evals += 1;
                loc.distinct.insert(hnum(&[o as u64, (vm.arch.flag & STATUS6) as u64, fin as u64]));
            }
        }
        agg.flush(rep);
        loc.flush(rep);
    });
    rep.count("fn-plane byte logic cases (exhaustive 4 ops x 2^16 x 3 flag words)", 4 * 65536 * 3);
    // logic words lattice
    let lat = lattice16();
    let n = lat.len();
    par_for(4 * n, 4, |j| {
        let (o, ai) = (j / n, j % n);
        let (name, f, op) = LOGIC16[o];
        let a = lat[ai];
        let mut vm = VM::new();
        let mut agg = FailAgg::new();
        let mut loc = Local::default();
        for &b in &lat {
            for fin in [0x0000u16, 0xFFFF] {
                vm.arch.flag = fin;
                one_logic(&mut vm, &mut agg, true, name, 16, op, a as u32, b as u32, fin, &|vm| f(vm, a, b) as u32);
                loc.evals += 1;
                loc.distinct.insert(hnum(&[16 + o as u64, (vm.arch.flag & STATUS6) as u64, fin as u64]));
            }
        }
        agg.flush(rep);
        loc.flush(rep);
    });
    rep.count("fn-plane word logic lattice cases", (4 * n * n * 2) as u64);
    // shifts bytes exhaustive: 7 ops × 256 values × 256 counts × cin × flag bases
    let jobs: Vec<(usize, u32)> = (0..7).flat_map(|o| (0..256u32).map(move |a| (o, a))).collect();
    par_for(jobs.len(), 4, |j| {
        let (o, a) = jobs[j];
        let (name, f, op) = SH8[o];
        let mut vm = VM::new();
        let mut agg = FailAgg::new();
        let mut loc = Local::default();
        for n in 0..256u32 {
            for base in FLAG_BASES {
                for cin in 0..2u16 {
                    let fin = (base & !CF) | cin;
                    vm.arch.flag = fin;
                    one_shift(&mut vm, &mut agg, true, name, 8, op, a, n, fin, &|vm| f(vm, a as u8, n as u8) as u32);
                    loc.evals += 1;
                    loc.distinct.insert(hnum(&[o as u64, n as u64, (vm.arch.flag & (CF | OF)) as u64]));
                }
            }
        }
        agg.flush(rep);
        loc.flush(rep);
    });
    rep.count("fn-plane byte shift/rotate cases (exhaustive 7 ops x 256 values x 256 counts x cin x 2 bases)", 7 * 65536 * 4);
    // shifts words: lattice × all counts × cin
    par_for(7 * n, 2, |j| {
        let (o, ai) = (j / n, j % n);
        let (name, f, op) = SH16[o];
        let a = lat[ai] as u32;
        let mut vm = VM::new();
        let mut agg = FailAgg::new();
        let mut loc = Local::default();
        for cnt in 0..256u32 {
            for base in FLAG_BASES {
                for cin in 0..2u16 {
                    let fin = (base & !CF) | cin;
                    vm.arch.flag = fin;
                    one_shift(&mut vm, &mut agg, true, name, 16, op, a, cnt, fin, &|vm| f(vm, a as u16, cnt as u16) as u32);
                    loc.evals += 1;
                    loc.distinct.insert(hnum(&[8 + o as u64, cnt as u64, (vm.arch.flag & (CF | OF)) as u64]));
                }
            }
        }
        agg.flush(rep);
        loc.flush(rep);
    });
    rep.count("fn-plane word shift/rotate lattice cases (all 256 counts)", (7 * n * 256 * 4) as u64);
}

fn random_fn_plane(rep: &Report, n: usize) {
    let seed = rep.seed;
    let chunks = 64;
    par_for(chunks, 1, |c| {
        let mut rng = Rng::new(seed).fork(0xC02_0000 + c as u64);
        let mut vm = VM::new();
        let mut agg = FailAgg::new();
        let mut loc = Local::default();
        for _ in 0..(n / chunks) {
            let fin = rng.u16();
            vm.arch.flag = fin;
            if rng.chance(1, 3) {
                let (name, f, op) = LOGIC16[rng.below(4)];
                let (a, b) = (rng.u16(), rng.u16());
                one_logic(&mut vm, &mut agg, false, name, 16, op, a as u32, b as u32, fin, &|vm| f(vm, a, b) as u32);
            } else {
                let (name, f, op) = SH16[rng.below(7)];
                let a = rng.u16();
                let cnt = if rng.chance(1, 2) { rng.below(20) as u16 } else { rng.below(256) as u16 };
                one_shift(&mut vm, &mut agg, false, name, 16, op, a as u32, cnt as u32, fin, &|vm| f(vm, a, cnt) as u32);
            }
            loc.evals += 1;
        }
        agg.flush(rep);
        loc.flush(rep);
    });
    rep.count("fn-plane random word cases", n as u64);
}

/// thorough: all 65536 words × 256 counts × cin × 7 ops; all word pairs × 4 logic ops
fn exhaustive_word(rep: &Report, budget_s: f64) {
    let t0 = std::time::Instant::now();
    let stopped = std::sync::atomic::AtomicBool::new(false);
    let done = std::sync::atomic::AtomicU64::new(0);
    par_for(7 * 65536, 64, |j| {
        if stopped.load(std::sync::atomic::Ordering::Relaxed) {
            return;
        }
        if j % 512 == 0 && t0.elapsed().as_secs_f64() > budget_s {
            stopped.store(true, std::sync::atomic::Ordering::Relaxed);
            return;
        }
        let (o, a) = (j / 65536, (j % 65536) as u32);
        let (name, f, op) = SH16[o];
        let mut vm = VM::new();
        let mut agg = FailAgg::new();
        for cnt in 0..256u32 {
            for cin in 0..2u16 {
                let fin = 0xF002 | cin;
                vm.arch.flag = fin;
                one_shift(&mut vm, &mut agg, false, name, 16, op, a, cnt, fin, &|vm| f(vm, a as u16, cnt as u16) as u32);
            }
        }
        agg.flush(rep);
        done.fetch_add(512, std::sync::atomic::Ordering::Relaxed);
    });
    let d = done.load(std::sync::atomic::Ordering::Relaxed);
    rep.eval(d);
    rep.count("fn-plane exhaustive word shift/rotate cases (thorough)", d);
    let done2 = std::sync::atomic::AtomicU64::new(0);
    par_for(4 * 65536, 64, |j| {
        if stopped.load(std::sync::atomic::Ordering::Relaxed) {
            return;
        }
        if j % 512 == 0 && t0.elapsed().as_secs_f64() > budget_s {
            stopped.store(true, std::sync::atomic::Ordering::Relaxed);
            return;
        }
        let (o, a) = (j / 65536, (j % 65536) as u32);
        let (name, f, op) = LOGIC16[o];
        let mut vm = VM::new();
        let mut agg = FailAgg::new();
        let fin = 0xFFFFu16;
        for b in 0..65536u32 {
            vm.arch.flag = fin;
            let res = f(&mut vm, a as u16, b as u16) as u32;
            let (eres, ef) = logic_expect(op, 16, a, b);
            if res != eres || (vm.arch.flag ^ ((fin & !STATUS6) | ef)) & !AF != 0 {
                vm.arch.flag = fin;
                one_logic(&mut vm, &mut agg, false, name, 16, op, a, b, fin, &|vm| f(vm, a as u16, b as u16) as u32);
            }
        }
        agg.flush(rep);
        done2.fetch_add(65536, std::sync::atomic::Ordering::Relaxed);
    });
    let d2 = done2.load(std::sync::atomic::Ordering::Relaxed);
    rep.eval(d2);
    rep.count("fn-plane exhaustive word logic pairs (thorough)", d2);
    if stopped.load(std::sync::atomic::Ordering::Relaxed) {
        rep.note("thorough exhaustive word sweeps stopped by the time budget".to_string());
    } else {
        rep.note("thorough exhaustive word sweeps completed".to_string());
    }
}

const SH_FORMS: usize = 12;
fn bit_ins(rng: &mut Rng, kind: usize, form: usize, core_counts: bool) -> Ins {
    let bl: Vec<&str> = BLABELS.iter().map(|x| x.0).collect();
    let wl: Vec<&str> = WLABELS.iter().map(|x| x.0).collect();
    match kind {
        0..=3 => {
            let (d, s) = alu2_form(form % ALU2_FORMS, rng, &bl, &wl);
            Ins::Alu2(ALL_LOGIC2[kind], d, s)
        }
        4 => Ins::Un(Un::Not, un_form(form % UN_FORMS, rng, &bl, &wl)),
        _ => {
            let op = ALL_SH[kind - 5];
            let d = un_form((form / 2) % UN_FORMS, rng, &bl, &wl);
            let cnt = if form % 2 == 0 {
                let n = if core_counts || rng.chance(1, 2) {
                    *rng.pick(&[0u8, 1, 2, 7, 8, 9, 10, 15, 16, 17, 18, 31, 32, 33, 255])
                } else {
                    rng.u8()
                };
                Cnt::Imm(n)
            } else {
                Cnt::CL
            };
            Ins::Sh(op, d, cnt)
        }
    }
}

fn mn_of(ins: &Ins) -> String {
    match ins {
        Ins::Alu2(op, ..) => op.name().to_string(),
        Ins::Un(op, ..) => op.name().to_string(),
        Ins::Sh(op, _, c) => {
            let _ = c;
            op.name().to_string()
        }
        _ => "?".to_string(),
    }
}

fn ins_plane(rep: &Report, per_form: usize, core: bool, seed: u64) {
    let jobs: Vec<(usize, usize)> = (0..12)
        .flat_map(|k| {
            let nf = if k < 4 {
                ALU2_FORMS
            } else if k == 4 {
                UN_FORMS
            } else {
                SH_FORMS
            };
            (0..nf).map(move |f| (k, f))
        })
        .collect();
    par_for(jobs.len(), 1, |j| {
        let (k, form) = jobs[j];
        let mut rng = Rng::new(seed).fork(0xC02_1000 + j as u64);
        let mut b = bench_with_labels(0x91 + j as u32);
        let mut agg = FailAgg::new();
        let mut loc = Local::default();
        for it in 0..per_form {
            let ins = bit_ins(&mut rng, k, form, core);
            let mut pre = hostile_regs(&mut rng);
            if let Ins::Sh(_, _, Cnt::CL) = &ins {
                // CL counts: boundary-heavy
                if it % 2 == 0 {
                    let c = *rng.pick(&[0u16, 1, 7, 8, 9, 15, 16, 17, 18, 32, 255]);
                    pre[CX] = (pre[CX] & 0xFF00) | c;
                }
            }
            let line = ins.ir();
            let mn = mn_of(&ins);
            let out = check_ins(&mut b, &ins, &line, &pre, &mut agg, core, "C02 instruction plane", &|c| Some(format!("ins:{}:{}", mn, c)));
            loc.evals += 1;
            loc.distinct.insert(fnv64(format!("{}|{}", ins.class(), out.alt).as_bytes()));
            if j == 70 && it == 0 {
                rep.sample(format!("ir `{}` pre={}", line, regs_json(&pre)));
            }
        }
        agg.flush(rep);
        loc.flush(rep);
    });
    rep.count(if core { "instruction-plane core cases" } else { "instruction-plane random cases" }, (jobs.len() * per_form) as u64);
}

fn source_plane(rep: &Report, per_form: usize, core: bool, seed: u64) {
    let data_src = "vb0: db 1\npad0: db [0,15]\nvw0: dw 4660\npadA: db [0,4642]\nvb1: db 7\npadB: db [0,12524]\nvw1: dw 9\n";
    let bl = ["vb0", "vb1"];
    let wl = ["vw0", "vw1"];
    let jobs: Vec<(usize, usize)> = (0..12)
        .flat_map(|k| {
            let nf = if k < 4 {
                ALU2_FORMS
            } else if k == 4 {
                UN_FORMS
            } else {
                SH_FORMS
            };
            (0..nf).map(move |f| (k, f))
        })
        .collect();
    par_for(jobs.len(), 1, |j| {
        let (k, form) = jobs[j];
        let mut rng = Rng::new(seed).fork(0xC02_2000 + j as u64);
        let mut agg = FailAgg::new();
        let mut loc = Local::default();
        let mut b = Bench::new(0xA7 + j as u32);
        let mut labels_set = false;
        for it in 0..per_form {
            let ins = match k {
                0..=3 => {
                    let (d, s) = alu2_form(form, &mut rng, &bl, &wl);
                    Ins::Alu2(ALL_LOGIC2[k], d, s)
                }
                4 => Ins::Un(Un::Not, un_form(form, &mut rng, &bl, &wl)),
                _ => {
                    let d = un_form(form / 2, &mut rng, &bl, &wl);
                    let cnt = if form % 2 == 0 { Cnt::Imm(*rng.pick(&[0u8, 1, 3, 8, 9, 16, 17, 200])) } else { Cnt::CL };
                    Ins::Sh(ALL_SH[k - 5], d, cnt)
                }
            };
            let mut sp = if it % 2 == 0 { Spell::plain() } else { Spell::random_syn(rng.fork(it as u64)) };
            let text = format!("{}start:\n{}\n", data_src, ins.src(&mut sp));
            let a = match asm::assemble(&text) {
                Ok(a) => a,
                Err(_) => {
                    *loc.counters.entry("source forms rejected by the assembler (filed under C10)").or_insert(0) += 1;
                    continue;
                }
            };
            if !labels_set {
                for (k, v) in a.data_labels() {
                    b.add_data_label(&k, v);
                }
                b.add_code_label("start", 0);
                labels_set = true;
            }
            if a.code.len() != 1 {
                *loc.counters.entry("source forms emitting != 1 line (filed under C11)").or_insert(0) += 1;
                continue;
            }
            let pre = hostile_regs(&mut rng);
            let probe = b.step(7, &a.code[0], &pre);
            b.restore_mem();
            let mut line = a.code[0].clone();
            if matches!(probe.0, ObsFlow::Rejected(_)) {
                // C10's finding; exercise the operand form through the hand-rendered line instead
                *loc.counters.entry("emitted lines rejected by the interpreter (filed under C10; hand-rendered IR used instead)").or_insert(0) += 1;
                line = ins.ir();
            }
            let mn = mn_of(&ins);
            let out = check_ins(&mut b, &ins, &line, &pre, &mut agg, core, "C02 source plane", &|c| Some(format!("src:{}:{}", mn, c)));
            loc.evals += 1;
            loc.distinct.insert(fnv64(format!("src|{}|{}", ins.class(), out.alt).as_bytes()));
            if j == 5 && it == 1 {
                rep.sample(format!("source `{}` -> ir `{}`", ins.src(&mut Spell::plain()), line));
            }
        }
        agg.flush(rep);
        loc.flush(rep);
    });
}

/// the lenient direction: a shift / rotate count is an unsigned byte number or CL. Every other register in the count
/// position must be refused by the assembler -- accepted, the line would run as a shift by CL (or by something else)
fn count_operand_must_be_cl(rep: &Report) {
    let data = "vbq: db 1\nvwq: dw 2\n";
    let mut n = 0u64;
    for mn in ["shl", "sal", "shr", "sar", "rol", "ror", "rcl", "rcr", "SHL", "ROR"] {
        for dst in ["ax", "bl", "word [bx]", "byte [si]", "word vwq", "byte vbq", "word es[di,2]"] {
            for cnt in ["al", "ah", "bl", "bh", "ch", "dl", "dh", "DL", "cx", "ax", "dx"] {
                n += 1;
                let text = format!("{}start:\n{} {}, {}\n", data, mn, dst, cnt);
                rep.eval(1);
                if let Ok(a) = crate::asm::assemble(&text) {
                    rep.fail(crate::report::Failure {
                        sig: format!("src:{}:count-register-accepted", mn.to_ascii_lowercase()),
                        what: "C02: a shift / rotate whose count is written as a register other than CL is accepted by the assembler".into(),
                        witness: format!("{{\"kind\": \"src\", \"source\": {}, \"emitted\": {}}}", json_str(&text), json_str(&format!("{:?}", a.code))),
                        core_item: Some(format!("{}|{}|{}", mn, dst, cnt)),
                    });
                }
            }
        }
    }
    // control: the documented forms are accepted
    for (dst, cnt) in [("ax", "cl"), ("word vwq", "CL"), ("byte vbq", "3"), ("word [bx]", "cl")] {
        if crate::asm::assemble(&format!("{}start:\nrol {}, {}\n", data, dst, cnt)).is_err() {
            rep.inconclusive("documented shift form refused");
        }
    }
    rep.count("shift / rotate lines with a count register other than CL (must be refused)", n);
}

pub fn run(rep: &Report) {
    count_operand_must_be_cl(rep);
    core_fn_plane(rep);
    call_order_plane(rep);
    ins_plane(rep, 24, true, 0xC02);
    source_plane(rep, 8, true, 0xC02);
    let thorough = rep.thorough();
    random_fn_plane(rep, if thorough { 20_000_000 } else { 400_000 });
    ins_plane(rep, if thorough { 3000 } else { 50 }, false, rep.seed ^ 0xBEEF);
    crate::insplane::mixed_history(rep, if rep.thorough() { 40_000 } else { 500 }, 60, rep.seed ^ 0x142, "C02 among all instruction families", "ins", &|i| match i {
        Ins::Alu2(op, ..) => ALL_LOGIC2.contains(op),
        Ins::Un(op, _) => matches!(op, Un::Not),
        Ins::Sh(..) => true,
        _ => false,
    });
    crate::insplane::history_plane(rep, if rep.thorough() { 40_000 } else { 600 }, 120, rep.seed ^ 0x42, false, "C02 lock-step history", "ins", &|rng| {
        let k = rng.below(12);
        let nf = if k < 4 { ALU2_FORMS } else if k == 4 { UN_FORMS } else { SH_FORMS };
        let form = rng.below(nf);
        bit_ins(rng, k, form, false)
    });
    crate::insplane::edge_plane(rep, if rep.thorough() { 400_000 } else { 6000 }, rep.seed ^ 0xE2, false, "C02 at the end of memory", "ins", &|rng| {
        let k = rng.below(12);
        let nf = if k < 4 { ALU2_FORMS } else if k == 4 { UN_FORMS } else { SH_FORMS };
        let form = rng.below(nf);
        bit_ins(rng, k, form, false)
    });
    source_plane(rep, if thorough { 300 } else { 8 }, false, rep.seed ^ 0x4321);
    if thorough {
        exhaustive_word(rep, 900.0);
    }
    rep.sample("fn byte_rcl(value=0x80,count=1,CF=1) -> 0x01, CF=1, OF=1 by one single-bit step".to_string());
    rep.sample("fn word_sar(value=0x8000,count=16) -> 0xffff, CF=1 by sixteen single-bit steps".to_string());
    rep.floor("function-plane evaluations", rep.evals(), 2_000_000);
}

pub const RULE: &str = "function plane: byte logic ops over all 2^16 pairs, byte shifts/rotates over all 256 values x all 256 counts x carry-in (reference = that many single-bit 8086 steps), word versions on the boundary lattice x all 256 counts (thorough: all 65536 words x 256 counts x cin x 7 ops and all word pairs x 4 logic ops); instruction/source planes: every operand form of the logic (16), NOT (6) and shift/rotate (12, immediate and CL counts) productions from hostile states with whole-memory diff. Distinct = (function, count, CF/OF out) resp. (instruction class, accept-set member). History planes: lock-step histories, call-order histories (same value at the other width, same count), mixed-family histories over all 13 instruction classes; operands aimed at the last bytes of memory.";
