//! C06 — conditional jumps and LOOPs: taken exactly under the 8086 condition, for every spelling.
use crate::asm;
use crate::ast::*;
use crate::machine::*;
use crate::ref8086::*;
use crate::report::{hnum, FailAgg, Failure, Local, Report};
use crate::util::*;
use std::sync::Mutex;

/// spellings listed in syntax.md (lower case); upper-case variants are derived
const DOC_SPELLINGS: &str = "jmp ja jnbe jae jnb jb jnae jbe jna jc je jz jg jnle jge jnl jl jnge jle jng jnc jne jnz jno jnp jpo jns jo jp jpe js jcxz loop loope loopz loopne loopnz";

/// quoted terminals of `quote_jmps_loops` scraped from the grammar source (coverage cross-check)
fn grammar_spellings() -> Option<Vec<String>> {
    let repo = std::env::var("VERIF_REPO").unwrap_or_else(|_| "/repo".to_string());
    let text = std::fs::read_to_string(format!("{}/src/lib/preprocessor/preprocessor.lalrpop", repo)).ok()?;
    let start = text.find("quote_jmps_loops:String")?;
    let body = &text[start..];
    let end = body.find("\n}")?;
    let mut v = Vec::new();
    for line in body[..end].lines() {
        let l = line.trim();
        if l.starts_with('"') {
            if let Some(e) = l[1..].find('"') {
                v.push(l[1..1 + e].to_string());
            }
        }
    }
    Some(v)
}

/// Through the real driver: every condition in three placements (target behind / ahead / the LOOP family on its own
/// line), taken and not taken, as a whole program judged by C08's reference-interpreter comparison (replica and binary).
fn driver_cross_check(rep: &Report) {
    use crate::prog::{Item, Program};
    let mut jobs: Vec<(Jcc, usize, u16, u16)> = Vec::new(); // (condition, placement, flags, cx)
    for j in ALL_JCC {
        if j == Jcc::Jmp {
            jobs.push((j, 0, 0, 5));
            jobs.push((j, 1, 0, 5));
            continue;
        }
        let loopfam = matches!(j, Jcc::Loop | Jcc::Loope | Jcc::Loopne);
        // thorough: all 64 combinations of the six status flags (plus the all-set word), quick: nine words
        let flag_words: Vec<u16> = if rep.thorough() {
            let mut v: Vec<u16> = (0..64u16).map(|m| (if m & 1 != 0 { CF } else { 0 }) | (if m & 2 != 0 { PF } else { 0 }) | (if m & 4 != 0 { AF } else { 0 }) | (if m & 8 != 0 { ZF } else { 0 }) | (if m & 16 != 0 { SF } else { 0 }) | (if m & 32 != 0 { OF } else { 0 })).collect();
            v.push(0x0ED5 & !TF);
            v
        } else {
            vec![0u16, ZF, CF, SF, OF, SF | OF, ZF | CF, PF, 0x0ED5 & !TF]
        };
        for flags in flag_words {
            for cx in [0u16, 1, 2, 4] {
                if !loopfam && j != Jcc::Jcxz && cx != 4 {
                    continue;
                }
                jobs.push((j, 0, flags, cx));
                jobs.push((j, 1, flags, cx));
                // self-targeting: only where it terminates by itself (CX counts down); CX=0 would take 65536 rounds
                if loopfam && cx != 0 {
                    jobs.push((j, 2, flags, cx));
                }
            }
        }
    }
    // repeated activation: the same jump instruction (inside a procedure) is reached several times in one run,
    // from a sequence of flag/CX states; placement 3 = LOOP family on its own line, 4 = any condition, target ahead.
    // The `cx` slot carries the index of the state sequence.
    const CX_SEQS: [&[u16]; 6] = [&[2, 2], &[1, 2], &[3, 2], &[2, 3, 2], &[4, 1, 2, 2], &[1, 1]];
    for j in ALL_JCC {
        if j == Jcc::Jmp {
            continue;
        }
        let loopfam = matches!(j, Jcc::Loop | Jcc::Loope | Jcc::Loopne);
        for flags in [0u16, ZF, CF, SF | OF, ZF | CF, 0x0ED5 & !TF] {
            if loopfam {
                for k in 0..CX_SEQS.len() {
                    jobs.push((j, 3, flags, k as u16));
                }
            }
            jobs.push((j, 4, flags, 0));
            jobs.push((j, 4, flags, 1));
        }
    }
    let n = jobs.len();
    par_for(n, 2, |i| {
        let (j, placement, flags, cx) = jobs[i];
        if placement >= 3 {
            let ins = |x: Ins| Item::Ins(x);
            let mov16 = |r: R16, v: u16| Item::Ins(Ins::Mov(Loc::R16(r), Src::Imm(v)));
            let body = if placement == 3 {
                vec![Item::Label("here".into()), ins(Ins::J(j, "here".into())), ins(Ins::Alu2(Alu2::Add, Loc::R16(R16::BX), Src::Imm(1)))]
            } else {
                vec![ins(Ins::J(j, "fwd".into())), ins(Ins::Alu2(Alu2::Add, Loc::R16(R16::BX), Src::Imm(1))), Item::Label("fwd".into()), ins(Ins::Alu2(Alu2::Add, Loc::R16(R16::DX), Src::Imm(1)))]
            };
            let mut items = vec![Item::Proc("act".into(), body), Item::Label("start".into()), mov16(R16::BX, 0), mov16(R16::DX, 0)];
            let states: Vec<(u16, u16)> = if placement == 3 {
                CX_SEQS[cx as usize].iter().map(|c| (flags, *c)).collect()
            } else if cx == 0 {
                vec![(flags, 3), (0, 3), (flags, 3), (flags, 0)]
            } else {
                vec![(0, 0), (flags, 2), (flags, 2), (!flags & 0x08D5, 2)]
            };
            for (f, c) in &states {
                items.extend(vec![mov16(R16::AX, *f), ins(Ins::Push(Loc::R16(R16::AX))), ins(Ins::Simple("popf")), mov16(R16::CX, *c), ins(Ins::Call("act".into()))]);
            }
            items.push(mov16(R16::SI, 77));
            let p = Program { data: vec![], items };
            let text = p.render_plain().text;
            crate::c08::check_program_sig(rep, &p, &text, Some(format!("jcc-driver|{}|{}|{:04x}|{}", j.name(), placement, flags, cx)), true, ["", "", "", "same-jump-reached-again", "same-jump-reached-again"][placement], 600, 4000, &format!("jcc-driver:{}", j.name()));
            return;
        }
        let ins = |x: Ins| Item::Ins(x);
        let mov16 = |r: R16, v: u16| Item::Ins(Ins::Mov(Loc::R16(r), Src::Imm(v)));
        let mut items = vec![Item::Label("start".into()), mov16(R16::AX, flags), ins(Ins::Push(Loc::R16(R16::AX))), ins(Ins::Simple("popf")), mov16(R16::CX, cx), mov16(R16::BX, 0)];
        match placement {
            0 => {
                // target behind the jump
                items.extend(vec![ins(Ins::J(Jcc::Jmp, "over".into())), Item::Label("back".into()), mov16(R16::BX, 1), ins(Ins::J(Jcc::Jmp, "done".into())), Item::Label("over".into()), ins(Ins::J(j, "back".into())), mov16(R16::BX, 2), Item::Label("done".into())]);
            }
            1 => {
                items.extend(vec![ins(Ins::J(j, "fwd".into())), mov16(R16::BX, 2), ins(Ins::J(Jcc::Jmp, "done".into())), Item::Label("fwd".into()), mov16(R16::BX, 1), Item::Label("done".into())]);
            }
            _ => {
                items.extend(vec![Item::Label("here".into()), ins(Ins::J(j, "here".into())), mov16(R16::BX, 3)]);
            }
        }
        items.push(mov16(R16::SI, 77));
        let p = Program { data: vec![], items };
        let text = p.render_plain().text;
        // only the nine quick flag words are part of the seed-independent core (the fingerprint of the recorded JLE finding)
        let core_word = [0u16, ZF, CF, SF, OF, SF | OF, ZF | CF, PF, 0x0ED5 & !TF].contains(&flags);
        crate::c08::check_program_sig(rep, &p, &text, if core_word { Some(format!("jcc-driver|{}|{}|{:04x}|{}", j.name(), placement, flags, cx)) } else { None }, true, ["jump-target-behind", "jump-target-ahead", "jump-targets-itself"][placement], 300, 2000, &format!("jcc-driver:{}", j.name()));
    });
    rep.count("conditions x placements x flag/CX cases run as programs through the real driver", n as u64);
    far_placement(rep);
}

/// every condition, taken, with jump and target beyond instruction index 65535 (and jumps back over the 16-bit
/// boundary): one program of more than 66000 instructions through replica and binary
fn far_placement(rep: &Report) {
    use crate::prog::{Item, Program};
    let ins = |x: Ins| Item::Ins(x);
    let mov16 = |r: R16, v: u16| Item::Ins(Ins::Mov(Loc::R16(r), Src::Imm(v)));
    for variant in 0..2usize {
        let mut items = vec![Item::Label("start".into()), mov16(R16::BX, 0), mov16(R16::DX, 0), ins(Ins::J(Jcc::Jmp, "body".into()))];
        // variant 1: targets of backward jumps sit below the boundary, the jumps above it
        if variant == 1 {
            items.push(Item::Label("low".into()));
            items.push(ins(Ins::Alu2(Alu2::Add, Loc::R16(R16::DX), Src::Imm(1))));
            items.push(ins(Ins::J(Jcc::Jmp, "resume".into())));
        }
        for _ in 0..65_600 {
            items.push(ins(Ins::Simple("cmc")));
        }
        items.push(Item::Label("body".into()));
        let mut k = 0;
        for j in ALL_JCC {
            if matches!(j, Jcc::Jmp) {
                continue;
            }
            // a flag word / CX for which the reference takes the jump (JLE: one on which the recorded defect agrees)
            let cands: [u16; 6] = [ZF | SF, 0, CF, OF, SF, ZF | CF | PF];
            let cx: u16 = if j == Jcc::Jcxz { 0 } else { 3 };
            let f = match cands.iter().find(|f| jcc_taken(j, **f, if matches!(j, Jcc::Loop | Jcc::Loope | Jcc::Loopne) { cx - 1 } else { cx })) {
                Some(f) => *f,
                None => continue,
            };
            k += 1;
            items.extend(vec![mov16(R16::AX, f), ins(Ins::Push(Loc::R16(R16::AX))), ins(Ins::Simple("popf")), mov16(R16::CX, cx)]);
            let t = format!("far{}", k);
            items.push(ins(Ins::J(j, t.clone())));
            items.push(ins(Ins::Alu2(Alu2::Add, Loc::R16(R16::BX), Src::Imm(1))));
            items.push(Item::Label(t));
            items.push(ins(Ins::Alu2(Alu2::Add, Loc::R16(R16::DX), Src::Imm(256))));
        }
        if variant == 1 {
            items.push(ins(Ins::J(Jcc::Jmp, "low".into())));
            items.push(Item::Label("resume".into()));
        }
        items.push(mov16(R16::SI, 77));
        let p = Program { data: vec![], items };
        let text = p.render_plain().text;
        crate::c08::check_program_sig(rep, &p, &text, Some(format!("jcc-driver|far|{}", variant)), true, "jump-and-target-beyond-index-65535", 2000, 4000, "jcc-driver:far");
    }
    rep.count("programs with every condition placed beyond instruction index 65535", 2);
}

pub fn run(rep: &Report) {
    driver_cross_check(rep);
    let mut spellings: Vec<String> = Vec::new();
    for s in DOC_SPELLINGS.split_whitespace() {
        spellings.push(s.to_string());
        spellings.push(s.to_ascii_uppercase());
    }
    match grammar_spellings() {
        Some(g) => {
            for s in &g {
                if !spellings.contains(s) {
                    if Jcc::from_spelling(s).is_some() {
                        spellings.push(s.clone());
                    } else {
                        rep.note(format!("grammar accepts jump spelling {:?} that the reference table does not know: not covered", s));
                        rep.count("uncovered grammar spellings", 1);
                    }
                }
            }
            rep.count("jump spellings found in the grammar", g.len() as u64);
        }
        None => rep.note("grammar source not readable: spelling cross-check skipped".to_string()),
    }
    // observed taken-bitmaps per spelling for the complement check: taken[f] for CX=1 (so LOOP family is not involved)
    let bitmaps: Mutex<Vec<(String, Jcc, Vec<u8>)>> = Mutex::new(Vec::new());
    let n = spellings.len();
    // variant 0: backward target (the complete sweep); 1: the jump targets itself; 2: forward target
    par_for(n * 3, 1, |job| {
        let si = job % n;
        let variant = job / n;
        let sp = &spellings[si];
        let cond = match Jcc::from_spelling(sp) {
            Some(c) => c,
            None => return,
        };
        let (src, lidx) = match variant {
            0 => (format!("start:\nstc\nL: clc\n{} L\n", sp), 1usize),
            1 => (format!("start:\nstc\nclc\nL: {} L\n", sp), 2),
            _ => (format!("start:\nstc\nclc\n{} L\ncmc\nL: hlt\n", sp), 4),
        };
        let vtag = ["", ":self-target", ":forward-target"][variant];
        let a = match asm::assemble(&src) {
            Ok(a) => a,
            Err(e) => {
                rep.fail(Failure {
                    sig: format!("jcc:{}:not-accepted", sp.to_ascii_lowercase()),
                    what: format!("C06: documented jump spelling `{}` is rejected by the assembler", sp),
                    witness: format!("{{\"kind\": \"src\", \"source\": {}, \"error\": {}}}", json_str(&src), json_str(&format!("{:?}", e))),
                    core_item: Some(sp.clone()),
                });
                return;
            }
        };
        if a.code.len() < 3 || a.labels.get("L").map(|x| x.1) != Some(lidx) {
            rep.inconclusive("unexpected assembly shape");
            return;
        }
        let line = a.code[2].clone();
        let mut b = Bench::new(0xC06);
        b.ictx = a.ictx();
        let mut agg = FailAgg::new();
        let mut loc = Local::default();
        let cx_dep = matches!(cond, Jcc::Jcxz | Jcc::Loop | Jcc::Loope | Jcc::Loopne);
        let mut bitmap = vec![0u8; 65536 / 8];
        let mut rejected = false;
        let mut rng = Rng::new(0xC06).fork(si as u64);
        let mut base: Regs = [0; 14];
        for i in 1..14 {
            base[i] = rng.u16();
        }
        let mut run_case = |b: &mut Bench, agg: &mut FailAgg, loc: &mut Local, flags: u16, cx: u16, bitmap: Option<&mut Vec<u8>>| -> bool {
            let mut pre = base;
            pre[FLAG] = flags;
            pre[CX] = cx;
            let (obs, post) = b.step(2, &line, &pre);
            loc.evals += 1;
            let mut exp = pre;
            if matches!(cond, Jcc::Loop | Jcc::Loope | Jcc::Loopne) {
                exp[CX] = cx.wrapping_sub(1);
            }
            let taken = jcc_taken(cond, flags, exp[CX]);
            let obs_taken = match &obs {
                ObsFlow::Jmp(t) if *t == lidx => Some(true),
                ObsFlow::Next => Some(false),
                _ => None,
            };
            if let (Some(bm), Some(t)) = (bitmap, obs_taken) {
                if t {
                    bm[(flags / 8) as usize] |= 1 << (flags % 8);
                }
            }
            let mut comps: Vec<&str> = Vec::new();
            match &obs {
                ObsFlow::Rejected(_) => {
                    return false;
                }
                ObsFlow::Panic(_) => comps.push("panic"),
                _ => {
                    if obs_taken != Some(taken) {
                        comps.push("predicate");
                    }
                }
            }
            if post != exp && !matches!(obs, ObsFlow::Panic(_)) {
                comps.push("state-change");
            }
            for c in comps {
                let sig = format!("jcc:{}:{}{}", cond.name(), c, vtag);
                let key = fnv64(sig.as_bytes());
                agg.add(key, Some(hnum(&[fnv64(line.as_bytes()), flags as u64, cx as u64, fnv64(format!("{:?}", obs).as_bytes()), post[CX] as u64, post[FLAG] as u64])), || {
                    (
                        sig.clone(),
                        format!("C06: `{}` (condition {}) {}", line, cond.name(), if c == "predicate" { "is taken/skipped against the 8086 predicate" } else { "changes state it must not change" }),
                        format!(
                            "{{\"kind\": \"ir\", \"line\": {}, \"source_spelling\": {}, \"pre\": {}, \"expected_taken\": {}, \"observed\": {}, \"post_observed\": {}}}",
                            json_str(&line),
                            json_str(sp),
                            regs_json(&pre),
                            taken,
                            json_str(&format!("{:?}", obs)),
                            regs_json(&post)
                        ),
                    )
                });
            }
            true
        };
        // all 2^16 flag words (CX fixed to a value > 1 so LOOP-family decrements do not reach 0)
        for f in 0..=0xFFFFu16 {
            let cx = if cx_dep { 2 + (f & 7) } else { base[CX] };
            if !run_case(&mut b, &mut agg, &mut loc, f, cx, Some(&mut bitmap)) {
                rejected = true;
                break;
            }
            loc.distinct.insert(hnum(&[cond as u64, (f & (CF | ZF | SF | OF | PF)) as u64]));
        }
        if cx_dep && !rejected && variant != 2 {
            // all 2^16 CX × ZF (and the other flags at two settings)
            for cx in 0..=0xFFFFu16 {
                for fl in [0u16, ZF, 0xFFFF & !ZF, 0xFFFF] {
                    run_case(&mut b, &mut agg, &mut loc, fl, cx, None);
                }
            }
            loc.distinct.insert(hnum(&[cond as u64, 0xC0]));
        }
        if rejected && variant != 0 {
            // reported once, by the backward variant
        } else if rejected {
            rep.fail(Failure {
                sig: format!("jcc:{}:not-executable", sp.to_ascii_lowercase()),
                what: format!("C06: spelling `{}` is accepted by the assembler but its emitted line `{}` is rejected by the interpreter, so the jump can never be taken", sp, line),
                witness: format!("{{\"kind\": \"src\", \"source\": {}, \"emitted\": {}}}", json_str(&src), json_str(&line)),
                core_item: Some(sp.clone()),
            });
        } else {
            // whole-memory check: no jump may write memory
            if b.vm.mem[..] != b.shadow[..] {
                rep.fail(Failure {
                    sig: format!("jcc:{}:mem{}", cond.name(), vtag),
                    what: format!("C06: `{}` wrote to memory", line),
                    witness: format!("{{\"kind\": \"ir\", \"line\": {}}}", json_str(&line)),
                    core_item: Some(line.clone()),
                });
            }
            if variant == 0 {
                bitmaps.lock().unwrap().push((sp.clone(), cond, bitmap));
            }
        }
        if si == 2 && variant == 0 {
            rep.sample(format!("source `{} L` -> ir `{}` executed under all 65536 flag words", sp, line));
        }
        agg.flush(rep);
        loc.flush(rep);
    });
    // complementary pairs never both taken / both skipped; synonyms identical (observed vs observed)
    let bms = bitmaps.lock().unwrap();
    for (sp, cond, bm) in bms.iter() {
        if let Some(c2) = cond.complement() {
            for (sp2, cc, bm2) in bms.iter() {
                if *cc == c2 {
                    let bad = (0..bm.len()).filter(|&i| bm[i] ^ bm2[i] != 0xFF).count();
                    rep.eval(1);
                    if bad > 0 {
                        rep.fail(Failure {
                            sig: format!("jcc:{}:complement", std::cmp::min(cond.name(), c2.name())),
                            what: format!("C06: complementary conditions `{}` and `{}` are both taken or both skipped for some flag words", sp, sp2),
                            witness: format!("{{\"kind\": \"pair\", \"a\": {}, \"b\": {}, \"bitmap_bytes_disagreeing\": {}}}", json_str(sp), json_str(sp2), bad),
                            core_item: Some(format!("{}|{}|{}", sp, sp2, bad)),
                        });
                    }
                }
            }
        }
        for (sp2, cc, bm2) in bms.iter() {
            if cc == cond && sp < sp2 && bm != bm2 {
                rep.fail(Failure {
                    sig: format!("jcc:{}:synonym", cond.name()),
                    what: format!("C06: synonyms `{}` and `{}` behave differently", sp, sp2),
                    witness: format!("{{\"kind\": \"pair\", \"a\": {}, \"b\": {}}}", json_str(sp), json_str(sp2)),
                    core_item: Some(format!("{}|{}", sp, sp2)),
                });
            }
        }
    }
    rep.count("spellings exercised", bms.len() as u64);
    rep.floor("spellings exercised", bms.len() as u64, 60);
    rep.sample("`loopne L` with CX=0x0001, ZF=0 -> CX=0x0000, not taken".to_string());
}

pub const RULE: &str = "every jump/loop spelling of syntax.md in lower and upper case (cross-checked against the terminals scraped from the grammar) is assembled by the real Preprocessor in three placements (target behind the jump, the jump targeting itself, target ahead) and its emitted line executed at its own index under all 2^16 flag words; JCXZ/LOOP/LOOPE/LOOPNE additionally under all 2^16 CX values x ZF x two settings of the other flags. Every condition is also run as a whole program through the real driver (target behind, ahead, LOOP family on its own line; taken and not taken) and judged by the reference interpreter over the program (C08's comparison). Oracle: Intel predicate table; nothing but CX (LOOP family) may change; complements and synonyms compared observed-vs-observed. Distinct = (condition, CF/ZF/SF/OF/PF combination). Through the real driver: every condition in five placements (target behind / ahead / on the jump itself / the same jump in a procedure called 2-4 times from sequences of CX and flag states / jump and target beyond instruction index 65535).";
