//! C03 process plane: the divide-error path through the real driver.
use crate::cli::*;
use crate::ref8086::*;
use crate::report::{Failure, Report};
use crate::util::*;

struct Case {
    op: &'static str,
    word: bool,
    dx: u16,
    ax: u16,
    d: u16,
}

pub fn run(rep: &Report) {
    let mut cases = vec![
        Case { op: "div", word: false, dx: 0, ax: 100, d: 0 },
        Case { op: "div", word: false, dx: 0, ax: 100, d: 7 },
        Case { op: "div", word: false, dx: 0, ax: 0x0200, d: 1 },
        Case { op: "div", word: false, dx: 0, ax: 0xFFFF, d: 0xFF },
        Case { op: "idiv", word: false, dx: 0, ax: 0xFFF9, d: 2 },
        Case { op: "idiv", word: false, dx: 0, ax: 0x0080, d: 1 },
        Case { op: "idiv", word: false, dx: 0, ax: 0x7FFF, d: 0xFF },
        Case { op: "idiv", word: false, dx: 0, ax: 5, d: 0 },
        Case { op: "div", word: true, dx: 0, ax: 1000, d: 0 },
        Case { op: "div", word: true, dx: 1, ax: 0, d: 1 },
        Case { op: "div", word: true, dx: 0x0001, ax: 0x0000, d: 2 },
        Case { op: "div", word: true, dx: 0xFFFF, ax: 0xFFFF, d: 0xFFFF },
        Case { op: "idiv", word: true, dx: 0xFFFF, ax: 0xFFF9, d: 2 },
        Case { op: "idiv", word: true, dx: 0x8000, ax: 0x0000, d: 0xFFFF },
        Case { op: "idiv", word: true, dx: 0x0000, ax: 0x8000, d: 1 },
        Case { op: "idiv", word: true, dx: 0x4000, ax: 0x0000, d: 2 },
        Case { op: "idiv", word: true, dx: 0, ax: 7, d: 0 },
    ];
    let mut rng = Rng::new(rep.seed).fork(0xC03C);
    for _ in 0..(if rep.thorough() { 600 } else { 47 }) {
        let word = rng.chance(1, 2);
        cases.push(Case { op: if rng.chance(1, 2) { "div" } else { "idiv" }, word, dx: rng.hostile16(), ax: rng.hostile16(), d: if rng.chance(1, 2) { 0 } else if word { rng.hostile16() } else { rng.hostile16() & 0xFF } });
    }
    let n = cases.len();
    par_for(n, 1, |i| {
        let c = &cases[i];
        // the shape of the text around the division varies: comments (ASCII and multi-byte, of many lengths) before
        // it and on its own line, blank lines, a data section: the divide-error report works on source positions
        let mut srng = Rng::new(0xC03D).fork(i as u64);
        let comment = |rng: &mut Rng| -> String {
            let alphabet: &[&str] = match rng.below(3) { 0 => &["a", "b", " ", "0"], 1 => &["\u{20ac}", "\u{e9}", "\u{1F600}", "x"], _ => &["\u{20ac}"] };
            let n = 1 + rng.below(40);
            let mut t = String::from("; ");
            for _ in 0..n {
                t.push_str(alphabet[rng.below(alphabet.len())]);
            }
            t
        };
        let mut prelude = String::new();
        let mut tail = String::new();
        let shape = i % 4;
        if shape != 0 {
            for _ in 0..(1 + srng.below(6)) {
                match srng.below(4) {
                    0 => prelude.push('\n'),
                    1 if shape == 3 => prelude.push_str("v0: db 1\n"),
                    _ => {
                        prelude.push_str(&comment(&mut srng));
                        prelude.push('\n');
                    }
                }
            }
            if srng.chance(1, 2) {
                tail = format!(" {}", comment(&mut srng));
            }
        }
        let src = format!(
            "{}start:\nmov dx, {}\nmov ax, {}\nmov {}, {}\n{} {}{}\nmov cx, 30583\n",
            prelude,
            c.dx,
            c.ax,
            if c.word { "bx" } else { "bl" },
            c.d,
            c.op,
            if c.word { "bx" } else { "bl" },
            tail
        );
        let out = run_cli(src.as_bytes(), &CliOpts::default());
        rep.eval(1);
        let p = parse_records(&out.stdout);
        let res = match (c.op, c.word) {
            ("div", false) => div8(c.ax, c.d as u8),
            ("idiv", false) => idiv8(c.ax, c.d as u8),
            ("div", true) => div16(c.dx, c.ax, c.d),
            _ => idiv16(c.dx, c.ax, c.d),
        };
        rep.distinct_str(&format!("cli-div|{}|{}|{:?}|{}", c.op, c.word, std::mem::discriminant(&res), shape));
        let wit = |sym: &str| {
            format!(
                "{{\"kind\": \"cli\", \"source\": {}, \"stdin\": \"\", \"symptom\": {}, \"status\": {}, \"stdout_plain\": {}}}",
                json_str(&src),
                json_str(sym),
                json_str(&out.status_str()),
                json_bytes(&p.plain[..p.plain.len().min(600)])
            )
        };
        let mut fail = |sym: &str, what: &str| {
            rep.fail(Failure { sig: format!("cli:div:{}", sym), what: format!("C03 CLI divide path: {}", what), witness: wit(sym), core_item: if i < 17 { Some(format!("{}|{}", i, sym)) } else { None } });
        };
        if !out.clean_exit() {
            if out.timed_out {
                rep.inconclusive("cli watchdog");
                return;
            }
            fail("crash", "the emulator aborted instead of reporting a divide error or a result");
            return;
        }
        if p.recs.is_empty() {
            rep.inconclusive("no hook records");
            return;
        }
        let executed_after = p.recs.iter().any(|r| r.line.starts_with("mov cx"));
        let div_idx = p.recs.iter().position(|r| r.line.starts_with("div") || r.line.starts_with("idiv"));
        if div_idx.is_none() {
            rep.inconclusive("division not reached");
            return;
        }
        let after_div: Vec<u8> = p.segs[div_idx.unwrap() + 1..].concat();
        let has_msg = !String::from_utf8_lossy(&after_div).trim().is_empty();
        let last = p.recs.last().unwrap();
        match res {
            DivRes::Fault => {
                if executed_after {
                    fail("executed-after-fault", "instructions kept executing after a division whose divisor is 0 or whose quotient does not fit");
                } else if !has_msg {
                    fail("no-message", "divide error produced no diagnostic");
                }
            }
            DivRes::Ok { q, r, boundary } => {
                if !executed_after {
                    if !boundary {
                        fail("spurious-fault", "a representable division was reported as a divide error");
                    }
                } else {
                    let (eax, edx) = if c.word { (q, r) } else { ((r << 8) | (q & 0xFF), c.dx) };
                    if last.regs[AX] != eax || last.regs[DX] != edx {
                        fail("wrong-result", "quotient/remainder after the division differ from the reference");
                    }
                }
            }
        }
        if i == 0 {
            rep.sample(format!("cli program {:?} -> plain stdout {:?}", src, String::from_utf8_lossy(&p.plain)));
        }
    });
    rep.count("CLI divide-path programs", n as u64);
}
