//! Verdict bookkeeping: failures grouped by structural signature, known-finding matching with
//! fingerprints, evidence + replay writers, exit codes (0 held / 1 violation / 2 inconclusive).
use crate::util::{fnv64, json_str};
use std::collections::{BTreeMap, HashMap, HashSet};
use std::sync::atomic::{AtomicU64, Ordering};
use std::sync::Mutex;
use std::time::Instant;

pub fn verif_root() -> String {
    std::env::var("VERIF_ROOT").unwrap_or_else(|_| "/verif".to_string())
}

#[derive(Clone, Debug)]
pub struct Failure {
    /// structural signature, never contains random values
    pub sig: String,
    /// human description, stable wording
    pub what: String,
    /// JSON object text of the witness (inputs + expected + observed)
    pub witness: String,
    /// Some(canonical "input=>observed" string) when the case belongs to the deterministic core
    pub core_item: Option<String>,
}

struct Bucket {
    count: u64,
    core_count: u64,
    fp: u64,
    what: String,
    witnesses: Vec<String>,
}

#[derive(Clone, Debug)]
pub struct Known {
    pub prop: String,
    pub sig: String,
    pub fp: Option<u64>,
    pub n: Option<u64>,
    pub text: String,
}

pub struct Report {
    pub prop: String,
    pub tier: String,
    pub seed: u64,
    start: Instant,
    evals: AtomicU64,
    inconclusive: AtomicU64,
    buckets: Mutex<BTreeMap<String, Bucket>>,
    distinct: Mutex<HashSet<u64>>,
    counters: Mutex<BTreeMap<String, u64>>,
    samples: Mutex<Vec<String>>,
    floors: Mutex<Vec<(String, u64, u64)>>,
    notes: Mutex<Vec<String>>,
    pub print_findings: bool,
    /// replay mode: (signature to look for, witness file)
    pub replay: Option<(String, String)>,
}

impl Report {
    pub fn new(prop: &str, tier: &str, seed: u64) -> Report {
        Report {
            prop: prop.to_string(),
            tier: tier.to_string(),
            seed,
            start: Instant::now(),
            evals: AtomicU64::new(0),
            inconclusive: AtomicU64::new(0),
            buckets: Mutex::new(BTreeMap::new()),
            distinct: Mutex::new(HashSet::new()),
            counters: Mutex::new(BTreeMap::new()),
            samples: Mutex::new(Vec::new()),
            floors: Mutex::new(Vec::new()),
            notes: Mutex::new(Vec::new()),
            print_findings: false,
            replay: None,
        }
    }
    pub fn thorough(&self) -> bool {
        self.tier == "thorough"
    }
    pub fn elapsed(&self) -> f64 {
        self.start.elapsed().as_secs_f64()
    }
    pub fn eval(&self, n: u64) {
        self.evals.fetch_add(n, Ordering::Relaxed);
    }
    pub fn evals(&self) -> u64 {
        self.evals.load(Ordering::Relaxed)
    }
    pub fn inconclusive(&self, why: &str) {
        self.inconclusive.fetch_add(1, Ordering::Relaxed);
        self.count(&format!("inconclusive:{}", why), 1);
    }
    pub fn distinct(&self, key: u64) {
        self.distinct.lock().unwrap().insert(key);
    }
    pub fn distinct_str(&self, key: &str) {
        self.distinct(fnv64(key.as_bytes()));
    }
    pub fn merge_distinct(&self, set: &HashSet<u64>) {
        let mut d = self.distinct.lock().unwrap();
        for k in set {
            d.insert(*k);
        }
    }
    pub fn count(&self, name: &str, n: u64) {
        *self.counters.lock().unwrap().entry(name.to_string()).or_insert(0) += n;
    }
    pub fn counter(&self, name: &str) -> u64 {
        *self.counters.lock().unwrap().get(name).unwrap_or(&0)
    }
    pub fn sample(&self, s: String) {
        let mut v = self.samples.lock().unwrap();
        if v.len() < 16 {
            v.push(s);
        }
    }
    pub fn note(&self, s: String) {
        self.notes.lock().unwrap().push(s);
    }
    /// at finish: observed < min => the run is inconclusive (exit 2)
    pub fn floor(&self, name: &str, observed: u64, min: u64) {
        self.floors.lock().unwrap().push((name.to_string(), observed, min));
    }
    pub fn fail(&self, f: Failure) {
        let mut b = self.buckets.lock().unwrap();
        let e = b.entry(f.sig.clone()).or_insert(Bucket {
            count: 0,
            core_count: 0,
            fp: 0,
            what: f.what.clone(),
            witnesses: Vec::new(),
        });
        e.count += 1;
        if let Some(item) = &f.core_item {
            e.core_count += 1;
            e.fp = e.fp.wrapping_add(fnv64(item.as_bytes()) | 1);
        }
        if e.witnesses.len() < 3 {
            e.witnesses.push(f.witness);
        } else {
            // keep the shortest witnesses (approximate minimality)
            let (mi, ml) = e
                .witnesses
                .iter()
                .enumerate()
                .map(|(i, w)| (i, w.len()))
                .max_by_key(|x| x.1)
                .unwrap();
            if f.witness.len() < ml {
                e.witnesses[mi] = f.witness;
            }
        }
    }
    /// serialise what a worker process gathered (one record per line) for the parent to merge
    pub fn export(&self) -> String {
        let mut o = String::new();
        o.push_str(&format!("E\t{}\n", self.evals()));
        o.push_str(&format!("I\t{}\n", self.inconclusive.load(Ordering::Relaxed)));
        for d in self.distinct.lock().unwrap().iter() {
            o.push_str(&format!("D\t{:x}\n", d));
        }
        for (k, v) in self.counters.lock().unwrap().iter() {
            o.push_str(&format!("C\t{}\t{}\n", v, k.replace('\t', " ").replace('\n', " ")));
        }
        for s in self.samples.lock().unwrap().iter() {
            o.push_str(&format!("S\t{}\n", json_str(s)));
        }
        for s in self.notes.lock().unwrap().iter() {
            o.push_str(&format!("N\t{}\n", json_str(s)));
        }
        for (sig, b) in self.buckets.lock().unwrap().iter() {
            o.push_str(&format!("B\t{}\t{}\t{:x}\t{}\t{}\n", b.count, b.core_count, b.fp, sig.replace('\t', " "), b.what.replace('\t', " ").replace('\n', " ")));
            for w in &b.witnesses {
                o.push_str(&format!("W\t{}\t{}\n", sig.replace('\t', " "), w.replace('\n', " ")));
            }
        }
        o
    }
    pub fn import(&self, text: &str) {
        for line in text.lines() {
            let f: Vec<&str> = line.splitn(6, '\t').collect();
            match f[0] {
                "E" => self.eval(f.get(1).and_then(|x| x.parse().ok()).unwrap_or(0)),
                "I" => {
                    self.inconclusive.fetch_add(f.get(1).and_then(|x| x.parse().ok()).unwrap_or(0), Ordering::Relaxed);
                }
                "D" => {
                    if let Some(h) = f.get(1).and_then(|x| u64::from_str_radix(x, 16).ok()) {
                        self.distinct(h);
                    }
                }
                "C" if f.len() >= 3 => self.count(f[2], f[1].parse().unwrap_or(0)),
                "S" if f.len() >= 2 => self.sample(unjson(f[1])),
                "N" if f.len() >= 2 => self.note(unjson(f[1])),
                "B" if f.len() >= 6 => {
                    let mut b = self.buckets.lock().unwrap();
                    let e = b.entry(f[4].to_string()).or_insert(Bucket { count: 0, core_count: 0, fp: 0, what: f[5].to_string(), witnesses: Vec::new() });
                    e.count += f[1].parse::<u64>().unwrap_or(0);
                    e.core_count += f[2].parse::<u64>().unwrap_or(0);
                    e.fp = e.fp.wrapping_add(u64::from_str_radix(f[3], 16).unwrap_or(0));
                }
                "W" if f.len() >= 3 => {
                    let rest: Vec<&str> = line.splitn(3, '\t').collect();
                    let mut b = self.buckets.lock().unwrap();
                    if let Some(e) = b.get_mut(rest[1]) {
                        if e.witnesses.len() < 3 {
                            e.witnesses.push(rest[2].to_string());
                        }
                    }
                }
                _ => {}
            }
        }
    }
    pub fn failure_count(&self) -> u64 {
        self.buckets.lock().unwrap().values().map(|b| b.count).sum()
    }
    pub fn sigs(&self) -> Vec<String> {
        self.buckets.lock().unwrap().keys().cloned().collect()
    }

    /// Write evidence + replays, print verdict lines, return the process exit code.
    pub fn finish(&self, rule: &str, exhaustive: bool, assumptions: &[&str]) -> i32 {
        if let Some((sig, path)) = &self.replay {
            let buckets = self.buckets.lock().unwrap();
            return match buckets.get(sig) {
                Some(b) => {
                    println!("VIOLATION property={} replay={} sig={} :: reproduced ({} occurrences): {}", self.prop, path, sig, b.count, b.what);
                    for w in b.witnesses.iter().take(1) {
                        println!("witness: {}", w);
                    }
                    1
                }
                None => {
                    println!("[{}] replay of {}: signature {} did not occur again at tier={} seed={} ({} evaluations, {} other signatures failing)", self.prop, path, sig, self.tier, self.seed, self.evals(), buckets.len());
                    0
                }
            };
        }
        let known = load_known();
        let root = verif_root();
        let buckets = self.buckets.lock().unwrap();
        let mut violations = 0u64;
        let mut known_hits: Vec<String> = Vec::new();
        let mut out_lines: Vec<String> = Vec::new();
        let replay_dir = format!("{}/replay/{}", root, self.prop);
        for (sig, b) in buckets.iter() {
            if self.print_findings {
                println!(
                    "known: property={} sig={} fp={:016x} n={} :: {}",
                    self.prop, sig, b.fp, b.core_count, b.what
                );
                continue;
            }
            let k = known.iter().find(|k| k.prop == self.prop && &k.sig == sig);
            let mut is_violation = false;
            let mut reason = String::new();
            match k {
                Some(k) => {
                    if let Some(fp) = k.fp {
                        if b.core_count > 0 && fp != b.fp {
                            is_violation = true;
                            reason = format!(
                                "known finding changed shape: fingerprint {:016x} (n={}) != recorded {:016x} (n={})",
                                b.fp,
                                b.core_count,
                                fp,
                                k.n.unwrap_or(0)
                            );
                        } else if b.core_count == 0 && b.count > 0 && k.n.unwrap_or(0) > 0 {
                            // only random-slice hits in a signature whose core failures vanished:
                            // the failing region moved
                            is_violation = true;
                            reason = "known finding no longer fails on its recorded core cases but fails elsewhere".to_string();
                        }
                    }
                    if !is_violation {
                        known_hits.push(sig.clone());
                        out_lines.push(format!(
                            "KNOWN-FINDING: property={} sig={} {} (observed {} times)",
                            self.prop, sig, k.text, b.count
                        ));
                    }
                }
                None => {
                    is_violation = true;
                }
            }
            if is_violation {
                violations += 1;
                let _ = std::fs::create_dir_all(&replay_dir);
                let name = format!("{:016x}.json", fnv64(sig.as_bytes()));
                let path = format!("{}/{}", replay_dir, name);
                let mut body = String::new();
                body.push_str("{\n");
                body.push_str(&format!("  \"property\": {},\n", json_str(&self.prop)));
                body.push_str(&format!("  \"signature\": {},\n", json_str(sig)));
                body.push_str(&format!("  \"what\": {},\n", json_str(&b.what)));
                if !reason.is_empty() {
                    body.push_str(&format!("  \"reason\": {},\n", json_str(&reason)));
                }
                body.push_str(&format!("  \"tier\": {},\n  \"seed\": {},\n", json_str(&self.tier), self.seed));
                body.push_str(&format!("  \"occurrences\": {},\n", b.count));
                body.push_str(&format!("  \"core_fingerprint\": \"{:016x}\",\n  \"core_n\": {},\n", b.fp, b.core_count));
                body.push_str("  \"witnesses\": [\n");
                for (i, w) in b.witnesses.iter().enumerate() {
                    body.push_str("    ");
                    body.push_str(w);
                    if i + 1 < b.witnesses.len() {
                        body.push(',');
                    }
                    body.push('\n');
                }
                body.push_str("  ]\n}\n");
                let _ = std::fs::write(&path, body);
                out_lines.push(format!(
                    "VIOLATION property={} replay={} sig={} :: {}{}",
                    self.prop,
                    path,
                    sig,
                    b.what,
                    if reason.is_empty() { String::new() } else { format!(" [{}]", reason) }
                ));
            }
        }
        if self.print_findings {
            return 0;
        }
        // floors
        let mut floor_fail = Vec::new();
        for (name, obs, min) in self.floors.lock().unwrap().iter() {
            if obs < min {
                floor_fail.push(format!("{}: observed {} < floor {}", name, obs, min));
            }
        }
        // evidence
        let wall = self.elapsed();
        let distinct = self.distinct.lock().unwrap().len() as u64;
        let counters = self.counters.lock().unwrap();
        let samples = self.samples.lock().unwrap();
        let mut ev = String::new();
        ev.push_str("{\n");
        ev.push_str(&format!("  \"property_id\": {},\n", json_str(&self.prop)));
        ev.push_str(&format!("  \"tier\": {},\n", json_str(&self.tier)));
        ev.push_str(&format!("  \"seed\": {},\n", self.seed));
        ev.push_str("  \"level\": \"exploration\",\n");
        ev.push_str("  \"coverage\": {\n");
        ev.push_str(&format!("    \"evaluations\": {},\n", self.evals().max(0)));
        ev.push_str(&format!("    \"distinct_nontrivial\": {},\n", distinct));
        ev.push_str(&format!("    \"rule\": {},\n", json_str(rule)));
        ev.push_str(&format!("    \"exhaustive\": {},\n", exhaustive));
        ev.push_str("    \"samples\": [\n");
        for (i, s) in samples.iter().enumerate() {
            ev.push_str("      ");
            ev.push_str(&json_str(s));
            if i + 1 < samples.len() {
                ev.push(',');
            }
            ev.push('\n');
        }
        ev.push_str("    ],\n");
        ev.push_str("    \"counters\": {\n");
        let n = counters.len();
        for (i, (k, v)) in counters.iter().enumerate() {
            ev.push_str(&format!("      {}: {}{}\n", json_str(k), v, if i + 1 < n { "," } else { "" }));
        }
        ev.push_str("    },\n");
        ev.push_str(&format!(
            "    \"known_finding_signatures_hit\": [{}],\n",
            known_hits.iter().map(|s| json_str(s)).collect::<Vec<_>>().join(", ")
        ));
        ev.push_str(&format!(
            "    \"failing_signatures\": {{{}}},\n",
            buckets
                .iter()
                .map(|(s, b)| format!("{}: {}", json_str(s), b.count))
                .collect::<Vec<_>>()
                .join(", ")
        ));
        ev.push_str(&format!("    \"inconclusive_cases\": {},\n", self.inconclusive.load(Ordering::Relaxed)));
        ev.push_str(&format!(
            "    \"floors_unmet\": [{}],\n",
            floor_fail.iter().map(|s| json_str(s)).collect::<Vec<_>>().join(", ")
        ));
        ev.push_str(&format!(
            "    \"notes\": [{}]\n",
            self.notes.lock().unwrap().iter().map(|s| json_str(s)).collect::<Vec<_>>().join(", ")
        ));
        ev.push_str("  },\n");
        ev.push_str(&format!(
            "  \"assumptions\": [{}],\n",
            assumptions.iter().map(|s| json_str(s)).collect::<Vec<_>>().join(", ")
        ));
        ev.push_str(&format!("  \"wall_s\": {:.3},\n", wall));
        ev.push_str(&format!("  \"violations\": {}\n", violations));
        ev.push_str("}\n");
        let _ = std::fs::create_dir_all(format!("{}/evidence", root));
        let evpath = format!("{}/evidence/{}.json", root, self.prop);
        if let Err(e) = std::fs::write(&evpath, ev) {
            eprintln!("cannot write evidence {}: {}", evpath, e);
        }
        for l in &out_lines {
            println!("{}", l);
        }
        println!(
            "[{}] tier={} seed={} evaluations={} distinct={} signatures_failing={} known_hit={} violations={} inconclusive={} wall={:.1}s",
            self.prop,
            self.tier,
            self.seed,
            self.evals(),
            distinct,
            buckets.len(),
            known_hits.len(),
            violations,
            self.inconclusive.load(Ordering::Relaxed),
            wall
        );
        if violations > 0 {
            return 1;
        }
        if !floor_fail.is_empty() {
            for f in &floor_fail {
                println!("INCONCLUSIVE property={} event floor not met: {}", self.prop, f);
            }
            return 2;
        }
        0
    }
}

pub fn load_known() -> Vec<Known> {
    let path = format!("{}/KNOWN_FINDINGS.txt", verif_root());
    let mut v = Vec::new();
    let text = match std::fs::read_to_string(&path) {
        Ok(t) => t,
        Err(_) => return v,
    };
    for line in text.lines() {
        let line = line.trim();
        if !line.starts_with("known:") {
            continue;
        }
        let (head, text) = match line.find("::") {
            Some(p) => (&line[6..p], line[p + 2..].trim()),
            None => (&line[6..], ""),
        };
        let mut prop = String::new();
        let mut sig = String::new();
        let mut fp = None;
        let mut n = None;
        for tok in head.split_whitespace() {
            if let Some(x) = tok.strip_prefix("property=") {
                prop = x.to_string();
            } else if let Some(x) = tok.strip_prefix("sig=") {
                sig = x.to_string();
            } else if let Some(x) = tok.strip_prefix("fp=") {
                fp = u64::from_str_radix(x, 16).ok();
            } else if let Some(x) = tok.strip_prefix("n=") {
                n = x.parse().ok();
            }
        }
        if !prop.is_empty() && !sig.is_empty() {
            v.push(Known { prop, sig, fp, n, text: text.to_string() });
        }
    }
    v
}

/// thread-local accumulation helper for hot loops
#[derive(Default)]
pub struct Local {
    pub evals: u64,
    pub distinct: HashSet<u64>,
    pub counters: HashMap<&'static str, u64>,
}
impl Local {
    pub fn flush(&mut self, r: &Report) {
        r.eval(self.evals);
        self.evals = 0;
        r.merge_distinct(&self.distinct);
        self.distinct.clear();
        for (k, v) in self.counters.drain() {
            r.count(k, v);
        }
    }
}

/// Thread-local failure aggregation for hot loops: strings are only built for the first few
/// occurrences of a signature; fingerprints are accumulated from numeric hashes.
#[derive(Default)]
pub struct FailAgg {
    map: HashMap<u64, AggB>,
}
struct AggB {
    sig: String,
    what: String,
    count: u64,
    core_count: u64,
    fp: u64,
    witnesses: Vec<String>,
}
impl FailAgg {
    pub fn new() -> FailAgg {
        FailAgg::default()
    }
    /// `key` identifies the signature cheaply; `core` = Some(hash of (input, observed)) for core cases;
    /// `mk` builds (sig, what, witness) and is only called while fewer than 3 witnesses are stored.
    pub fn add(&mut self, key: u64, core: Option<u64>, mk: impl FnOnce() -> (String, String, String)) {
        let e = self.map.entry(key).or_insert_with(|| AggB {
            sig: String::new(),
            what: String::new(),
            count: 0,
            core_count: 0,
            fp: 0,
            witnesses: Vec::new(),
        });
        e.count += 1;
        if let Some(h) = core {
            e.core_count += 1;
            e.fp = e.fp.wrapping_add(h | 1);
        }
        if e.witnesses.len() < 3 {
            let (sig, what, wit) = mk();
            if e.sig.is_empty() {
                e.sig = sig;
                e.what = what;
            }
            e.witnesses.push(wit);
        }
    }
    pub fn flush(&mut self, r: &Report) {
        let mut b = r.buckets.lock().unwrap();
        for (_, a) in self.map.drain() {
            let e = b.entry(a.sig.clone()).or_insert(Bucket {
                count: 0,
                core_count: 0,
                fp: 0,
                what: a.what.clone(),
                witnesses: Vec::new(),
            });
            e.count += a.count;
            e.core_count += a.core_count;
            e.fp = e.fp.wrapping_add(a.fp);
            for w in a.witnesses {
                if e.witnesses.len() < 3 {
                    e.witnesses.push(w);
                }
            }
        }
    }
}

/// hash a tuple of numbers for fingerprints
pub fn hnum(parts: &[u64]) -> u64 {
    let mut h: u64 = 0xcbf29ce484222325;
    for p in parts {
        for i in 0..8 {
            h ^= (p >> (i * 8)) & 0xFF;
            h = h.wrapping_mul(0x100000001b3);
        }
    }
    h
}

/// inverse of util::json_str for the escapes it produces
pub fn unjson(s: &str) -> String {
    let t = s.trim();
    let t = t.strip_prefix('"').unwrap_or(t);
    let t = t.strip_suffix('"').unwrap_or(t);
    let mut o = String::new();
    let mut it = t.chars();
    while let Some(c) = it.next() {
        if c != '\\' {
            o.push(c);
            continue;
        }
        match it.next() {
            Some('n') => o.push('\n'),
            Some('r') => o.push('\r'),
            Some('t') => o.push('\t'),
            Some('u') => {
                let h: String = (0..4).filter_map(|_| it.next()).collect();
                if let Some(ch) = u32::from_str_radix(&h, 16).ok().and_then(char::from_u32) {
                    o.push(ch);
                }
            }
            Some(x) => o.push(x),
            None => {}
        }
    }
    o
}
