//! Whole-program abstract syntax, source renderer with position bookkeeping, independent reference
//! memory image, and a reference interpreter working on the AST (never on the emitted IR).
use crate::ast::*;
use crate::ref8086::*;
use std::collections::HashMap;

#[derive(Clone, Debug, PartialEq, Eq)]
pub enum DK {
    Num(u16),
    Zeros(u16),
    Fill(u16, u16),
    Str(String),
}
#[derive(Clone, Debug, PartialEq, Eq)]
pub struct DataDef {
    pub label: Option<String>,
    pub word: bool,
    pub kind: DK,
}
#[derive(Clone, Debug, PartialEq, Eq)]
pub enum DataItem {
    Set(u16),
    Def(DataDef),
}

#[derive(Clone, Debug, PartialEq, Eq)]
pub enum Item {
    Label(String),
    Ins(Ins),
    /// name, body (Label | Ins | MacroUse)
    Proc(String, Vec<Item>),
    /// name, parameter names, body text
    MacroDef(String, Vec<String>, String),
    /// name, argument texts, expansion as the reference sees it
    MacroUse(String, Vec<String>, Vec<Ins>),
}

#[derive(Clone, Debug, Default)]
pub struct Program {
    pub data: Vec<DataItem>,
    pub items: Vec<Item>,
}

// ---------------------------------------------------------------------------------------
// data image

pub struct DataImage {
    /// (physical address, byte) writes in order
    pub writes: Vec<(u32, u8)>,
    pub labels: HashMap<String, u16>,
    /// a segment's definitions exceed 65536 bytes
    pub overflow: bool,
}

impl DataDef {
    pub fn size(&self) -> u32 {
        let unit = if self.word { 2 } else { 1 };
        match &self.kind {
            DK::Num(_) => unit,
            DK::Zeros(n) => unit * *n as u32,
            DK::Fill(_, n) => unit * *n as u32,
            DK::Str(s) => unit * s.len() as u32,
        }
    }
    pub fn bytes(&self) -> Vec<u8> {
        let mut v = Vec::new();
        let push = |v: &mut Vec<u8>, x: u16, word: bool| {
            v.push(x as u8);
            if word {
                v.push((x >> 8) as u8);
            }
        };
        match &self.kind {
            DK::Num(x) => push(&mut v, *x, self.word),
            DK::Zeros(n) => {
                for _ in 0..*n {
                    push(&mut v, 0, self.word);
                }
            }
            DK::Fill(x, n) => {
                for _ in 0..*n {
                    push(&mut v, *x, self.word);
                }
            }
            DK::Str(s) => {
                for b in s.bytes() {
                    push(&mut v, b as u16, self.word);
                }
            }
        }
        v
    }
}

pub fn data_image(data: &[DataItem]) -> DataImage {
    let mut img = DataImage { writes: Vec::new(), labels: HashMap::new(), overflow: false };
    let mut seg: u16 = 0;
    let mut ctr: u32 = 0;
    for d in data {
        match d {
            DataItem::Set(n) => {
                seg = *n;
                ctr = 0;
            }
            DataItem::Def(def) => {
                if let Some(l) = &def.label {
                    if ctr > 0xFFFF {
                        img.overflow = true;
                    }
                    img.labels.insert(l.clone(), ctr as u16);
                }
                let bytes = def.bytes();
                for (i, b) in bytes.iter().enumerate() {
                    let a = ((seg as u32) * 16 + ctr + i as u32) % MB;
                    img.writes.push((a, *b));
                }
                ctr += bytes.len() as u32;
                if ctr > 0x10000 {
                    img.overflow = true;
                }
            }
        }
    }
    img
}

pub fn image_mem(img: &DataImage) -> Vec<u8> {
    let mut m = vec![0u8; MB as usize];
    for (a, b) in &img.writes {
        m[*a as usize] = *b;
    }
    m
}

// ---------------------------------------------------------------------------------------
// rendering

#[derive(Clone, Debug)]
pub struct InsPos {
    /// 1-based source line of the instruction (of the outermost macro use / the closing brace for an implied ret)
    pub line: usize,
    /// byte offset of the first character of that token in the rendered text
    pub offset: usize,
    /// identity: index into the flattened reference code
    pub flat: usize,
}

#[derive(Clone, Debug, Default)]
pub struct Rendered {
    pub text: String,
    /// one entry per emitted instruction, in emission order
    pub pos: Vec<InsPos>,
}

impl Rendered {
    /// the same program at another scale: `pad` filler lines (blank or comment) in front of it and every line
    /// indented by `indent` blanks; line numbers and offsets of the instruction positions move accordingly
    pub fn scaled(mut self, pad: usize, indent: usize) -> Rendered {
        if indent > 0 {
            let ind = " ".repeat(indent);
            let mut t = String::with_capacity(self.text.len() + indent * 64);
            for l in self.text.split_inclusive('\n') {
                t.push_str(&ind);
                t.push_str(l);
            }
            self.text = t;
            for p in self.pos.iter_mut() {
                p.offset += indent * p.line;
            }
        }
        if pad > 0 {
            let mut front = String::with_capacity(pad * 4);
            for k in 0..pad {
                if k % 7 == 3 {
                    front.push_str("; filler");
                }
                front.push('\n');
            }
            for p in self.pos.iter_mut() {
                p.line += pad;
                p.offset += front.len();
            }
            front.push_str(&self.text);
            self.text = front;
        }
        self
    }
}

/// scale classes for position-sensitive monitors: mostly none, sometimes line numbers beyond 255, columns beyond 255,
/// rarely line numbers beyond 65535
pub fn rand_scale(rng: &mut crate::util::Rng) -> (usize, usize) {
    match rng.below(20) {
        0 | 1 | 2 => (260 + rng.below(100), 0),
        3 | 4 => (0, 250 + rng.below(60)),
        5 => (65540 + rng.below(100), 0),
        6 => (300, 300),
        _ => (0, 0),
    }
}

pub struct Layout {
    pub trailing_newline: bool,
    /// insert blank / comment lines between items with this probability (percent)
    pub filler_pct: u32,
    /// allow several items on one line
    pub pack_pct: u32,
    pub comments: bool,
}
impl Layout {
    pub fn plain() -> Layout {
        Layout { trailing_newline: true, filler_pct: 0, pack_pct: 0, comments: false }
    }
}

struct Rd<'a> {
    text: String,
    line: usize,
    pos: Vec<InsPos>,
    flat: usize,
    sp: &'a mut Spell,
    lay: &'a Layout,
}
impl<'a> Rd<'a> {
    fn newline(&mut self) {
        self.text.push('\n');
        self.line += 1;
    }
    fn sep(&mut self) {
        // separator after an item
        let pack = self.lay.pack_pct > 0 && self.sp.rng.as_mut().map(|r| r.chance(self.lay.pack_pct, 100)).unwrap_or(false);
        if pack {
            self.text.push(' ');
            return;
        }
        if self.lay.comments && self.sp.rng.as_mut().map(|r| r.chance(15, 100)).unwrap_or(false) {
            self.text.push_str(" ; trailing comment, with mov ax,bx inside");
        }
        self.newline();
        let fill = self.lay.filler_pct > 0 && self.sp.rng.as_mut().map(|r| r.chance(self.lay.filler_pct, 100)).unwrap_or(false);
        if fill {
            if self.lay.comments && self.sp.rng.as_mut().map(|r| r.chance(1, 2)).unwrap_or(false) {
                self.text.push_str("; a comment line: hlt");
            }
            self.newline();
        }
    }
    fn ins(&mut self, i: &Ins) {
        let off = self.text.len();
        let s = i.src(self.sp);
        self.pos.push(InsPos { line: self.line, offset: off, flat: self.flat });
        self.flat += 1;
        self.text.push_str(&s);
        self.sep();
    }
    fn item(&mut self, it: &Item) {
        match it {
            Item::Label(l) => {
                self.text.push_str(l);
                self.text.push(':');
                // a label may share the line with what follows
                let same = self.sp.rng.as_mut().map(|r| r.chance(1, 2)).unwrap_or(false);
                if same {
                    self.text.push(' ');
                } else {
                    self.newline();
                }
            }
            Item::Ins(i) => self.ins(i),
            Item::Proc(name, body) => {
                let kw = self.sp.kw("def");
                self.text.push_str(&format!("{} {} {{", kw, name));
                self.newline();
                for b in body {
                    self.item(b);
                }
                // closing brace: the implied ret belongs to this line
                let off = self.text.len();
                self.pos.push(InsPos { line: self.line, offset: off, flat: self.flat });
                self.flat += 1;
                self.text.push('}');
                self.sep();
            }
            Item::MacroDef(name, params, body) => {
                let kw = self.sp.kw("macro");
                self.text.push_str(&format!("{} {}({}) -> {} <-", kw, name, params.join(","), body));
                self.sep();
            }
            Item::MacroUse(name, args, exp) => {
                let off = self.text.len();
                for _ in exp {
                    self.pos.push(InsPos { line: self.line, offset: off, flat: self.flat });
                    self.flat += 1;
                }
                self.text.push_str(&format!("{}({})", name, args.join(",")));
                self.sep();
            }
        }
    }
}

fn render_data(d: &DataItem, sp: &mut Spell) -> String {
    match d {
        DataItem::Set(n) => format!("{} {}", sp.kw("set"), sp.unum(*n as u32)),
        DataItem::Def(def) => {
            let lab = match &def.label {
                Some(l) => format!("{}: ", l),
                None => String::new(),
            };
            let kw = sp.kw(if def.word { "dw" } else { "db" });
            let bits = if def.word { 16 } else { 8 };
            let body = match &def.kind {
                DK::Num(x) => sp.snum(*x, bits),
                DK::Zeros(n) => format!("[{}]", sp.unum(*n as u32)),
                DK::Fill(x, n) => format!("[{}{},{}{}]", sp.snum(*x, bits), sp.osp(), sp.osp(), sp.unum(*n as u32)),
                DK::Str(s) => format!("\"{}\"", s),
            };
            format!("{}{} {}", lab, kw, body)
        }
    }
}

impl Program {
    pub fn render(&self, sp: &mut Spell, lay: &Layout) -> Rendered {
        let mut text = String::new();
        let mut line = 1;
        for d in &self.data {
            text.push_str(&render_data(d, sp));
            text.push('\n');
            line += 1;
        }
        let mut rd = Rd { text, line, pos: Vec::new(), flat: 0, sp, lay };
        for it in &self.items {
            rd.item(it);
        }
        let mut text = rd.text;
        if !lay.trailing_newline {
            while text.ends_with('\n') {
                text.pop();
            }
        } else if !text.ends_with('\n') {
            text.push('\n');
        }
        Rendered { text, pos: rd.pos }
    }
    pub fn render_plain(&self) -> Rendered {
        self.render(&mut Spell::plain(), &Layout::plain())
    }
}

// ---------------------------------------------------------------------------------------
// flattening + reference interpreter

#[derive(Clone, Debug)]
pub struct FlatIns {
    pub ins: Ins,
    pub implied_ret: bool,
}

#[derive(Clone, Debug, Default)]
pub struct Flat {
    pub code: Vec<FlatIns>,
    pub labels: HashMap<String, usize>,
    pub procs: HashMap<String, usize>,
}

fn flatten_items(items: &[Item], f: &mut Flat) {
    for it in items {
        match it {
            Item::Label(l) => {
                f.labels.insert(l.clone(), f.code.len());
            }
            Item::Ins(i) => f.code.push(FlatIns { ins: i.clone(), implied_ret: false }),
            Item::Proc(name, body) => {
                f.procs.insert(name.clone(), f.code.len());
                flatten_items(body, f);
                f.code.push(FlatIns { ins: Ins::Ret, implied_ret: true });
            }
            Item::MacroDef(..) => {}
            Item::MacroUse(_, _, exp) => {
                for i in exp {
                    f.code.push(FlatIns { ins: i.clone(), implied_ret: false });
                }
            }
        }
    }
}

impl Program {
    pub fn flatten(&self) -> Flat {
        let mut f = Flat::default();
        flatten_items(&self.items, &mut f);
        f
    }
}

#[derive(Clone, Debug, PartialEq, Eq)]
pub enum RefEnd {
    Halt,
    RetWithoutCall(usize),
    DivideError(usize),
    StepLimit,
    /// console input service or unsupported AH met at this flat index
    Io(usize),
    NoStart,
}

pub struct RefRun {
    pub trace: Vec<usize>,
    pub end: RefEnd,
    pub regs: Regs,
    pub mem: Vec<u8>,
    /// bytes the program writes through INT 21h/2 and INT 10h (raw byte values)
    pub out: Vec<u8>,
    /// (flat index, registers, DS-relative) at every print statement, for the print oracle
    pub prints: Vec<(usize, Regs)>,
    /// an accept-set (more than one acceptable outcome) was met: final state not unique
    pub ambiguous: bool,
}

pub fn initial_regs() -> Regs {
    let mut r: Regs = [0; 14];
    r[FLAG] = 0xF000;
    r[CS] = 0xFFFF;
    r
}

/// Reference execution of a whole program. `max_steps` bounds the run.
pub fn ref_run(p: &Program, max_steps: usize) -> RefRun {
    let flat = p.flatten();
    let img = data_image(&p.data);
    let mut mem = image_mem(&img);
    let mut regs = initial_regs();
    let cx = Ctx { labels: &img.labels };
    let mut trace = Vec::new();
    let mut out = Vec::new();
    let mut prints = Vec::new();
    let mut ambiguous = false;
    let mut stack: Vec<usize> = Vec::new();
    let mut idx = match flat.labels.get("start") {
        Some(i) => *i,
        None => return RefRun { trace, end: RefEnd::NoStart, regs, mem, out, prints, ambiguous },
    };
    let end;
    loop {
        if idx >= flat.code.len() {
            end = RefEnd::Halt; // the driver's appended hlt
            break;
        }
        if trace.len() >= max_steps {
            end = RefEnd::StepLimit;
            break;
        }
        trace.push(idx);
        let ins = &flat.code[idx].ins;
        let outs = exec(&regs, &mem, &cx, ins);
        if outs.len() > 1 {
            ambiguous = true;
        }
        let o = &outs[0];
        // undefined flag bits: keep the reference's own choice but remember the ambiguity
        if o.care != 0xFFFF {
            ambiguous = true;
        }
        regs = o.r;
        for (a, v) in &o.memw {
            mem[*a as usize] = *v;
        }
        match &o.flow {
            Flow::Next => idx += 1,
            Flow::Halt => {
                end = RefEnd::Halt;
                break;
            }
            Flow::Print => {
                prints.push((idx, regs));
                idx += 1;
            }
            Flow::Jump(l) => match flat.labels.get(l) {
                Some(t) => idx = *t,
                None => {
                    end = RefEnd::NoStart;
                    break;
                }
            },
            Flow::Call(pn) => match flat.procs.get(pn) {
                Some(t) => {
                    stack.push(idx + 1);
                    idx = *t;
                }
                None => {
                    end = RefEnd::NoStart;
                    break;
                }
            },
            Flow::Ret => match stack.pop() {
                Some(t) => idx = t,
                None => {
                    end = RefEnd::RetWithoutCall(idx);
                    break;
                }
            },
            Flow::Int(0) => {
                end = RefEnd::DivideError(idx);
                break;
            }
            Flow::Int(3) => idx += 1,
            Flow::Int(n) => {
                let ah = (regs[AX] >> 8) as u8;
                match (*n, ah) {
                    (0x21, 2) => {
                        let dl = regs[DX] as u8;
                        out.push(dl);
                        regs[AX] = (regs[AX] & 0xFF00) | dl as u16;
                        idx += 1;
                    }
                    (0x10, 0x0A) => {
                        for _ in 0..regs[CX] {
                            out.push(regs[AX] as u8);
                        }
                        idx += 1;
                    }
                    (0x10, 0x13) => {
                        for _ in 0..(regs[DX] & 0xFF) {
                            out.push(b' ');
                        }
                        for i in 0..regs[CX] as u32 {
                            let a = (phys(regs[ES], regs[BP]) + i) % MB;
                            out.push(mem[a as usize]);
                        }
                        idx += 1;
                    }
                    _ => {
                        end = RefEnd::Io(idx);
                        break;
                    }
                }
            }
        }
    }
    RefRun { trace, end, regs, mem, out, prints, ambiguous }
}
