//! C08 — programs start at 'start', follow labels / calls / returns exactly, halt at the end.
use crate::asm::*;
use crate::ast::*;
use crate::cli::*;
use crate::genprog::*;
use crate::prog::*;
use crate::ref8086::*;
use crate::report::{Failure, Report};
use crate::util::*;

/// small-scope enumeration: a program is a sequence of block codes
const ALPHABET: usize = 11;
fn enum_block(code: usize, uid: &mut u16, lab: &mut usize) -> Vec<Item> {
    let mut id = || {
        *uid += 1;
        Item::Ins(Ins::Mov(Loc::R16(R16::AX), Src::Imm(*uid)))
    };
    let mut label = || {
        *lab += 1;
        format!("L{}", *lab)
    };
    match code {
        0 => vec![id()],
        1 => {
            let l = label();
            vec![Item::Ins(Ins::J(Jcc::Jmp, l.clone())), id(), Item::Label(l)]
        }
        2 => {
            let l = label();
            vec![Item::Ins(Ins::Simple("stc")), Item::Ins(Ins::J(Jcc::Jb, l.clone())), id(), Item::Label(l)]
        }
        3 => {
            let l = label();
            vec![Item::Ins(Ins::Simple("clc")), Item::Ins(Ins::J(Jcc::Jb, l.clone())), id(), Item::Label(l)]
        }
        4 => {
            let l = label();
            vec![Item::Ins(Ins::Mov(Loc::R16(R16::CX), Src::Imm(2))), Item::Label(l.clone()), id(), Item::Ins(Ins::J(Jcc::Loop, l))]
        }
        5 => vec![Item::Ins(Ins::Call("fa".into()))],
        6 => vec![Item::Ins(Ins::Call("fb".into()))],
        7 => vec![Item::Ins(Ins::Simple("hlt"))],
        8 => {
            *uid += 1;
            vec![Item::MacroUse("mset".into(), vec![uid.to_string()], macro_expansion("mset", &[*uid]))]
        }
        9 => vec![Item::Ins(Ins::Print(PrintCmd::Flags))],
        _ => {
            // a label directly before a procedure-free construct, jumped to from before
            let l = label();
            vec![Item::Ins(Ins::J(Jcc::Jmp, l.clone())), Item::Label(l), id()]
        }
    }
}

fn enum_program(codes: &[usize], variant: usize) -> Program {
    let mut uid = 100u16;
    let mut lab = 0usize;
    let mut items = macro_defs();
    // fa: leaf procedure; fb: calls fa, has an explicit ret in the middle
    let mut mk = |uid: &mut u16| {
        *uid += 1;
        Item::Ins(Ins::Mov(Loc::R16(R16::BX), Src::Imm(*uid)))
    };
    items.push(Item::Proc("fa".into(), vec![mk(&mut uid)]));
    let fb_body = vec![mk(&mut uid), Item::Ins(Ins::Call("fa".into())), Item::Ins(Ins::Simple("clc")), Item::Ins(Ins::J(Jcc::Jb, "Lfb".into())), Item::Ins(Ins::Ret), Item::Label("Lfb".into()), mk(&mut uid)];
    items.push(Item::Proc("fb".into(), fb_body));
    if variant == 1 {
        // label before 'start', procedures between
        items.insert(3, Item::Label("before".into()));
    }
    items.push(Item::Label("start".into()));
    for c in codes {
        items.extend(enum_block(*c, &mut uid, &mut lab));
    }
    if variant == 2 {
        // label last in the program, reached by a jump
        items.insert(items.iter().position(|i| matches!(i, Item::Label(l) if l == "start")).unwrap() + 1, Item::Ins(Ins::J(Jcc::Jmp, "theend".into())));
        items.push(Item::Label("theend".into()));
    }
    Program { data: vec![], items }
}

fn divergence_kind(flat: &Flat, rtrace: &[usize], pos: usize) -> &'static str {
    if pos == 0 {
        return "start";
    }
    let prev = rtrace[pos - 1];
    match flat.code.get(prev).map(|f| (&f.ins, f.implied_ret)) {
        Some((Ins::J(Jcc::Jmp, _), _)) => "after-jmp",
        Some((Ins::J(Jcc::Loop | Jcc::Loope | Jcc::Loopne, _), _)) => "after-loop",
        Some((Ins::J(..), _)) => "after-conditional-jump",
        Some((Ins::Call(_), _)) => "after-call",
        Some((Ins::Ret, true)) => "after-implied-ret",
        Some((Ins::Ret, false)) => "after-ret",
        Some((Ins::Simple("hlt"), _)) => "after-hlt",
        Some((Ins::Print(_), _)) => "after-print",
        _ => "sequence",
    }
}

pub struct Checked {
    pub ok: bool,
    pub steps: usize,
}

/// in-process replica vs reference; optionally the real binary's hook trace vs the replica
pub fn check_program(rep: &Report, p: &Program, text: &str, core_id: Option<String>, cli: bool, tag: &str) -> Checked {
    check_program_with(rep, p, text, core_id, cli, tag, 5000, 20_000)
}

pub fn check_program_with(rep: &Report, p: &Program, text: &str, core_id: Option<String>, cli: bool, tag: &str, ref_steps: usize, replica_steps: usize) -> Checked {
    check_program_sig(rep, p, text, core_id, cli, tag, ref_steps, replica_steps, "trace")
}

/// `sig_prefix` replaces the leading "trace" of the failure signatures (other monitors reuse this comparison)
pub fn check_program_sig(rep: &Report, p: &Program, text: &str, core_id: Option<String>, cli: bool, tag: &str, ref_steps: usize, replica_steps: usize, sig_prefix: &str) -> Checked {
    rep.eval(1);
    let core = core_id.is_some();
    let fail = |sig: String, what: String, detail: String| {
        let sig = if sig_prefix != "trace" { sig.replacen("trace", sig_prefix, 1) } else { sig };
        rep.fail(Failure {
            sig,
            what,
            witness: format!("{{\"kind\": \"src\", \"source\": {}, \"detail\": {}}}", json_str(text), json_str(&detail)),
            core_item: core_id.as_ref().map(|c| format!("{}|{}", c, detail)),
        });
    };
    let a = match assemble(text) {
        Ok(a) => a,
        Err(e) => {
            rep.count("generated programs refused by the assembler (not judged here)", 1);
            let _ = e;
            return Checked { ok: false, steps: 0 };
        }
    };
    let start = match a.driver_checks() {
        Ok(s) => s,
        Err(_) => {
            rep.count("generated programs refused by the driver checks (not judged here)", 1);
            return Checked { ok: false, steps: 0 };
        }
    };
    let rr = ref_run(p, ref_steps);
    if rr.end == RefEnd::StepLimit {
        rep.count("programs discarded: reference exceeded the step cap", 1);
        return Checked { ok: false, steps: 0 };
    }
    let flat = p.flatten();
    let (trace, end, regs) = with_fresh_vm(|vm| {
        // the driver's own order: data lines through the data loader, DS back to 0, then the run loop
        if crate::asm::load_data(vm, &a.data).is_err() {
            return (Vec::new(), RunEnd::BadIndex(usize::MAX), crate::machine::read_regs(vm));
        }
        let t = run_replica(&a, start, vm, replica_steps);
        (t.trace, t.end, crate::machine::read_regs(vm))
    });
    let n = a.code.len();
    // the driver's appended hlt is not a source instruction
    let mut obs: Vec<usize> = trace.clone();
    let fell_off = obs.last() == Some(&n);
    if fell_off {
        obs.pop();
    }
    let mut ok = true;
    // compare traces
    let m = obs.len().min(rr.trace.len());
    let div = (0..m).find(|&i| obs[i] != rr.trace[i]).or(if obs.len() != rr.trace.len() { Some(m) } else { None });
    if let Some(pos) = div {
        ok = false;
        let kind = if pos < rr.trace.len() || pos == 0 { divergence_kind(&flat, &rr.trace, pos) } else { divergence_kind(&flat, &rr.trace, rr.trace.len()) };
        let extra = if pos >= rr.trace.len() { "executes-beyond-end" } else if pos >= obs.len() { "stops-early" } else { "wrong-successor" };
        fail(
            format!("trace:{}:{}", kind, extra),
            format!("C08: executed instruction trace diverges from the reference ({}, {})", kind, extra),
            format!("{}: position {}: reference {:?} observed {:?}; reference end {:?}, observed end {:?}", tag, pos, rr.trace.get(pos), obs.get(pos), rr.end, end),
        );
    } else {
        // end kinds
        let end_ok = match (&rr.end, &end) {
            (RefEnd::Halt, RunEnd::Halt) => true,
            (RefEnd::RetWithoutCall(i), RunEnd::Error(j, _)) => i == j,
            (RefEnd::DivideError(i), RunEnd::DivideError(j)) => i == j,
            (RefEnd::Io(i), RunEnd::IoInterrupt(j, _)) => i == j,
            _ => false,
        };
        if !end_ok {
            ok = false;
            fail("trace:end-kind".into(), "C08: the program ends differently from the reference (halt / reported error)".into(), format!("{}: reference {:?} observed {:?}", tag, rr.end, end));
        } else if rr.end == RefEnd::Halt {
            let mut d = Vec::new();
            for i in 1..14 {
                if regs[i] != rr.regs[i] {
                    d.push(format!("{} {:04x}!={:04x}", REG_NAMES[i], regs[i], rr.regs[i]));
                }
            }
            if !rr.ambiguous && regs[FLAG] != rr.regs[FLAG] {
                d.push(format!("flags {:04x}!={:04x}", regs[FLAG], rr.regs[FLAG]));
            }
            if !d.is_empty() {
                ok = false;
                fail("trace:final-state".into(), "C08: same instruction trace but different final registers".into(), format!("{}: {}", tag, d.join(", ")));
            }
        }
    }
    let jumps = rr.trace.windows(2).filter(|w| w[1] != w[0] + 1).count();
    rep.distinct_str(&format!("len{}|jumps{}|end{:?}", rr.trace.len(), jumps, std::mem::discriminant(&rr.end)));
    rep.count("taken control transfers observed", jumps as u64);
    if cli {
        // int 3 breakpoints prompt: answer every prompt with 'n' (transparency of stepping itself is C20's subject)
        let nexts = b"n\n".repeat(600);
        let out = run_cli(text.as_bytes(), &CliOpts { env: vec![("VERIF_NOMEM", "1")], stdin: &nexts, cap: 64 << 20, timeout_s: 60.0, ..Default::default() });
        rep.count("programs cross-checked on the real binary", 1);
        if out.timed_out || out.flooded {
            rep.inconclusive("cli watchdog / output cap");
        } else if !out.clean_exit() {
            fail("trace:cli-abort".into(), "C08: the binary aborts on a structured program".into(), out.status_str());
        } else {
            let parsed = parse_records(&out.stdout);
            let cli_trace: Vec<usize> = parsed.recs.iter().map(|r| r.idx).collect();
            if cli_trace != trace {
                let pos = (0..cli_trace.len().min(trace.len())).find(|&i| cli_trace[i] != trace[i]).unwrap_or(cli_trace.len().min(trace.len()));
                fail(
                    "trace:driver-vs-replica".into(),
                    "C08: the real driver executes a different instruction sequence than the run loop replica".into(),
                    format!("{}: position {}: driver {:?} replica {:?}", tag, pos, cli_trace.get(pos), trace.get(pos)),
                );
            }
            // nothing is executed after HLT / the end: the last record must be a hlt (or the failing instruction)
            if rr.end == RefEnd::Halt {
                if let Some(l) = parsed.recs.last() {
                    if l.line != "hlt" {
                        fail("trace:cli-no-halt".into(), "C08: the binary did not stop at HLT / the end of the program".into(), format!("last record {:?}", l.line));
                    }
                }
            }
        }
    }
    Checked { ok, steps: rr.trace.len() }
}

/// programs longer than 65536 instructions: calls, returns and jumps whose indices do not fit 16 bits
fn long_programs(rep: &Report) {
    let shapes: Vec<usize> = vec![65_531, 65_532, 65_533, 65_534, 70_000];
    par_for(shapes.len(), 1, |i| {
        let filler = shapes[i];
        let mut items: Vec<Item> = Vec::new();
        items.push(Item::Proc("bump".into(), vec![Item::Ins(Ins::Un(Un::Inc, Loc::R16(R16::BX)))]));
        items.push(Item::Proc("twice".into(), vec![Item::Ins(Ins::Call("bump".into())), Item::Ins(Ins::Call("bump".into()))]));
        items.push(Item::Label("start".into()));
        items.push(Item::Ins(Ins::Mov(Loc::R16(R16::AX), Src::Imm(0))));
        items.push(Item::Ins(Ins::J(Jcc::Jmp, "far".into())));
        for _ in 0..filler {
            items.push(Item::Ins(Ins::Simple("cmc")));
        }
        items.push(Item::Label("far".into()));
        items.push(Item::Ins(Ins::Call("bump".into())));
        items.push(Item::Ins(Ins::Mov(Loc::R16(R16::SI), Src::Imm(7))));
        items.push(Item::Ins(Ins::Call("twice".into())));
        items.push(Item::Ins(Ins::Mov(Loc::R16(R16::CX), Src::Imm(2))));
        items.push(Item::Label("back".into()));
        items.push(Item::Ins(Ins::Call("bump".into())));
        items.push(Item::Ins(Ins::J(Jcc::Loop, "back".into())));
        items.push(Item::Ins(Ins::Mov(Loc::R16(R16::DI), Src::Imm(9))));
        let p = Program { data: vec![], items };
        let text = p.render_plain().text;
        check_program_with(rep, &p, &text, Some(format!("long{}", filler)), i == 1 || i == 4, "long", 300_000, 600_000);
    });
    rep.count("programs longer than 65536 instructions (calls/jumps/loops beyond index 65535)", shapes.len() as u64);
}

/// call depth: self-recursion bounded by a counter, and procedures left by a jump (their return index stays stacked)
fn deep_calls(rep: &Report) {
    let depths: Vec<usize> = vec![1, 2, 100, 127, 128, 129, 130, 200, 255, 256, 257, 1000, 5000, 32767, 32768, 32769, 40000];
    par_for(depths.len() * 2, 1, |j| {
        let d = depths[j / 2];
        let p = if j % 2 == 0 {
            // def rec { inc bx  dec cx  jcxz out  call rec  out: inc dx }   start: mov cx,d  call rec  mov si,77
            Program {
                data: vec![],
                items: vec![
                    Item::Proc(
                        "rec".into(),
                        vec![
                            Item::Ins(Ins::Un(Un::Inc, Loc::R16(R16::BX))),
                            Item::Ins(Ins::Un(Un::Dec, Loc::R16(R16::CX))),
                            Item::Ins(Ins::J(Jcc::Jcxz, "out".into())),
                            Item::Ins(Ins::Call("rec".into())),
                            Item::Label("out".into()),
                            Item::Ins(Ins::Un(Un::Inc, Loc::R16(R16::DX))),
                        ],
                    ),
                    Item::Label("start".into()),
                    Item::Ins(Ins::Mov(Loc::R16(R16::CX), Src::Imm(d as u16))),
                    Item::Ins(Ins::Call("rec".into())),
                    Item::Ins(Ins::Mov(Loc::R16(R16::SI), Src::Imm(77))),
                ],
            }
        } else {
            // def lv { jmp back }   start: mov cx,d  again: call lv  back: inc bx  loop again  mov si,78
            Program {
                data: vec![],
                items: vec![
                    Item::Proc("lv".into(), vec![Item::Ins(Ins::J(Jcc::Jmp, "back".into()))]),
                    Item::Label("start".into()),
                    Item::Ins(Ins::Mov(Loc::R16(R16::CX), Src::Imm(d as u16))),
                    Item::Label("again".into()),
                    Item::Ins(Ins::Call("lv".into())),
                    Item::Label("back".into()),
                    Item::Ins(Ins::Un(Un::Inc, Loc::R16(R16::BX))),
                    Item::Ins(Ins::J(Jcc::Loop, "again".into())),
                    Item::Ins(Ins::Mov(Loc::R16(R16::SI), Src::Imm(78))),
                ],
            }
        };
        let text = p.render_plain().text;
        check_program_with(rep, &p, &text, Some(format!("deep{}k{}", d, j % 2)), d == 129 || d == 1000 || d == 257 || d == 32769 || d == 40000, if j % 2 == 0 { "recursion" } else { "abandoned-frames" }, d * 8 + 100_000, d * 8 + 200_000);
    });
    rep.count("call-depth programs (recursion and abandoned frames up to depth 40000)", (depths.len() * 2) as u64);
}

pub fn run(rep: &Report) {
    long_programs(rep);
    deep_calls(rep);
    // (1) bounded-exhaustive small scope
    let t = rep.thorough();
    let maxlen = if t { 4 } else { 3 };
    let mut programs: Vec<(Vec<usize>, usize)> = Vec::new();
    for len in 1..=maxlen {
        let total = ALPHABET.pow(len as u32);
        for k in 0..total {
            let mut codes = Vec::new();
            let mut x = k;
            for _ in 0..len {
                codes.push(x % ALPHABET);
                x /= ALPHABET;
            }
            for variant in 0..3 {
                if len == maxlen && variant > 0 && k % 7 != 0 {
                    continue;
                }
                programs.push((codes.clone(), variant));
            }
        }
    }
    let np = programs.len();
    par_for(np, 16, |i| {
        let (codes, variant) = &programs[i];
        let p = enum_program(codes, *variant);
        let text = p.render_plain().text;
        // labels at the very end of the program (variant 2) index the driver's appended hlt: always through the real driver
        let cli = *variant == 2 || i % (if t { 7 } else { 13 }) == 0;
        check_program(rep, &p, &text, Some(format!("enum{:?}v{}", codes, variant)), cli, "enumerated");
        if i == 57 {
            rep.sample(format!("enumerated program {:?} variant {}: {:?}", codes, variant, text));
        }
    });
    rep.count("bounded-exhaustive programs (block sequences up to the scope, 3 label/procedure placements)", np as u64);
    // (2) random structured programs, random layouts
    let n = if t { 150_000 } else { 2500 };
    let seed = rep.seed;
    par_for(n, 8, |i| {
        let core = i < 300;
        let mut rng = if core { Rng::new(0xC08).fork(i as u64) } else { Rng::new(seed).fork(0xC08_0000 + i as u64) };
        let mut p = structured_program(&mut rng, &SOpts { prints: i % 3 == 0, int3: i % 5 == 0, max_blocks: 3 + i % 8, ..Default::default() });
        // every fourth program: one code label carries the name of a procedure (different tables, same spelling)
        let collided = i % 4 == 1 && crate::genprog::collide_names(&mut p, &mut rng);
        if collided {
            rep.count("programs where a label and a procedure share one name", 1);
        }
        let mut sp = Spell::random(rng.fork(1));
        let lay = Layout { trailing_newline: i % 2 == 0, filler_pct: 20, pack_pct: if i % 4 == 0 { 20 } else { 0 }, comments: false };
        // now and then at another scale (hundreds / tens of thousands of lines in front, deep indentation)
        let (pad, indent) = if i % 3 == 2 { rand_scale(&mut rng) } else { (0, 0) };
        let text = p.render(&mut sp, &lay).scaled(pad, indent).text;
        let cli = collided || i % (if t { 6 } else { 5 }) == 0;
        check_program(rep, &p, &text, if core { Some(format!("rnd{}", i)) } else { None }, cli, "random");
        if i == 3 {
            rep.sample(format!("structured program: {:?}", text));
        }
    });
    rep.floor("programs", rep.evals(), 2000);
    rep.floor("taken control transfers observed", rep.counter("taken control transfers observed"), 2000);
    rep.floor("programs cross-checked on the real binary", rep.counter("programs cross-checked on the real binary"), 100);
}

pub const RULE: &str = "structured programs built from identity-carrying instructions (mov reg,<unique id>): forward jumps (taken and not taken, with known flag state), counted loops, procedures calling procedures, explicit ret in the middle and implied ret at the closing brace, macro uses, prints, int 3, hlt at random places, labels before instructions / procedures / macro uses / prints / at the end of the file; block sequences up to the scope are enumerated exhaustively (3 label/procedure placements), self-recursion and procedures left by a jump up to 5000 stacked returns; programs of more than 65536 instructions place calls, returns, jumps and loops beyond instruction index 65535; larger programs are random with random layout (several items per line, blank lines, with/without final newline). Oracle: a reference interpreter over the AST; the sequence of instruction indices handed to Interpreter::parse by a replica of the driver loop must equal the reference trace, end the same way and leave the same registers, and the real binary's hook trace must equal the replica's. Distinct = (trace length, number of taken transfers, end kind). Also: a label and a procedure sharing one name (every fourth random program, through the binary), recursion 32767..40000 deep, programs at other scales (hundreds / tens of thousands of lines in front, deep indentation); the replica loads the program's data like the driver.";
