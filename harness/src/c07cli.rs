//! C07 process plane: REP loops through the real driver's REPEAT handling; final state from the hook.
use crate::ast::*;
use crate::cli::*;
use crate::prog::*;
use crate::ref8086::*;
use crate::report::{Failure, Report};
use crate::util::*;

fn mov16(r: R16, v: u16) -> Item {
    Item::Ins(Ins::Mov(Loc::R16(r), Src::Imm(v)))
}

/// `trap`: load the trap flag through POPF before the string instruction (single-stepping by trap flag)
pub fn build(rng: &mut Rng, trap: bool) -> (Program, String) {
    let op = *rng.pick(&ALL_STR);
    let w = if rng.chance(1, 2) { W::B } else { W::W };
    let rep = if op.compares() { *rng.pick(&[Rep::None, Rep::Repe, Rep::Repne]) } else { *rng.pick(&[Rep::None, Rep::Rep]) };
    let cx = rng.below(12) as u16;
    let df = rng.chance(1, 3);
    let es = *rng.pick(&[0u16, 0, 0x10, 0x100]);
    let text: String = (0..24).map(|_| (b'a' + rng.below(6) as u8) as char).collect();
    let text2: String = if rng.chance(1, 2) {
        let mut t: Vec<u8> = text.bytes().collect();
        let k = rng.below(t.len());
        t[k] = b'z';
        String::from_utf8(t).unwrap()
    } else {
        text.clone()
    };
    let data = vec![
        DataItem::Def(DataDef { label: Some("s1".into()), word: false, kind: DK::Str(text) }),
        DataItem::Def(DataDef { label: Some("gap".into()), word: false, kind: DK::Zeros(40) }),
        DataItem::Def(DataDef { label: Some("s2".into()), word: false, kind: DK::Str(text2) }),
    ];
    let si = if df { 20 } else { rng.below(4) as u16 };
    let di_off: u16 = 64 + if df { 20 } else { rng.below(4) as u16 };
    // DI is relative to ES: make ES:DI address the s2 area (physical 64..) where possible
    let di = di_off.wrapping_sub(es.wrapping_mul(16));
    let mut items = vec![
        Item::Label("start".into()),
        mov16(R16::AX, es),
        Item::Ins(Ins::Mov(Loc::SR(SR::ES), Src::Loc(Loc::R16(R16::AX)))),
        mov16(R16::SI, si),
        mov16(R16::DI, di),
        mov16(R16::CX, cx),
    ];
    if trap {
        items.extend(vec![mov16(R16::AX, 0x0100 | (rng.u16() & 0x08D5)), Item::Ins(Ins::Push(Loc::R16(R16::AX))), Item::Ins(Ins::Simple("popf"))]);
    }
    items.extend(vec![
        mov16(R16::AX, 0x6261 + rng.below(3) as u16),
        Item::Ins(Ins::Simple(if df { "std" } else { "cld" })),
        Item::Ins(Ins::Str(rep, op, w)),
    ]);
    items.push(Item::Ins(Ins::Simple("cld")));
    let desc = format!("{}{} {} cx={} df={} es={:04x}", rep.ir(), op.name(), w.kw(), cx, df, es);
    (Program { data, items }, desc)
}

pub fn run(rep: &Report) {
    let n = if rep.thorough() { 4500 } else { 240 };
    let seed = rep.seed;
    par_for(n, 1, |i| {
        let core = i < 90;
        let mut rng = if core { Rng::new(0xC07C).fork(i as u64) } else { Rng::new(seed).fork(0xC07C_0000 + i as u64) };
        // three ways to run the same kind of program: plain, single-stepped by -i, single-stepped by the trap flag
        // (every prompt answered with n): the REP loop goes through the driver's REPEAT handling in each
        let mode = ["plain", "interpreted", "trap-flag"][i % 3];
        let (p, desc) = build(&mut rng, mode == "trap-flag");
        let desc = format!("{} [{}]", desc, mode);
        // the spelling varies too: every other program has its mnemonics, prefixes, registers and keywords in upper case
        let src = if (i / 3) % 2 == 1 { p.render(&mut Spell::upper(), &Layout::plain()).text } else { p.render_plain().text };
        let rr = ref_run(&p, 10_000);
        let nexts = b"n\n".repeat(800);
        let out = run_cli(src.as_bytes(), &CliOpts { interpreted: mode == "interpreted", stdin: if mode == "plain" { b"" } else { &nexts }, cap: 32 << 20, ..Default::default() });
        rep.eval(1);
        let parsed = parse_records(&out.stdout);
        let fail = |sym: &str, what: String, extra: String| {
            rep.fail(Failure {
                sig: if mode == "plain" { format!("cli:string:{}", sym) } else { format!("cli:string:{}:{}", mode, sym) },
                what: format!("C07 CLI: {}", what),
                witness: format!("{{\"kind\": \"cli\", \"source\": {}, \"case\": {}, \"status\": {}, \"detail\": {}}}", json_str(&src), json_str(&desc), json_str(&out.status_str()), json_str(&extra)),
                core_item: if core { Some(format!("{}|{}", i, sym)) } else { None },
            });
        };
        if out.timed_out {
            rep.inconclusive("cli watchdog");
            return;
        }
        if !out.clean_exit() {
            fail("crash", "the emulator aborted while executing a string program".into(), String::new());
            return;
        }
        let last = match parsed.recs.last() {
            Some(l) if l.line == "hlt" => l,
            _ => {
                // program did not reach its end: an emitted line was rejected ("Internal Error") or similar
                let txt = String::from_utf8_lossy(&parsed.plain).to_string();
                if txt.contains("Internal Error") {
                    fail("internal-error", "an accepted string program hit the driver's Internal Error path".into(), txt);
                } else {
                    fail("no-halt", "string program did not run to its end".into(), txt);
                }
                return;
            }
        };
        if rr.end != RefEnd::Halt {
            rep.inconclusive("reference did not halt");
            return;
        }
        rep.distinct_str(&format!("{}|{}", desc, parsed.recs.len()));
        let mut diffs = Vec::new();
        for r in 1..14 {
            if last.regs[r] != rr.regs[r] {
                diffs.push(format!("{} expected {:04x} observed {:04x}", REG_NAMES[r], rr.regs[r], last.regs[r]));
            }
        }
        if (last.regs[FLAG] ^ rr.regs[FLAG]) & !0 != 0 {
            diffs.push(format!("flags expected {:04x} observed {:04x}", rr.regs[FLAG], last.regs[FLAG]));
        }
        let mem_ok = match &last.dump {
            Some(d) => dump_to_mem(d) == rr.mem,
            None => true,
        };
        if !mem_ok {
            diffs.push("memory differs".into());
        }
        if !diffs.is_empty() {
            let what = if diffs.iter().any(|d| d.starts_with("memory")) { "final-memory" } else if diffs.iter().any(|d| d.starts_with("flags")) && diffs.len() == 1 { "final-flags" } else { "final-registers" };
            fail(what, format!("final state of `{}` differs from the reference REP loop", desc.split(" cx=").next().unwrap_or("")), diffs.join("; "));
        }
        if i == 0 {
            rep.sample(format!("cli string program: {} -> {} hook records, final cx={:04x} si={:04x} di={:04x}", desc, parsed.recs.len(), last.regs[CX], last.regs[SI], last.regs[DI]));
        }
    });
    rep.count("CLI string programs", n as u64);
}
