//! Independent, deliberately liberal reader of emitted IR lines (any spacing, decimal / hex / binary
//! constants, optional size keywords, either operand order for xchg). Returns None for a line it
//! cannot read at all (counted as inconclusive by the callers, never as a violation by itself).
use crate::ast::*;

#[derive(Debug, Clone, PartialEq)]
enum Tok {
    Id(String),
    Num(i64),
    P(char),
    Arrow,
}

fn lex(s: &str) -> Option<Vec<Tok>> {
    let b: Vec<char> = s.chars().collect();
    let mut i = 0;
    let mut v = Vec::new();
    while i < b.len() {
        let c = b[i];
        if c.is_whitespace() {
            i += 1;
        } else if c.is_ascii_alphabetic() || c == '_' {
            let st = i;
            while i < b.len() && (b[i].is_ascii_alphanumeric() || b[i] == '_') {
                i += 1;
            }
            v.push(Tok::Id(b[st..i].iter().collect::<String>()));
        } else if c.is_ascii_digit() || (c == '-' && i + 1 < b.len() && b[i + 1].is_ascii_digit()) {
            let neg = c == '-';
            if neg {
                i += 1;
            }
            let st = i;
            while i < b.len() && b[i].is_ascii_alphanumeric() {
                i += 1;
            }
            let t: String = b[st..i].iter().collect();
            let tl = t.to_ascii_lowercase();
            let val = if let Some(h) = tl.strip_prefix("0x") {
                i64::from_str_radix(h, 16).ok()?
            } else if let Some(bn) = tl.strip_prefix("0b") {
                i64::from_str_radix(bn, 2).ok()?
            } else {
                tl.parse::<i64>().ok()?
            };
            v.push(Tok::Num(if neg { -val } else { val }));
        } else if c == '-' && i + 1 < b.len() && b[i + 1] == '>' {
            v.push(Tok::Arrow);
            i += 2;
        } else if "[],:".contains(c) {
            v.push(Tok::P(c));
            i += 1;
        } else {
            return None;
        }
    }
    Some(v)
}

fn r8(s: &str) -> Option<R8> {
    ALL_R8.iter().copied().find(|r| r.name() == s)
}
fn r16(s: &str) -> Option<R16> {
    ALL_R16.iter().copied().find(|r| r.name() == s)
}
fn sr(s: &str) -> Option<SR> {
    ALL_SR.iter().copied().find(|r| r.name() == s)
}

struct P {
    t: Vec<Tok>,
    i: usize,
}
impl P {
    fn peek(&self) -> Option<&Tok> {
        self.t.get(self.i)
    }
    fn next(&mut self) -> Option<Tok> {
        let x = self.t.get(self.i).cloned();
        self.i += 1;
        x
    }
    fn eat(&mut self, c: char) -> bool {
        if self.peek() == Some(&Tok::P(c)) {
            self.i += 1;
            true
        } else {
            false
        }
    }
    fn id(&mut self) -> Option<String> {
        match self.next()? {
            Tok::Id(s) => Some(s.to_ascii_lowercase()),
            _ => None,
        }
    }
    fn num(&mut self) -> Option<i64> {
        match self.next()? {
            Tok::Num(n) => Some(n),
            _ => None,
        }
    }
    fn done(&self) -> bool {
        self.i >= self.t.len()
    }
    /// memory operand body after an optional "seg:" : [ ... ]
    fn mem(&mut self, seg: Option<SR>) -> Option<Mem> {
        if !self.eat('[') {
            return None;
        }
        let form = match self.next()? {
            Tok::Num(n) => MemForm::Direct(n as u16),
            Tok::Id(a) => {
                let a = r16(&a.to_ascii_lowercase())?;
                if self.eat(',') {
                    match self.next()? {
                        Tok::Num(d) => {
                            if matches!(a, R16::BX | R16::BP) {
                                MemForm::Based(a, d as i16)
                            } else {
                                MemForm::Indexed(a, d as i16)
                            }
                        }
                        Tok::Id(b) => {
                            let b = r16(&b.to_ascii_lowercase())?;
                            let d = if self.eat(',') { Some(self.num()? as i16) } else { None };
                            MemForm::BasedIndexed(a, b, d)
                        }
                        _ => return None,
                    }
                } else {
                    MemForm::Ind(a)
                }
            }
            _ => return None,
        };
        if !self.eat(']') {
            return None;
        }
        Some(Mem { seg, form })
    }
    /// operand; `w` = width hint from the other operand
    fn operand(&mut self) -> Option<Opnd> {
        match self.peek()?.clone() {
            Tok::Num(n) => {
                self.i += 1;
                Some(Opnd::Imm(n))
            }
            Tok::P('[') => Some(Opnd::Mem(None, self.mem(None)?)),
            Tok::Id(s) => {
                let s = s.to_ascii_lowercase();
                self.i += 1;
                if s == "byte" || s == "word" {
                    let w = if s == "byte" { W::B } else { W::W };
                    // size keyword followed by memory or label
                    match self.peek()?.clone() {
                        Tok::P('[') => Some(Opnd::Mem(Some(w), self.mem(None)?)),
                        Tok::Id(x) => {
                            let xl = x.to_ascii_lowercase();
                            if let Some(sg) = sr(&xl) {
                                // seg override
                                if self.t.get(self.i + 1) == Some(&Tok::P(':')) || self.t.get(self.i + 1) == Some(&Tok::P('[')) {
                                    self.i += 1;
                                    self.eat(':');
                                    return Some(Opnd::Mem(Some(w), self.mem(Some(sg))?));
                                }
                            }
                            self.i += 1;
                            Some(Opnd::Label(Some(w), x))
                        }
                        _ => None,
                    }
                } else if let Some(r) = r8(&s) {
                    Some(Opnd::Loc(Loc::R8(r)))
                } else if let Some(sg) = sr(&s) {
                    if self.peek() == Some(&Tok::P(':')) || self.peek() == Some(&Tok::P('[')) {
                        self.eat(':');
                        Some(Opnd::Mem(None, self.mem(Some(sg))?))
                    } else {
                        Some(Opnd::Loc(Loc::SR(sg)))
                    }
                } else if let Some(r) = r16(&s) {
                    Some(Opnd::Loc(Loc::R16(r)))
                } else {
                    Some(Opnd::Label(None, s))
                }
            }
            _ => None,
        }
    }
}

#[derive(Debug, Clone)]
enum Opnd {
    Loc(Loc),
    Mem(Option<W>, Mem),
    Label(Option<W>, String),
    Imm(i64),
}
impl Opnd {
    fn width(&self) -> Option<W> {
        match self {
            Opnd::Loc(l) => Some(l.width()),
            Opnd::Mem(w, _) | Opnd::Label(w, _) => *w,
            Opnd::Imm(_) => None,
        }
    }
    fn loc(&self, w: W) -> Option<Loc> {
        match self {
            Opnd::Loc(l) => Some(l.clone()),
            Opnd::Mem(ow, m) => Some(Loc::Mem(ow.unwrap_or(w), *m)),
            Opnd::Label(ow, n) => Some(Loc::Label(ow.unwrap_or(w), n.clone())),
            Opnd::Imm(_) => None,
        }
    }
}

pub fn decode(line: &str) -> Option<Ins> {
    let t = lex(line)?;
    let mut p = P { t, i: 0 };
    let mn = p.id()?;
    let two = |p: &mut P| -> Option<(Opnd, Opnd)> {
        let a = p.operand()?;
        if !p.eat(',') {
            return None;
        }
        let b = p.operand()?;
        Some((a, b))
    };
    let ins = match mn.as_str() {
        "add" | "adc" | "sub" | "sbb" | "cmp" | "and" | "or" | "xor" | "test" | "mov" => {
            let (a, b) = two(&mut p)?;
            let w = a.width().or(b.width())?;
            let d = a.loc(w)?;
            let s = match &b {
                Opnd::Imm(n) => Src::Imm(if w == W::B { (*n as u16) & 0xFF } else { *n as u16 }),
                o => Src::Loc(o.loc(w)?),
            };
            if mn == "mov" {
                Ins::Mov(d, s)
            } else {
                let op = [Alu2::Add, Alu2::Adc, Alu2::Sub, Alu2::Sbb, Alu2::Cmp, Alu2::And, Alu2::Or, Alu2::Xor, Alu2::Test]
                    .into_iter()
                    .find(|o| o.name() == mn)?;
                Ins::Alu2(op, d, s)
            }
        }
        "xchg" => {
            let (a, b) = two(&mut p)?;
            let w = a.width().or(b.width())?;
            Ins::Xchg(a.loc(w)?, b.loc(w)?)
        }
        "inc" | "dec" | "neg" | "not" | "mul" | "imul" | "div" | "idiv" => {
            let a = p.operand()?;
            let w = a.width()?;
            let op = ALL_UN.into_iter().find(|o| o.name() == mn)?;
            Ins::Un(op, a.loc(w)?)
        }
        "sal" | "shl" | "shr" | "sar" | "rol" | "ror" | "rcl" | "rcr" => {
            let a = p.operand()?;
            if !p.eat(',') {
                return None;
            }
            let c = match p.next()? {
                Tok::Num(n) => Cnt::Imm(n as u8),
                Tok::Id(s) if s.to_ascii_lowercase() == "cl" => Cnt::CL,
                _ => return None,
            };
            let w = a.width()?;
            let op = match mn.as_str() {
                "sal" | "shl" => Sh::Shl,
                "shr" => Sh::Shr,
                "sar" => Sh::Sar,
                "rol" => Sh::Rol,
                "ror" => Sh::Ror,
                "rcl" => Sh::Rcl,
                _ => Sh::Rcr,
            };
            Ins::Sh(op, a.loc(w)?, c)
        }
        "push" | "pop" => {
            let a = p.operand()?;
            let l = a.loc(W::W)?;
            if mn == "push" {
                Ins::Push(l)
            } else {
                Ins::Pop(l)
            }
        }
        "lea" => {
            let (a, b) = two(&mut p)?;
            match a {
                Opnd::Loc(Loc::R16(r)) => Ins::Lea(r, b.loc(W::W)?),
                _ => return None,
            }
        }
        "rep" | "repe" | "repz" | "repne" | "repnz" | "movs" | "lods" | "stos" | "cmps" | "scas" => {
            let (rep, opn) = match mn.as_str() {
                "rep" => (Rep::Rep, p.id()?),
                "repe" | "repz" => (Rep::Repe, p.id()?),
                "repne" | "repnz" => (Rep::Repne, p.id()?),
                _ => (Rep::None, mn.clone()),
            };
            let op = ALL_STR.into_iter().find(|o| o.name() == opn)?;
            let w = match p.id()?.as_str() {
                "byte" => W::B,
                "word" => W::W,
                _ => return None,
            };
            Ins::Str(rep, op, w)
        }
        "call" => Ins::Call(match p.next()? {
            Tok::Id(s) => s,
            _ => return None,
        }),
        "ret" => Ins::Ret,
        "int" => Ins::Int(p.num()? as u8),
        "print" => {
            let k = p.id()?;
            match k.as_str() {
                "flags" => Ins::Print(PrintCmd::Flags),
                "reg" => Ins::Print(PrintCmd::Reg),
                "mem" => {
                    if p.eat(':') {
                        Ins::Print(PrintCmd::MemDs(p.num()? as u32))
                    } else {
                        let a = p.num()? as u32;
                        match p.next()? {
                            Tok::Arrow => Ins::Print(PrintCmd::MemRange(a, p.num()? as u32)),
                            Tok::P(':') => Ins::Print(PrintCmd::MemLen(a, p.num()? as u32)),
                            _ => return None,
                        }
                    }
                }
                _ => return None,
            }
        }
        other => {
            if let Some(j) = Jcc::from_spelling(other) {
                match p.next()? {
                    Tok::Id(l) => Ins::J(j, l),
                    _ => return None,
                }
            } else if let Some(s) = SIMPLE.iter().find(|s| **s == other) {
                Ins::Simple(s)
            } else {
                return None;
            }
        }
    };
    if !p.done() {
        return None;
    }
    Some(ins)
}

/// structural equality modulo the documented normalisations
pub fn same(a: &Ins, b: &Ins) -> bool {
    norm(a) == norm(b)
}

fn norm_mem(m: &Mem) -> Mem {
    let mut m = *m;
    if let MemForm::BasedIndexed(b, i, None) = m.form {
        m.form = MemForm::BasedIndexed(b, i, Some(0));
    }
    m
}
fn norm_loc(l: &Loc) -> Loc {
    match l {
        Loc::Mem(w, m) => Loc::Mem(*w, norm_mem(m)),
        o => o.clone(),
    }
}
fn norm_src(s: &Src, w: W) -> Src {
    match s {
        Src::Loc(l) => Src::Loc(norm_loc(l)),
        Src::Imm(v) => Src::Imm(if w == W::B { v & 0xFF } else { *v }),
    }
}
fn norm(i: &Ins) -> Ins {
    match i {
        Ins::Alu2(op, d, s) => Ins::Alu2(*op, norm_loc(d), norm_src(s, d.width())),
        Ins::Mov(d, s) => Ins::Mov(norm_loc(d), norm_src(s, d.width())),
        Ins::Un(op, d) => Ins::Un(*op, norm_loc(d)),
        Ins::Sh(op, d, c) => Ins::Sh(*op, norm_loc(d), *c),
        Ins::Xchg(a, b) => {
            let (a, b) = (norm_loc(a), norm_loc(b));
            // unordered pair: put the memory operand (or the "smaller" debug string) first
            if format!("{:?}", a) <= format!("{:?}", b) {
                Ins::Xchg(a, b)
            } else {
                Ins::Xchg(b, a)
            }
        }
        Ins::Push(l) => Ins::Push(norm_loc(l)),
        Ins::Pop(l) => Ins::Pop(norm_loc(l)),
        Ins::Lea(r, l) => Ins::Lea(*r, norm_loc(l)),
        o => o.clone(),
    }
}
