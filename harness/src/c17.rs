//! C17 — print reg / flags / mem show the true machine state and never change it.
//! Process plane only: the printer lives in the binary. The machine state at every print command comes
//! from the hook records (registers, memory digest at every record, memory dump at the halting record).
use crate::cli::*;
use crate::ref8086::*;
use crate::report::{Failure, Report};
use crate::util::*;

#[derive(Clone, Debug, PartialEq)]
pub enum PK {
    Reg,
    Flags,
    /// raw constants as typed
    Range(u64, u64),
    Len(u64, u64),
    Ds(u64),
    /// not a print command at all (prompt only)
    Garbage,
}

#[derive(Clone, Debug)]
pub struct PCmd {
    pub prompt: bool,
    pub kind: PK,
    pub text: String,
    /// constants written in decimal (the only radix the prompt documents)
    pub decimal: bool,
    /// prompt session (ordinal of the int 3 it is typed at); 0 for source commands
    pub session: usize,
}

pub struct Scenario {
    pub text: String,
    pub stdin: Vec<u8>,
    pub cmds: Vec<PCmd>,
}

fn num(rng: &mut Rng, v: u64, decimal_only: bool) -> (String, bool) {
    if decimal_only {
        return (format!("{}", v), true);
    }
    match rng.below(5) {
        0 => (format!("0x{:x}", v), false),
        1 => (format!("0X{:X}", v), false),
        2 => (format!("0b{:b}", v), false),
        _ => (format!("{}", v), true),
    }
}

fn kwc(rng: &mut Rng, s: &str) -> String {
    if rng.chance(1, 4) {
        s.to_ascii_uppercase()
    } else {
        s.to_string()
    }
}

const LENS: [u64; 16] = [0, 1, 2, 7, 8, 14, 15, 16, 17, 31, 32, 33, 100, 255, 256, 1000];

/// interesting start addresses given where data lives
fn pick_addr(rng: &mut Rng, hot: &[u32]) -> u64 {
    match rng.below(8) {
        0 => 0,
        1 => 0xFFFFF,
        2 => 0xFFFF0,
        3 | 4 | 5 => {
            let h = hot[rng.below(hot.len())] as i64 + rng.range(-20, 40);
            h.clamp(0, 0xFFFFF) as u64
        }
        _ => rng.below(1 << 20) as u64,
    }
}

fn gen_cmd(rng: &mut Rng, prompt: bool, hot: &[u32], ds: u16) -> PCmd {
    let dec_only = prompt && !rng.chance(1, 8);
    let k = rng.below(if prompt { 12 } else { 10 });
    let (kind, text, decimal) = match k {
        0 => (PK::Reg, format!("{} {}", kwc(rng, "print"), kwc(rng, "reg")), true),
        1 => (PK::Flags, format!("{} {}", kwc(rng, "print"), kwc(rng, "flags")), true),
        2 | 3 | 4 => {
            // a -> b
            let a = pick_addr(rng, hot);
            let mut b = match rng.below(10) {
                0 => a.saturating_sub(1 + rng.below(50) as u64), // backwards
                1 => 0xFFFFF,
                _ => a + LENS[rng.below(LENS.len())],
            };
            let mut a = a;
            if rng.chance(1, 12) {
                // constants beyond 2^20
                if rng.chance(1, 2) {
                    b += 1 << 20;
                } else {
                    a += 1 << 20;
                    b += 1 << 20;
                }
            } else if b > 0xFFFFF && rng.chance(2, 3) {
                b = 0xFFFFF;
            }
            if a <= 0xFFFFF && b == 0xFFFFF && b - a > 5000 {
                a = b - rng.below(5000) as u64;
            }
            let (sa, d1) = num(rng, a, dec_only);
            let (sb, d2) = num(rng, b, dec_only);
            let sp = if rng.chance(1, 2) { " " } else { "" };
            (PK::Range(a, b), format!("{} {} {}{}->{}{}", kwc(rng, "print"), kwc(rng, "mem"), sa, sp, sp, sb), d1 && d2)
        }
        5 | 6 => {
            let a = pick_addr(rng, hot);
            let mut n = LENS[rng.below(LENS.len())];
            if !prompt && a + n > 0xFFFFF {
                // the assembler refuses this form statically; keep the program valid
                n = 0xFFFFF - a;
            }
            let (sa, d1) = num(rng, a, dec_only);
            let (sn, d2) = num(rng, n, dec_only);
            let sp = if rng.chance(1, 2) { " " } else { "" };
            (PK::Len(a, n), format!("{} {} {}{}:{}{}", kwc(rng, "print"), kwc(rng, "mem"), sa, sp, sp, sn), d1 && d2)
        }
        7 | 8 | 9 => {
            let room = 0xFFFFFu64.saturating_sub(ds as u64 * 16);
            let n = match rng.below(6) {
                0 => room,
                1 => room + 1,
                2 => room + rng.below(70000) as u64,
                _ => LENS[rng.below(LENS.len())],
            };
            let (sn, d) = num(rng, n, dec_only);
            let sp = if rng.chance(1, 2) { " " } else { "" };
            (PK::Ds(n), format!("{} {} :{}{}", kwc(rng, "print"), kwc(rng, "mem"), sp, sn), d)
        }
        _ => {
            let g = ["", "foo", "print", "print mem", "print regs", "print mem 5", "print mem 5 ->", "next please", "print mem -1 -> 4", "mov ax,1", "print mem 1 : 2 : 3", "99999999999999999999999", "pr\u{ed}nt reg", "\u{f1}", "print r\u{e9}gs", "print\u{a0}mem 1 -> x", "\u{1F600}"];
            (PK::Garbage, g[rng.below(g.len())].to_string(), true)
        }
    };
    PCmd { prompt, kind, text, decimal, session: 0 }
}

pub fn scenario(rng: &mut Rng) -> Scenario {
    let mut t = String::new();
    let mut hot: Vec<u32> = Vec::new();
    // data: a few segments with random bytes
    let nseg = 1 + rng.below(3);
    for s in 0..nseg {
        let seg: u16 = match (s, rng.below(4)) {
            (0, _) => 0,
            (_, 0) => 0xFFF0,
            (_, 1) => 0xFFFF,
            _ => rng.u16(),
        };
        t.push_str(&format!("set {}\n", seg));
        hot.push((seg as u32 * 16) % MB);
        let items = 1 + rng.below(4);
        let mut used = 0usize;
        for _ in 0..items {
            let lim = if seg >= 0xFFF0 { 200usize.saturating_sub(used) } else { 700 };
            match rng.below(3) {
                0 => {
                    let n = (1 + rng.below(300)).min(lim.max(1));
                    t.push_str(&format!("db [{},{}]\n", 1 + rng.below(255), n));
                    used += n;
                }
                1 => {
                    let n = (1 + rng.below(40)).min(lim.max(1));
                    let s: String = (0..n).map(|_| (b'!' + rng.below(90) as u8) as char).filter(|c| *c != '"' && *c != ';').collect();
                    used += s.len();
                    t.push_str(&format!("db \"{}\"\n", s));
                }
                _ => {
                    t.push_str(&format!("dw {}\n", rng.u16()));
                    used += 2;
                }
            }
        }
    }
    t.push_str("start:\n");
    let flags = (rng.u16() & !TF) | if rng.chance(1, 2) { 0 } else { 0 };
    let ss = rng.hostile16();
    let sp0 = rng.hostile16();
    t.push_str(&format!("mov ax, {}\nmov ss, ax\nmov sp, {}\nmov ax, {}\npush ax\npopf\n", ss, sp0, flags));
    let es = rng.hostile16();
    let mut ds: u16 = match rng.below(5) {
        0 => 0,
        1 => 0xFFFF,
        2 => 0xFFF0,
        _ => rng.u16(),
    };
    t.push_str(&format!("mov ax, {}\nmov es, ax\nmov ax, {}\nmov ds, ax\n", es, ds));
    if rng.chance(1, 3) {
        t.push_str(&format!("mov ax, {}\nmov cs, ax\n", rng.u16()));
    }
    for r in ["bx", "cx", "dx", "bp", "si", "di", "sp", "ax"] {
        t.push_str(&format!("mov {}, {}\n", r, rng.hostile16()));
    }
    let mut cmds = Vec::new();
    let mut stdin = Vec::new();
    let mut session = 0usize;
    let nblocks = 2 + rng.below(4);
    for _ in 0..nblocks {
        match rng.below(5) {
            4 => {
                // the program reads a line of console input: the prompts that follow read the same standard input
                t.push_str("mov ah, 1\nint 0x21\n");
                stdin.extend_from_slice(rng.pick(&["hello", "n", "print reg", "x", "  z  ", "next"]).as_bytes());
                stdin.push(b'\n');
            }
            0 => {
                // change DS between prints
                ds = match rng.below(3) {
                    0 => 0xFFFF,
                    1 => 0,
                    _ => rng.u16(),
                };
                t.push_str(&format!("mov ax, {}\nmov ds, ax\n", ds));
            }
            1 => {
                t.push_str("int 3\n");
                session += 1;
                let k = rng.below(5);
                for _ in 0..k {
                    let mut c = gen_cmd(rng, true, &hot, ds);
                    c.session = session;
                    // now and then a command line far longer than usual (beyond 4 KiB / 8 KiB / 64 KiB) with the same
                    // meaning: blanks between the words, zeros in front of a decimal number
                    if rng.chance(1, 10) {
                        let n = *rng.pick(&[4090usize, 4100, 8190, 8200, 70000]);
                        if rng.chance(1, 2) {
                            if let Some(p) = c.text.find(' ') {
                                c.text.insert_str(p, &" ".repeat(n));
                            }
                        } else {
                            // the last token, when it is a plain decimal number
                            let start = c.text.rfind(|ch: char| !ch.is_ascii_digit()).map(|p| p + 1).unwrap_or(0);
                            let before_ok = start == 0 || matches!(c.text.as_bytes()[start - 1], b' ' | b'>' | b':');
                            if start < c.text.len() && before_ok {
                                c.text.insert_str(start, &"0".repeat(n));
                            }
                        }
                    }
                    stdin.extend_from_slice(c.text.as_bytes());
                    stdin.push(b'\n');
                    cmds.push(c);
                }
                stdin.extend_from_slice(if rng.chance(1, 2) { b"n\n" } else { b"next\n" });
            }
            _ => {
                let k = 1 + rng.below(3);
                for _ in 0..k {
                    let c = gen_cmd(rng, false, &hot, ds);
                    t.push_str(&c.text);
                    t.push('\n');
                    cmds.push(c);
                }
            }
        }
    }
    Scenario { text: t, stdin, cmds }
}

// ---------------------------------------------------------------------------------------
// output readers

/// value shown for `name`: the name as a whole word, then separators (blanks, ':' or '='), an optional 0x prefix and a
/// run of value characters; None when the name does not occur exactly once (layout and separators are not prescribed)
fn shown_value(out: &str, name: &str) -> Option<String> {
    let b = out.as_bytes();
    let is_word = |c: u8| c.is_ascii_alphanumeric() || c == b'_';
    let mut found: Option<String> = None;
    let mut i = 0;
    while let Some(p) = out[i..].find(name) {
        let s = i + p;
        let e = s + name.len();
        i = e;
        if (s > 0 && is_word(b[s - 1])) || (e < b.len() && is_word(b[e])) {
            continue;
        }
        let mut k = e;
        while k < b.len() && (b[k] == b' ' || b[k] == b'\t' || b[k] == b':' || b[k] == b'=') {
            k += 1;
        }
        if k + 1 < b.len() && b[k] == b'0' && (b[k + 1] == b'x' || b[k + 1] == b'X') {
            k += 2;
        }
        let v0 = k;
        while k < b.len() && b[k].is_ascii_alphanumeric() {
            k += 1;
        }
        if found.is_some() {
            return None;
        }
        found = Some(out[v0..k].to_string());
    }
    found
}

/// rows of two-digit upper-case hex tokens
pub fn parse_dump(out: &str) -> Option<Vec<Vec<u8>>> {
    let mut rows = Vec::new();
    for line in out.lines() {
        let toks: Vec<&str> = line.split_whitespace().collect();
        if toks.is_empty() {
            continue;
        }
        let mut row = Vec::new();
        for t in toks {
            let b = t.as_bytes();
            if b.len() != 2 || !b.iter().all(|c| c.is_ascii_digit() || (b'A'..=b'F').contains(c)) {
                return None;
            }
            row.push(u8::from_str_radix(t, 16).ok()?);
        }
        rows.push(row);
    }
    Some(rows)
}

const REG12: [(&str, usize); 12] =
    [("AX", AX), ("BX", BX), ("CX", CX), ("DX", DX), ("SP", SP), ("BP", BP), ("SI", SI), ("DI", DI), ("CS", CS), ("SS", SS), ("DS", DS), ("ES", ES)];
const FLAG9: [(&str, u16); 9] = [("OF", OF), ("DF", DF), ("IF", IF), ("TF", TF), ("SF", SF), ("ZF", ZF), ("AF", AF), ("PF", PF), ("CF", CF)];

/// Some(symptom) when the output contradicts the state
pub fn judge_output(kind: &PK, prompt: bool, decimal: bool, out: &str, regs: &Regs, mem: &[u8]) -> (Option<String>, &'static str) {
    let is_report = |o: &str| !o.trim().is_empty() && parse_dump(o).is_none();
    match kind {
        PK::Garbage => {
            if is_report(out) {
                (None, "garbage-reported")
            } else {
                (Some("garbage-not-reported".into()), "garbage")
            }
        }
        PK::Reg => {
            for (name, idx) in REG12 {
                match shown_value(out, name) {
                    None => return (Some(format!("missing:{}", name)), "reg"),
                    Some(v) => {
                        // exactly four upper-case hex digits
                        if v != format!("{:04X}", regs[idx]) {
                            return (Some(format!("value:{}", name)), "reg");
                        }
                    }
                }
            }
            (None, "reg")
        }
        PK::Flags => {
            for (name, bit) in FLAG9 {
                match shown_value(out, name) {
                    None => return (Some(format!("missing:{}", name)), "flags"),
                    Some(v) => {
                        let want = if regs[FLAG] & bit != 0 { "1" } else { "0" };
                        if v != want {
                            return (Some(format!("value:{}", name)), "flags");
                        }
                    }
                }
            }
            (None, "flags")
        }
        PK::Range(..) | PK::Len(..) | PK::Ds(..) => {
            // Some((start, end)) = inclusive range that must be printed; None = must be reported
            let big = |x: u64| x >= (1 << 20);
            let m = |x: u64| x % (1 << 20);
            let (range, over): (Option<(u64, u64)>, bool) = match kind {
                PK::Range(a, b) => (if m(*a) <= m(*b) { Some((m(*a), m(*b))) } else { None }, big(*a) || big(*b)),
                PK::Len(a, n) => {
                    let e = m(*a) + m(*n);
                    (if e < (1 << 20) { Some((m(*a), e)) } else { None }, big(*a) || big(*n))
                }
                PK::Ds(n) => {
                    let s = regs[DS] as u64 * 16;
                    let e = s + m(*n);
                    (if e < (1 << 20) { Some((s, e)) } else { None }, big(*n))
                }
                _ => unreachable!(),
            };
            let class: &'static str = match (kind, range.is_some()) {
                (PK::Range(..), true) => "range",
                (PK::Range(..), false) => "range-backwards",
                (PK::Len(..), true) => "len",
                (PK::Len(..), false) => "len-leaves-memory",
                (PK::Ds(..), true) => "ds",
                _ => "ds-leaves-memory",
            };
            // a constant beyond 2^20 is read modulo 2^20 by the documented mechanism; a report is equally acceptable
            if over && is_report(out) {
                return (None, "constant-beyond-1MiB-reported");
            }
            // the prompt documents decimal constants only: other radices may be refused
            if prompt && !decimal && is_report(out) {
                return (None, "prompt-nondecimal-refused");
            }
            match range {
                None => {
                    if is_report(out) {
                        (None, class)
                    } else {
                        (Some("not-reported".into()), class)
                    }
                }
                Some((s, e)) => {
                    let rows = match parse_dump(out) {
                        Some(r) => r,
                        None => return (Some("format".into()), class),
                    };
                    let n = (e - s + 1) as usize;
                    let flat: Vec<u8> = rows.concat();
                    if flat.len() != n {
                        return (Some(if flat.len() + 1 == n { "count-one-short".into() } else if flat.len() == n + 1 { "count-one-over".into() } else { "count".into() }), class);
                    }
                    for (i, r) in rows.iter().enumerate() {
                        let last = i + 1 == rows.len();
                        if (!last && r.len() != 16) || (last && (r.is_empty() || r.len() > 16)) {
                            return (Some("row-length".into()), class);
                        }
                    }
                    for i in 0..n {
                        if flat[i] != mem[(s as usize + i) % (1 << 20)] {
                            return (Some("value".into()), class);
                        }
                    }
                    (None, class)
                }
            }
        }
    }
}

fn len_class(kind: &PK) -> String {
    let n = match kind {
        PK::Range(a, b) => {
            if b % (1 << 20) >= a % (1 << 20) {
                b % (1 << 20) - a % (1 << 20)
            } else {
                return "backwards".into();
            }
        }
        PK::Len(_, n) | PK::Ds(n) => *n,
        _ => return "-".into(),
    };
    match n {
        0 => "1".into(),
        1..=14 => "2-15".into(),
        15 => "16".into(),
        16 => "17".into(),
        17..=255 => "18-256".into(),
        _ => ">256".into(),
    }
}

pub fn run_scenario(rep: &Report, sc: &Scenario, core: Option<usize>) {
    rep.eval(1);
    let out = run_cli(sc.text.as_bytes(), &CliOpts { stdin: &sc.stdin, timeout_s: 30.0, cap: 24 << 20, ..Default::default() });
    let wit = |detail: &str, p: &Parsed| {
        format!(
            "{{\"kind\": \"cli\", \"source\": {}, \"stdin\": {}, \"detail\": {}, \"status\": {}, \"stdout_plain_head\": {}}}",
            json_str(&sc.text),
            json_bytes(&sc.stdin),
            json_str(detail),
            json_str(&out.status_str()),
            json_bytes(&p.plain[..p.plain.len().min(400)])
        )
    };
    let p = parse_records(&out.stdout);
    let fail = |sig: String, what: String, detail: String| {
        rep.fail(Failure { sig: sig.clone(), what, witness: wit(&detail, &p), core_item: core.map(|c| format!("{}|{}|{}", c, sig, detail)) });
    };
    if out.timed_out || out.flooded {
        rep.inconclusive("cli watchdog");
        return;
    }
    if !out.clean_exit() {
        fail("print:abort".into(), "C17: the emulator aborts while printing".into(), out.status_str());
        return;
    }
    if p.recs.is_empty() {
        // the assembler refused the scenario (generator defect, not judged)
        rep.inconclusive("scenario refused");
        return;
    }
    let last = p.recs.last().unwrap();
    if last.line != "hlt" || last.dump.is_none() {
        fail("print:run-incomplete".into(), "C17: the program with print commands did not run to its end".into(), format!("last record {:?}", last.line));
        return;
    }
    let mem = dump_to_mem(last.dump.as_ref().unwrap());
    // first record that is a print or int 3: from there on memory must not change
    let first = p.recs.iter().position(|r| r.line.starts_with("print") || r.line == "int 3").unwrap_or(p.recs.len() - 1);
    let mut ci = 0usize;
    let mut session = 0usize;
    for k in first..p.recs.len() - 1 {
        let r = &p.recs[k];
        let seg = String::from_utf8_lossy(&p.segs[k + 1]).to_string();
        let nx = &p.recs[k + 1];
        let is_print = r.line.starts_with("print");
        let is_int3 = r.line == "int 3";
        if is_print || is_int3 {
            // printing / the prompt never alters the machine
            if nx.regs != r.regs || nx.mem != r.mem {
                fail(
                    format!("print:state-changed:{}", if is_print { "source" } else { "prompt" }),
                    "C17: registers, flags or memory differ before and after print commands".into(),
                    format!("line {:?}: before {:?}/{:?} after {:?}/{:?}", r.line, r.regs, r.mem, nx.regs, nx.mem),
                );
            }
        }
        if r.mem != last.mem {
            // memory at this print differs from the dump we compare with: cannot judge bytes here
            rep.inconclusive("memory changed after a print");
            return;
        }
        if is_print {
            if ci >= sc.cmds.len() || sc.cmds[ci].prompt {
                rep.inconclusive("command bookkeeping");
                return;
            }
            let c = &sc.cmds[ci];
            ci += 1;
            // strip the "Output of line" header (first line)
            let body = match seg.find('\n') {
                Some(i) => &seg[i + 1..],
                None => "",
            };
            let (sym, class) = judge_output(&c.kind, false, c.decimal, body, &r.regs, &mem);
            rep.distinct_str(&format!("source|{}|{}|dec{}", class, len_class(&c.kind), c.decimal));
            rep.count("print commands judged (source)", 1);
            if let Some(s) = sym {
                fail(format!("print:{}:source:{}", class, s), format!("C17: `print` in source ({}) output contradicts the machine state: {}", class, s), format!("command {:?} output {:?}", c.text, &body[..body.len().min(300)]));
            }
        } else if is_int3 {
            // pieces between prompts
            let pieces: Vec<&str> = seg.split(">>> ").collect();
            // pieces[0] = "Int 3 at line N\n"; one piece per answered prompt follows
            let mut pi = 1;
            session += 1;
            while ci < sc.cmds.len() && sc.cmds[ci].prompt && sc.cmds[ci].session == session {
                let c = &sc.cmds[ci];
                ci += 1;
                if pi >= pieces.len() {
                    fail("print:prompt:missing-output".into(), "C17: a print command typed at the prompt produced no prompt/answer".into(), format!("command {:?}", c.text));
                    break;
                }
                let body = pieces[pi];
                pi += 1;
                let (sym, class) = judge_output(&c.kind, true, c.decimal, body, &r.regs, &mem);
                rep.distinct_str(&format!("prompt|{}|{}|dec{}", class, len_class(&c.kind), c.decimal));
                rep.count("print commands judged (prompt)", 1);
                if let Some(s) = sym {
                    fail(format!("print:{}:prompt:{}", class, s), format!("C17: `print` at the prompt ({}) output contradicts the machine state: {}", class, s), format!("command {:?} output {:?}", c.text, &body[..body.len().min(300)]));
                }
            }
        }
    }
    if ci != sc.cmds.len() {
        fail("print:commands-not-all-answered".into(), "C17: fewer print commands were answered than issued".into(), format!("{} of {}", ci, sc.cmds.len()));
    }
    if core == Some(0) {
        rep.sample(format!("scenario source {:?} stdin {:?} -> plain stdout head {:?}", sc.text, String::from_utf8_lossy(&sc.stdin), String::from_utf8_lossy(&p.plain[..p.plain.len().min(500)])));
    }
}

/// programs whose only defect is a statically known range leaving memory: must be refused before running
fn static_refusals(rep: &Report) {
    let cases = ["print mem 1048575 : 1", "print mem 0xFFFFF:1", "print mem 1048570 : 10", "print mem 5 : 1048571", "print mem 1048575 : 0"];
    for (i, c) in cases.iter().enumerate() {
        let src = format!("x: db 7\nstart:\nmov ax, 5\n{}\nmov bx, 6\n", c);
        let out = run_cli(src.as_bytes(), &CliOpts::default());
        rep.eval(1);
        let p = parse_records(&out.stdout);
        let should_run = i == 4; // 1048575 : 0 is the single last byte
        rep.distinct_str(&format!("static|{}", i));
        let mk = |sig: &str, what: &str| Failure {
            sig: sig.to_string(),
            what: what.to_string(),
            witness: format!("{{\"kind\": \"cli\", \"source\": {}, \"stdin\": \"\", \"status\": {}, \"stdout_plain_head\": {}}}", json_str(&src), json_str(&out.status_str()), json_bytes(&p.plain[..p.plain.len().min(300)])),
            core_item: Some(format!("static{}", i)),
        };
        if !out.clean_exit() {
            rep.fail(mk("print:abort", "C17: the emulator aborts while printing"));
        } else if !should_run {
            let printed = p.segs.iter().any(|s| String::from_utf8_lossy(s).lines().skip(1).any(|l| parse_dump(l).map(|r| !r.is_empty()).unwrap_or(false)));
            if printed || String::from_utf8_lossy(&p.plain).trim().is_empty() {
                rep.fail(mk("print:len-leaves-memory:source:not-reported", "C17: `print mem a : n` leaving the 1 MiB space is printed / not reported"));
            }
        } else {
            let k = p.recs.iter().position(|r| r.line.starts_with("print"));
            let ok = k.map(|k| {
                let seg = String::from_utf8_lossy(&p.segs[k + 1]).to_string();
                let body = seg.splitn(2, '\n').nth(1).unwrap_or("").to_string();
                parse_dump(&body).map(|r| r.concat() == vec![0u8]).unwrap_or(false)
            });
            if ok != Some(true) {
                rep.fail(mk("print:len:source:last-byte", "C17: `print mem 1048575 : 0` does not print the single last byte of memory"));
            }
        }
    }
}

pub fn run(rep: &Report) {
    static_refusals(rep);
    let ncore = 160;
    let nrand = if rep.thorough() { 30_000 } else { 700 };
    let seed = rep.seed;
    par_for(ncore + nrand, 1, |i| {
        let core = i < ncore;
        let mut rng = if core { Rng::new(0xC17).fork(i as u64) } else { Rng::new(seed).fork(0xC17_0000 + i as u64) };
        let sc = scenario(&mut rng);
        run_scenario(rep, &sc, if core { Some(i) } else { None });
    });
    let judged = rep.counter("print commands judged (source)") + rep.counter("print commands judged (prompt)");
    rep.floor("print commands judged", judged, 1500);
    rep.floor("print commands judged at the prompt", rep.counter("print commands judged (prompt)"), 200);
}

pub const RULE: &str = "generated programs load random data into 1-3 segments (incl. the top of the 1 MiB space), set SS:SP, all nine flags (via popf), ES, DS, optionally CS and the eight general registers to boundary-biased values, then issue print commands in source and, after int 3, at the prompt: reg, flags, mem a->b / a:n / :n with lengths 1,2,..,15,16,17,..,1000+, ranges ending at 0xFFFFF, backwards ranges, DS-relative ranges with DS up to 0xFFFF that fit / just do not fit, constants in decimal/0x/0X/0b (source) and beyond 2^20, upper-case keywords, garbage at the prompt. Oracle: stdout between consecutive hook records is parsed back (each of the 12 register names exactly once, followed by exactly four upper-case hex digits, each of the 9 flag names followed by 0/1 -- separators and layout are not prescribed -- rows of two-digit upper-case hex, 16 per row except the last, count = range length) and compared with the registers of the hook record and the memory dump of the halting record (memory digest is checked to be constant from the first print on); a backwards or memory-leaving range must yield a non-dump report; the hook records before and after every print / prompt session must be identical. Accept-sets: constants >= 2^20 may be read modulo 2^20 or reported; non-decimal constants at the prompt may be refused. Distinct = (source|prompt, command class, length class, radix class). Console reads (INT 21h AH=1) before prompt sessions; prompt commands padded beyond 4 KiB / 8 KiB / 64 KiB with blanks or leading zeros. Garbage lines at prompts include non-ASCII (valid UTF-8) ones.";
