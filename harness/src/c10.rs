//! C10 — whatever the assembler accepts, the data loader, interpreter and printer can run.
use crate::asm::*;
use crate::ast::*;
use crate::cli::*;
use crate::gen::*;
use crate::genprog::*;
use crate::machine::*;
use crate::prog::*;
use crate::report::{hnum, FailAgg, Failure, Local, Report};
use crate::util::*;
use emulator_8086_lib::VM;
use std::collections::HashSet;
use std::sync::Mutex;

const DATA_PREFIX: &str = "bv0: db 1\nbv1: db [7,3]\nwv0: dw 4660\nwv1: dw [2]\n";
const BL: [&str; 2] = ["bv0", "bv1"];
const WL: [&str; 2] = ["wv0", "wv1"];

pub struct Verdict {
    pub accepted: bool,
}

/// Feed every emitted line of an accepted program to the parser it is destined for.
/// `class` names the shape for the signature; `documented` = the shape is described in syntax.md, so a
/// refusal by the assembler itself is also a finding of this property.
pub fn check_text(text: &str, class: &str, documented: bool, core: bool, agg: &mut FailAgg, loc: &mut Local, vm: &mut VM, words: Option<&mut HashSet<String>>) -> Verdict {
    loc.evals += 1;
    let key = |stage: &str| fnv64(format!("{}|{}", class, stage).as_bytes());
    let wit = |stage: &str, detail: &str| {
        format!("{{\"kind\": \"src\", \"source\": {}, \"stage\": {}, \"detail\": {}}}", json_str(text), json_str(stage), json_str(detail))
    };
    let a = match assemble(text) {
        Ok(a) => a,
        Err(AsmErr::Panic(_)) => {
            *loc.counters.entry("assembler panics (filed under C15)").or_insert(0) += 1;
            return Verdict { accepted: false };
        }
        Err(AsmErr::Diag(_, m)) => {
            if documented {
                let ch = if core { Some(hnum(&[fnv64(text.as_bytes())])) } else { None };
                agg.add(key("assembler-rejects"), ch, || {
                    (format!("shape:{}:assembler-rejects", class), format!("C10: documented shape `{}` is refused by the assembler", class), wit("assembler", &m))
                });
            }
            return Verdict { accepted: false };
        }
    };
    if a.driver_checks().is_err() {
        *loc.counters.entry("programs refused by the driver-level label checks").or_insert(0) += 1;
        return Verdict { accepted: false };
    }
    if let Some(w) = words {
        let mut cur = String::new();
        for c in text.chars().chain(std::iter::once(' ')) {
            if c.is_ascii_alphanumeric() || c == '_' {
                cur.push(c);
            } else if !cur.is_empty() {
                w.insert(std::mem::take(&mut cur));
            }
        }
    }
    // data lines
    let mut ctr = 0usize;
    vm.arch.ds = 0;
    for d in &a.data {
        if let Err(e) = data_parse_one(vm, &mut ctr, d) {
            if e.starts_with("PANIC") {
                *loc.counters.entry("data loader panics (filed under C09/C15)").or_insert(0) += 1;
            } else {
                let ch = if core { Some(hnum(&[fnv64(text.as_bytes()), fnv64(d.as_bytes())])) } else { None };
                let kind = d.split_whitespace().next().unwrap_or("?").to_string();
                agg.add(key("loader-rejects"), ch, || {
                    (format!("shape:{}:loader-rejects", class), format!("C10: accepted program emits data line `{}...` that the data loader refuses", kind), wit("data loader", &format!("line `{}`: {}", d, e)))
                });
            }
        }
    }
    // code lines, in the context built from the same program
    let mut ictx = a.ictx();
    for (i, line) in a.code.iter().enumerate() {
        // make run-time state errors impossible: a return address is always available
        if ictx.call_stack.is_empty() {
            ictx.call_stack.push(0);
        }
        if ictx.call_stack.len() > 32 {
            ictx.call_stack.truncate(1);
        }
        // keep REP loops and divisions harmless
        vm.arch.cx = 1;
        match interp_one(i, vm, &mut ictx, line) {
            ObsFlow::Rejected(e) => {
                let ch = if core { Some(hnum(&[fnv64(text.as_bytes()), fnv64(line.as_bytes())])) } else { None };
                agg.add(key("interpreter-rejects"), ch, || {
                    (
                        format!("shape:{}:interpreter-rejects", class),
                        format!("C10: accepted shape `{}` emits a line the interpreter refuses", class),
                        wit("interpreter", &format!("line `{}`: {}", line, e.replace('\n', " "))),
                    )
                });
            }
            ObsFlow::Panic(_) => {
                *loc.counters.entry("interpreter panics (filed under C09)").or_insert(0) += 1;
            }
            _ => {}
        }
    }
    Verdict { accepted: true }
}

/// systematic enumeration of instruction shapes with a memory operand hole
fn mem_templates() -> Vec<(String, Box<dyn Fn(Mem, &mut Rng) -> Ins + Sync>)> {
    let mut v: Vec<(String, Box<dyn Fn(Mem, &mut Rng) -> Ins + Sync>)> = Vec::new();
    let all_alu: Vec<Alu2> = ALL_ARITH2.iter().chain(ALL_LOGIC2.iter()).copied().collect();
    for op in all_alu {
        for w in [W::B, W::W] {
            let reg = move |rng: &mut Rng| if w == W::B { Loc::R8(rand_r8(rng)) } else { Loc::R16(rand_r16(rng)) };
            v.push((format!("{} r,{} M", op.name(), w.kw()), Box::new(move |m, rng| Ins::Alu2(op, reg(rng), Src::Loc(Loc::Mem(w, m))))));
            v.push((format!("{} {} M,r", op.name(), w.kw()), Box::new(move |m, rng| Ins::Alu2(op, Loc::Mem(w, m), Src::Loc(reg(rng))))));
            v.push((format!("{} {} M,imm", op.name(), w.kw()), Box::new(move |m, rng| Ins::Alu2(op, Loc::Mem(w, m), Src::Imm(if w == W::B { rng.u16() & 0xFF } else { rng.u16() })))));
        }
    }
    for op in ALL_UN {
        for w in [W::B, W::W] {
            v.push((format!("{} {} M", op.name(), w.kw()), Box::new(move |m, _| Ins::Un(op, Loc::Mem(w, m)))));
        }
    }
    for op in ALL_SH {
        for w in [W::B, W::W] {
            v.push((format!("{} {} M,imm", op.name(), w.kw()), Box::new(move |m, rng| Ins::Sh(op, Loc::Mem(w, m), Cnt::Imm(rng.u8())))));
            v.push((format!("{} {} M,cl", op.name(), w.kw()), Box::new(move |m, _| Ins::Sh(op, Loc::Mem(w, m), Cnt::CL))));
        }
    }
    for w in [W::B, W::W] {
        let reg = move |rng: &mut Rng| if w == W::B { Loc::R8(rand_r8(rng)) } else { Loc::R16(rand_r16(rng)) };
        v.push((format!("mov r,{} M", w.kw()), Box::new(move |m, rng| Ins::Mov(reg(rng), Src::Loc(Loc::Mem(w, m))))));
        v.push((format!("mov {} M,r", w.kw()), Box::new(move |m, rng| Ins::Mov(Loc::Mem(w, m), Src::Loc(reg(rng))))));
        v.push((format!("mov {} M,imm", w.kw()), Box::new(move |m, rng| Ins::Mov(Loc::Mem(w, m), Src::Imm(if w == W::B { rng.u16() & 0xFF } else { rng.u16() })))));
        v.push((format!("xchg {} M,r", w.kw()), Box::new(move |m, rng| Ins::Xchg(Loc::Mem(w, m), reg(rng)))));
        v.push((format!("xchg r,{} M", w.kw()), Box::new(move |m, rng| Ins::Xchg(reg(rng), Loc::Mem(w, m)))));
    }
    v.push(("mov sreg,word M".into(), Box::new(|m, rng| Ins::Mov(Loc::SR(*rng.pick(&ALL_SR)), Src::Loc(Loc::Mem(W::W, m))))));
    v.push(("mov word M,sreg".into(), Box::new(|m, rng| Ins::Mov(Loc::Mem(W::W, m), Src::Loc(Loc::SR(*rng.pick(&ALL_SR)))))));
    v.push(("push word M".into(), Box::new(|m, _| Ins::Push(Loc::Mem(W::W, m)))));
    v.push(("pop word M".into(), Box::new(|m, _| Ins::Pop(Loc::Mem(W::W, m)))));
    v.push(("lea r,word M".into(), Box::new(|m, rng| Ins::Lea(rand_r16(rng), Loc::Mem(W::W, m)))));
    v
}

fn wrap(body: &str) -> String {
    format!("{}def fnp {{\nstc\n}}\nstart:\ntgt:\n{}\n", DATA_PREFIX, body)
}

fn enumerate_mem_shapes(rep: &Report, words: &Mutex<HashSet<String>>) {
    let templates = mem_templates();
    let shapes_a = mem_shapes(5, 1234);
    let shapes_b = mem_shapes(-3, 0xFFFF);
    let n = templates.len();
    par_for(n, 1, |ti| {
        let (name, mk) = &templates[ti];
        let mut rng = Rng::new(0xC10).fork(ti as u64);
        let mut agg = FailAgg::new();
        let mut loc = Local::default();
        let mut vm = VM::new();
        let mut w = HashSet::new();
        for (si, shapes) in [&shapes_a, &shapes_b].iter().enumerate() {
            for m in shapes.iter() {
                let ins = mk(*m, &mut rng);
                let mut sp = if si == 0 { Spell::plain() } else { Spell::random(rng.fork(7)) };
                let text = wrap(&ins.src(&mut sp));
                let class = format!("{}[{}]", name, m.shape());
                check_text(&text, &class, true, true, &mut agg, &mut loc, &mut vm, Some(&mut w));
                loc.distinct.insert(fnv64(class.as_bytes()));
                if ti == 10 && si == 1 && matches!(m.form, MemForm::BasedIndexed(R16::BP, R16::DI, Some(_))) && m.seg == Some(SR::ES) {
                    rep.sample(format!("shape `{}`: source {:?}", class, ins.src(&mut Spell::plain())));
                }
            }
        }
        words.lock().unwrap().extend(w);
        agg.flush(rep);
        loc.flush(rep);
    });
    rep.count("memory-operand shapes enumerated (templates x 85 addressing shapes x 2 displacement/spelling sets)", (n * 85 * 2) as u64);
}

/// every non-memory operand form, every register, every mnemonic spelling in both cases
fn enumerate_plain_shapes(rep: &Report, words: &Mutex<HashSet<String>>) {
    let mut cases: Vec<(String, String, bool)> = Vec::new(); // (class, body text, documented)
    let up = |s: &str| s.to_ascii_uppercase();
    let r8s: Vec<&str> = ALL_R8.iter().map(|r| r.name()).collect();
    let r16s: Vec<&str> = ALL_R16.iter().map(|r| r.name()).collect();
    let srs: Vec<&str> = ALL_SR.iter().map(|r| r.name()).collect();
    let alu = ["add", "adc", "sub", "sbb", "cmp", "and", "or", "xor", "test", "mov"];
    for op in alu {
        for case in 0..2 {
            let o = if case == 0 { op.to_string() } else { up(op) };
            for a in &r8s {
                for b in &r8s {
                    cases.push((format!("{} r8,r8", op), format!("{} {},{}", o, if case == 0 { a.to_string() } else { up(a) }, b), true));
                }
            }
            for a in &r16s {
                for b in &r16s {
                    cases.push((format!("{} r16,r16", op), format!("{} {},{}", o, a, if case == 0 { b.to_string() } else { up(b) }), true));
                }
            }
            let logic = matches!(op, "and" | "or" | "xor" | "test");
            for a in &r8s {
                for imm in ["0", "255", "0xff", "0XFF", "0b11111111", "0B1", "offset bv0", "OFFSET bv1"] {
                    cases.push((format!("{} r8,imm", op), format!("{} {},{}", o, a, imm), true));
                }
                if !logic {
                    for imm in ["-1", "-128"] {
                        cases.push((format!("{} r8,imm-neg", op), format!("{} {},{}", o, a, imm), true));
                    }
                }
                cases.push((format!("{} r8,byte-label", op), format!("{} {},byte bv1", o, a), true));
                cases.push((format!("{} byte-label,r8", op), format!("{} BYTE bv0,{}", o, a), true));
            }
            for a in &r16s {
                for imm in ["0", "65535", "0xffff", "0b1111111111111111", "offset wv1"] {
                    cases.push((format!("{} r16,imm", op), format!("{} {},{}", o, a, imm), true));
                }
                if !logic {
                    for imm in ["-1", "-32768"] {
                        cases.push((format!("{} r16,imm-neg", op), format!("{} {},{}", o, a, imm), true));
                    }
                }
                cases.push((format!("{} r16,word-label", op), format!("{} {},word wv0", o, a), true));
                cases.push((format!("{} word-label,r16", op), format!("{} WORD wv1,{}", o, a), true));
            }
            cases.push((format!("{} byte-label,imm", op), format!("{} byte bv0,17", o), true));
            cases.push((format!("{} word-label,imm", op), format!("{} word wv0,4097", o), true));
        }
    }
    for s in &srs {
        for r in &r16s {
            cases.push(("mov sreg,r16".into(), format!("mov {},{}", s, r), true));
            cases.push(("mov r16,sreg".into(), format!("MOV {},{}", up(r), up(s)), true));
        }
        cases.push(("mov sreg,word-label".into(), format!("mov {},word wv0", s), true));
        cases.push(("mov word-label,sreg".into(), format!("mov word wv1,{}", s), true));
        cases.push(("push sreg".into(), format!("push {}", s), true));
        if *s != "cs" {
            cases.push(("pop sreg".into(), format!("POP {}", up(s)), true));
        }
    }
    for op in ["inc", "dec", "neg", "not", "mul", "imul", "div", "idiv"] {
        for case in 0..2 {
            let o = if case == 0 { op.to_string() } else { up(op) };
            for a in r8s.iter().chain(r16s.iter()) {
                cases.push((format!("{} reg", op), format!("{} {}", o, a), true));
            }
            cases.push((format!("{} byte-label", op), format!("{} byte bv0", o), true));
            cases.push((format!("{} word-label", op), format!("{} word wv0", o), true));
        }
    }
    for op in ["sal", "shl", "sar", "shr", "rol", "ror", "rcl", "rcr"] {
        for case in 0..2 {
            let o = if case == 0 { op.to_string() } else { up(op) };
            for a in r8s.iter().chain(r16s.iter()) {
                for c in ["0", "1", "8", "255", "0x10", "cl", "CL"] {
                    cases.push((format!("{} reg,count", op), format!("{} {},{}", o, a, c), true));
                }
            }
            for c in ["3", "cl"] {
                cases.push((format!("{} byte-label,count", op), format!("{} byte bv1,{}", o, c), true));
                cases.push((format!("{} word-label,count", op), format!("{} word wv1,{}", o, c), true));
            }
        }
    }
    for a in &r16s {
        cases.push(("push r16".into(), format!("push {}", a), true));
        cases.push(("pop r16".into(), format!("pop {}", up(a)), true));
        cases.push(("lea r16,word-label".into(), format!("lea {},word wv1", a), true));
        for b in &r16s {
            cases.push(("xchg r16,r16".into(), format!("xchg {},{}", a, b), true));
        }
        cases.push(("xchg r16,word-label".into(), format!("xchg {},word wv0", a), true));
        cases.push(("xchg word-label,r16".into(), format!("XCHG WORD wv0,{}", a), true));
    }
    for a in &r8s {
        for b in &r8s {
            cases.push(("xchg r8,r8".into(), format!("xchg {},{}", a, b), true));
        }
        cases.push(("xchg r8,byte-label".into(), format!("xchg {},byte bv0", a), true));
        cases.push(("xchg byte-label,r8".into(), format!("xchg byte bv1,{}", a), true));
    }
    cases.push(("push word-label".into(), "push word wv0".into(), true));
    cases.push(("pop word-label".into(), "pop word wv1".into(), true));
    cases.push(("push word-label".into(), "PUSH WORD wv0".into(), true));
    cases.push(("pop word-label".into(), "POP WORD wv1".into(), true));
    // jumps / loops: every spelling of syntax.md in both cases
    for sp in "jmp ja jnbe jae jnb jb jnae jbe jna jc je jz jg jnle jge jnl jl jnge jle jng jnc jne jnz jno jnp jpo jns jo jp jpe js jcxz loop loope loopz loopne loopnz".split_whitespace() {
        cases.push((format!("jump {}", sp), format!("{} tgt", sp), true));
        cases.push((format!("jump {}", sp), format!("{} tgt", up(sp)), true));
    }
    cases.push(("call".into(), "call fnp".into(), true));
    cases.push(("call".into(), "CALL fnp".into(), true));
    cases.push(("ret".into(), "ret".into(), true));
    cases.push(("ret".into(), "RET".into(), true));
    for n in ["3", "0x10", "0x21", "16", "33", "0b11"] {
        cases.push(("int".into(), format!("int {}", n), true));
        cases.push(("int".into(), format!("INT {}", n), true));
    }
    for s in SIMPLE.iter().chain(["nop"].iter()) {
        cases.push((format!("single {}", s), s.to_string(), true));
        cases.push((format!("single {}", s), up(s), true));
    }
    // string instructions with every prefix spelling
    for op in ["movs", "lods", "stos", "cmps", "scas"] {
        let cmp = op == "cmps" || op == "scas";
        for w in ["byte", "word", "BYTE", "WORD"] {
            cases.push((format!("string {}", op), format!("{} {}", op, w), true));
            cases.push((format!("string {}", op), format!("{} {}", up(op), w), true));
            let pre: &[&str] = if cmp { &["repe", "repz", "repne", "repnz", "REPE", "REPZ", "REPNE", "REPNZ"] } else { &["rep", "REP"] };
            for p in pre {
                cases.push((format!("string {} {}", p.to_ascii_lowercase(), op), format!("{} {} {}", p, op, w), true));
            }
        }
    }
    // print statements
    for p in [
        "print flags", "PRINT FLAGS", "print reg", "PRINT REG", "print mem 0 -> 15", "PRINT MEM 0x10 -> 0x1F", "print mem 0b1 -> 0b11", "print mem 1048575 -> 1048575", "print mem 5 : 10",
        "print mem 0xFFFF0:15", "print mem :16", "PRINT MEM : 0x20", "print mem offset wv0 -> 40", "print mem 0 : offset bv1", "print mem 7 -> 3",
    ] {
        cases.push(("print".into(), p.to_string(), true));
    }
    // macro definition + use
    cases.push(("macro".into(), "macro mm(a,b) -> add a,b <-\nmm(ax,bx)\nmm(dx,5)\nmm(byte [bx,si,2],cl)".into(), true));
    cases.push(("macro".into(), "MACRO mm(q) -> push q <-\nmm(ax)\nmm(word [bp])".into(), true));
    cases.push(("macro".into(), "MACRO a(q)-> ADD AX,q <- MACRO b(k,q) -> k (q)<- b(a,5)".into(), true));
    let n = cases.len();
    par_for(16, 1, |t| {
        let mut agg = FailAgg::new();
        let mut loc = Local::default();
        let mut vm = VM::new();
        let mut w = HashSet::new();
        for i in (t..n).step_by(16) {
            let (class, body, documented) = &cases[i];
            let text = wrap(body);
            check_text(&text, class, *documented, true, &mut agg, &mut loc, &mut vm, Some(&mut w));
            loc.distinct.insert(fnv64(class.as_bytes()));
        }
        words.lock().unwrap().extend(w);
        agg.flush(rep);
        loc.flush(rep);
    });
    rep.count("register / immediate / label / control / string / print / macro shapes enumerated", n as u64);
    rep.sample(format!("shape `{}`: body {:?}", cases[0].0, cases[0].1));
    rep.sample(format!("shape `{}`: body {:?}", cases[n - 1].0, cases[n - 1].1));
}

/// data directives of all four kinds, labelled and not, boundary values, both cases, all radices
fn enumerate_data(rep: &Report, words: &Mutex<HashSet<String>>) {
    let mut cases: Vec<(String, String)> = Vec::new();
    for kw in ["db", "DB", "dw", "DW"] {
        let word = kw.eq_ignore_ascii_case("dw");
        let vals: Vec<&str> = if word { vec!["0", "1", "65535", "-1", "-32768", "32767", "0xFFFF", "0b101", "offset d0"] } else { vec!["0", "1", "255", "-1", "-128", "127", "0xFF", "0b101", "offset d0"] };
        for v in &vals {
            cases.push((format!("{} num", kw.to_ascii_lowercase()), format!("d0: db 9\n{} {}\n", kw, v)));
            cases.push((format!("{} num labelled", kw.to_ascii_lowercase()), format!("d0: db 9\nx1: {} {}\n", kw, v)));
            for n in ["0", "1", "300", "0x10"] {
                cases.push((format!("{} fill", kw.to_ascii_lowercase()), format!("d0: db 9\n{} [{},{}]\n", kw, v, n)));
                cases.push((format!("{} fill labelled", kw.to_ascii_lowercase()), format!("d0: db 9\nx1: {} [ {} , {} ]\n", kw, v, n)));
            }
        }
        for n in ["0", "1", "1000", "0xFF", "0b11"] {
            cases.push((format!("{} zeros", kw.to_ascii_lowercase()), format!("{} [{}]\n", kw, n)));
            cases.push((format!("{} zeros labelled", kw.to_ascii_lowercase()), format!("arr: {} [{}]\n", kw, n)));
        }
        for s in ["", "a", "hello world", "with 'single' quotes and \\n backslash", "punct: !#$%&()*+,-./:<=>?@[]^_`{|}~", "   spaces   "] {
            cases.push((format!("{} string", kw.to_ascii_lowercase()), format!("{} \"{}\"\n", kw, s)));
            cases.push((format!("{} string labelled", kw.to_ascii_lowercase()), format!("msg: {} \"{}\"\n", kw, s)));
        }
    }
    for n in ["0", "1", "65535", "0xF000", "0b1"] {
        cases.push(("set".into(), format!("set {}\ndb 1\nSET {}\ndw 2\n", n, n)));
    }
    let n = cases.len();
    let mut agg = FailAgg::new();
    let mut loc = Local::default();
    let mut vm = VM::new();
    let mut w = HashSet::new();
    for (class, data) in &cases {
        let text = format!("{}start:\nhlt\n", data);
        check_text(&text, &format!("data {}", class), true, true, &mut agg, &mut loc, &mut vm, Some(&mut w));
        loc.distinct.insert(fnv64(class.as_bytes()));
    }
    words.lock().unwrap().extend(w);
    agg.flush(rep);
    loc.flush(rep);
    rep.count("data-directive shapes enumerated", n as u64);
}

/// identifiers at the edge of the documented alphabet: names with non-ASCII letters / digits, combining marks, a
/// leading digit or underscore, used as code label, data label, procedure, macro and macro parameter. Whether the
/// assembler accepts such a name is not this property's business -- but what it accepts, the later stages must accept.
fn enumerate_names(rep: &Report) {
    let names = ["l\u{e9}", "boucle_r\u{e9}p", "l\u{663}", "l\u{df}1", "l\u{44f}", "\u{e9}l", "l\u{301}", "l\u{b7}x", "l\u{ba}", "_", "__", "_9", "l9_", "L\u{c9}", "l\u{ff11}", "x\u{2080}"];
    let mut agg = FailAgg::new();
    let mut loc = Local::default();
    let mut vm = VM::new();
    let mut n = 0u64;
    for nm in names {
        let texts = [
            ("code-label", format!("start:\n{0}: mov ax,1\njmp {0}\n", nm)),
            ("loop-label", format!("start:\nmov cx,2\n{0}:\nloop {0}\n", nm)),
            ("data-label", format!("{0}: db 1\nstart:\nmov al, byte {0}\ninc byte {0}\nmov bx, offset {0}\n", nm)),
            ("procedure", format!("def {0} {{ inc ax }}\nstart:\ncall {0}\n", nm)),
            ("macro-name", format!("macro {0}(p) -> mov ax,p <-\nstart:\n{0}(5)\n", nm)),
            ("macro-parameter", format!("macro mm({0}) -> mov ax,{0} <-\nstart:\nmm(5)\n", nm)),
        ];
        for (kind, text) in texts.iter() {
            n += 1;
            check_text(text, &format!("names:{}", kind), false, true, &mut agg, &mut loc, &mut vm, None);
            loc.distinct.insert(fnv64(format!("names|{}|{}", kind, nm).as_bytes()));
        }
    }
    agg.flush(rep);
    loc.flush(rep);
    rep.count("identifier-alphabet probes (names with non-ASCII / edge characters in every role)", n);
}

fn random_programs(rep: &Report, n: usize, seed: u64) {
    par_for(n, 16, |i| {
        let mut rng = Rng::new(seed).fork(0xC10_0000 + i as u64);
        let nins = 3 + rng.below(12);
        let p = rand_program_any(&mut rng, nins);
        let mut sp = Spell::random(rng.fork(3));
        let text = p.render(&mut sp, &Layout::plain()).text;
        thread_local! { static VMS: std::cell::RefCell<Option<Box<VM>>> = std::cell::RefCell::new(None); }
        VMS.with(|c| {
            let mut slot = c.borrow_mut();
            if slot.is_none() {
                *slot = Some(Box::new(VM::new()));
            }
            let vm = slot.as_mut().unwrap();
            let mut agg = FailAgg::new();
            let mut loc = Local::default();
            let v = check_text(&text, "random-program", true, false, &mut agg, &mut loc, vm, None);
            if v.accepted {
                *loc.counters.entry("random programs accepted and fed downstream").or_insert(0) += 1;
            }
            agg.flush(rep);
            loc.flush(rep);
        });
    });
}

/// the print reader and the 'Internal Error' paths are only reachable through the real binary
fn cli_pass(rep: &Report, n: usize, seed: u64) {
    par_for(n, 1, |i| {
        let core = i < 20;
        let mut rng = if core { Rng::new(0xC10C).fork(i as u64) } else { Rng::new(seed).fork(0xC10C_0000 + i as u64) };
        let mut p = rand_program_any(&mut rng, 10);
        // straight-line only: drop control transfers so that every line is reached, keep prints
        p.items.retain(|it| !matches!(it, Item::Ins(Ins::J(..)) | Item::Ins(Ins::Call(_)) | Item::Ins(Ins::Ret) | Item::Ins(Ins::Int(_)) | Item::Ins(Ins::Simple("hlt")) | Item::Ins(Ins::Str(..)) | Item::Ins(Ins::Un(Un::Div | Un::Idiv, _))));
        for k in 0..6 {
            p.items.push(Item::Ins(Ins::Print(match (k + i) % 5 {
                0 => PrintCmd::Flags,
                1 => PrintCmd::Reg,
                2 => PrintCmd::MemRange(rng.below(1000) as u32, 1000 + rng.below(40) as u32),
                3 => PrintCmd::MemLen((1 << 20) - 64, rng.below(63) as u32),
                _ => PrintCmd::MemDs(rng.below(48) as u32),
            })));
        }
        let mut sp = Spell::random(rng.fork(5));
        let text = p.render(&mut sp, &Layout::plain()).text;
        let out = run_cli(text.as_bytes(), &CliOpts { env: vec![("VERIF_NOMEM", "1")], ..Default::default() });
        rep.eval(1);
        if out.timed_out {
            rep.inconclusive("cli watchdog");
            return;
        }
        let parsed = parse_records(&out.stdout);
        let plain = String::from_utf8_lossy(&parsed.plain).to_string();
        if plain.contains("Internal Error") {
            let line = plain.lines().find(|l| l.contains("Internal Error")).unwrap_or("").to_string();
            let stage = if line.contains("print") {
                "printer"
            } else if line.contains("data") {
                "data loader"
            } else {
                "interpreter"
            };
            let at = parsed.recs.last().map(|r| r.line.clone()).unwrap_or_default();
            rep.fail(Failure {
                sig: format!("cli:internal-error:{}:{}", stage.replace(' ', "-"), at.split_whitespace().next().unwrap_or("?")),
                what: format!("C10 CLI: an accepted program reached the driver's 'Internal Error' path in the {}", stage),
                witness: format!("{{\"kind\": \"cli\", \"source\": {}, \"stdout_tail\": {}, \"last_line\": {}}}", json_str(&text), json_str(&plain[plain.len().saturating_sub(400)..]), json_str(&at)),
                core_item: if core { Some(format!("{}|{}", i, at)) } else { None },
            });
        }
        if plain.contains("Syntax Error") || plain.contains("not defined") {
            rep.count("cli programs refused by the assembler (generator limits; not judged)", 1);
        } else {
            rep.distinct_str(&format!("cli|{}", parsed.recs.len()));
        }
        if i == 0 {
            rep.sample(format!("cli program ({} hook records): {:?}", parsed.recs.len(), &text[..text.len().min(300)]));
        }
    });
    rep.count("CLI programs with print statements", n as u64);
}

/// accepted programs far beyond ordinary size: deep recursion, tens of thousands of instructions / data lines / labels /
/// procedures, hundreds of macro parameters -- everything the assembler accepted must still be accepted by the data
/// loader and by the interpreter when the program runs (no 'Internal Error' path, no abort, the program reaches its end)
fn scale_programs(rep: &Report) {
    let mut progs: Vec<(&str, String)> = Vec::new();
    for d in [33_000usize, 40_000] {
        progs.push(("deep-recursion", format!("def down {{\ninc bx\ndec cx\njcxz bottom\ncall down\nbottom:\ninc dx\n}}\nstart:\nmov cx, {}\ncall down\nmov si, 7\n", d)));
    }
    progs.push(("many-instructions", format!("start:\n{}mov si, 7\n", "inc ax\n".repeat(66_000))));
    {
        let mut t = String::new();
        for s in 0..280 {
            t.push_str(&format!("set {}\n", 0x100 + s * 0x10));
            for k in 0..250 {
                t.push_str(&format!("db {}\n", (s + k) % 256));
            }
        }
        t.push_str("start:\nmov si, 7\nprint mem 4096 -> 4111\n");
        progs.push(("many-data-lines", t));
    }
    {
        let mut t = String::from("start:\n");
        for k in 0..3000 {
            t.push_str(&format!("jmp l{}\nmov bx, 1\nl{}:\n", k, k));
        }
        t.push_str("mov si, 7\n");
        progs.push(("many-labels", t));
    }
    {
        let mut t = String::new();
        for k in 0..400 {
            t.push_str(&format!("def p{} {{ inc ax }}\n", k));
        }
        t.push_str("start:\n");
        for k in 0..400 {
            t.push_str(&format!("call p{}\n", k));
        }
        t.push_str("mov si, 7\n");
        progs.push(("many-procedures", t));
    }
    {
        let params: Vec<String> = (0..300).map(|k| format!("pz{}", k)).collect();
        let args: Vec<String> = (0..300).map(|k| format!("{}", k)).collect();
        progs.push(("many-macro-parameters", format!("macro wide({}) -> mov ax,pz0 mov bx,pz299 mov cx,pz256 <-\nstart:\nwide({})\nmov si, 7\n", params.join(","), args.join(","))));
    }
    // run-time state the assembler cannot know: a RET with nothing to return to is an error of the program, to be
    // reported as such -- not a line "that should have been refused" (these programs end at the RET: `si` is set before it)
    for (k, t) in [
        "start:\nmov si, 7\nret\nmov bx, 2\n",
        "def f { inc ax }\nstart:\nmov si, 7\njmp inside\ndef g {\ninside: inc bx\n}\n",
        "def f { inc ax }\nstart:\ncall f\nmov si, 7\nret\n",
        "def f {\nmov si, 7\nret\nret\n}\nstart:\ncall f\n",
        "macro leave(_) -> ret <-\nstart:\nmov si, 7\nleave(_)\n",
    ]
    .iter()
    .enumerate()
    {
        let _ = k;
        progs.push(("ret-without-call", t.to_string()));
    }
    let n = progs.len();
    par_for(n, 1, |i| {
        let (family, text) = &progs[i];
        let out = run_cli(text.as_bytes(), &CliOpts { env: vec![("VERIF_NOMEM", "1")], cap: 96 << 20, timeout_s: 120.0, ..Default::default() });
        rep.eval(1);
        rep.distinct_str(&format!("scale|{}|{}", family, i));
        if out.timed_out || out.flooded {
            rep.inconclusive("cli watchdog / output cap");
            return;
        }
        let parsed = parse_records(&out.stdout);
        let plain = String::from_utf8_lossy(&parsed.plain).to_string();
        if parsed.recs.is_empty() {
            // refused: not an accepted program (whether it should have been accepted is C11/C14's subject)
            rep.count("large programs refused by the assembler (not judged here)", 1);
            return;
        }
        rep.count("large accepted programs that were executed", 1);
        let ended = parsed.recs.last().map(|r| (r.line == "hlt" || *family == "ret-without-call") && r.regs[crate::ref8086::SI] == 7).unwrap_or(false);
        let sym = if plain.contains("Internal Error") {
            Some("internal-error")
        } else if !out.clean_exit() {
            Some("abort")
        } else if !ended {
            Some("does-not-reach-its-end")
        } else {
            None
        };
        if let Some(sym) = sym {
            rep.fail(Failure {
                sig: format!("cli:scale:{}:{}", family, sym),
                what: format!("C10 CLI: a large accepted program ({}) is not executed to its end ({})", family, sym),
                witness: format!("{{\"kind\": \"cli\", \"family\": \"{}\", \"source_head\": {}, \"source_bytes\": {}, \"stdout_tail\": {}, \"status\": {}}}", family, json_str(&text[..text.len().min(400)]), text.len(), json_str(&plain[plain.len().saturating_sub(400)..]), json_str(&out.status_str())),
                core_item: Some(format!("{}|{}", i, sym)),
            });
        }
    });
    rep.count("large programs run through the binary", n as u64);
    rep.floor("large accepted programs that were executed", rep.counter("large accepted programs that were executed"), 5);
}

/// Programs with one defect each (C14's mutants): whatever the tool chain does with them, it must either refuse them or
/// run them without reaching an 'Internal Error' path -- an invalid program that slips through the label checks shows
/// up here as an emitted line the interpreter cannot run.
fn defective_programs(rep: &Report, nparents: usize, seed: u64) {
    par_for(nparents, 1, |i| {
        let core = i < 4;
        let mut rng = if core { Rng::new(0xC10D).fork(i as u64) } else { Rng::new(seed).fork(0xC10D_0000 + i as u64) };
        let ms = crate::c14::sample_mutants(&mut rng);
        // in process, every mutant: if the assembler and the label checks let it through, each emitted line must be
        // accepted downstream (an out-of-range constant that slips through shows up as a line the interpreter refuses)
        {
            let mut agg = FailAgg::new();
            let mut loc = Local::default();
            with_fresh_vm(|vm| {
                for (class, text) in ms.iter() {
                    let cls = format!("after-defect:{}", class.split(":in-").next().unwrap_or(class));
                    let v = check_text(&strip_comments(text), &cls, false, core, &mut agg, &mut loc, vm, None);
                    if v.accepted {
                        *loc.counters.entry("single-defect programs accepted by assembler and label checks (C14's subject) and run downstream").or_insert(0) += 1;
                    }
                }
            });
            agg.flush(rep);
            loc.flush(rep);
        }
        for (k, (class, text)) in ms.iter().enumerate() {
            // the driver-level classes always, the others sampled
            let driver = class.starts_with("jump-") || class.starts_with("no-start") || class.starts_with("label-definition") || class.starts_with("call-") || class.starts_with("constant:");
            if !driver && (k + i) % 6 != 0 {
                continue;
            }
            let out = run_cli(text.as_bytes(), &CliOpts { env: vec![("VERIF_NOMEM", "1")], ..Default::default() });
            rep.eval(1);
            rep.count("single-defect programs run through the binary", 1);
            if out.timed_out || out.flooded {
                rep.inconclusive("cli watchdog");
                continue;
            }
            let parsed = parse_records(&out.stdout);
            let plain = String::from_utf8_lossy(&parsed.plain).to_string();
            rep.distinct_str(&format!("defect|{}|{}", class, parsed.recs.is_empty()));
            if plain.contains("Internal Error") {
                let line = plain.lines().find(|l| l.contains("Internal Error")).unwrap_or("").to_string();
                let stage = if line.contains("print") { "printer" } else if line.contains("data") { "data-loader" } else { "interpreter" };
                rep.fail(Failure {
                    sig: format!("cli:internal-error:{}:after-defect:{}", stage, class.split(':').next().unwrap_or("?")),
                    what: format!("C10 CLI: a program that passed preprocessing and label checking reached the driver's 'Internal Error' path in the {}", stage),
                    witness: format!("{{\"kind\": \"cli\", \"source\": {}, \"stdin\": \"\", \"defect\": {}, \"stdout_tail\": {}}}", json_str(text), json_str(class), json_str(&plain[plain.len().saturating_sub(300)..])),
                    core_item: if core { Some(format!("{}|{}", i, class)) } else { None },
                });
            }
        }
    });
}

/// print statements at the edges of the 1 MiB space: whatever the assembler lets through, the printer must answer
fn print_boundaries(rep: &Report) {
    let mb: u64 = 1 << 20;
    let mut stmts: Vec<String> = Vec::new();
    for a in [0u64, 1, 15, 16, mb / 2, mb - 17, mb - 16, mb - 2, mb - 1, mb, mb + 1] {
        for n in [0u64, 1, 2, 15, 16, 17, mb - 1, mb, mb + 1] {
            // sums around the end of memory and a few ordinary ones
            let s = a % mb + n % mb;
            if s + 2 >= mb && s <= mb + 2 || (a < 32 && n < 32) {
                stmts.push(format!("print mem {} : {}", a, n));
                stmts.push(format!("PRINT MEM 0x{:x}:0b{:b}", a, n));
            }
        }
        for b in [0u64, mb - 1, mb, mb + 1] {
            stmts.push(format!("print mem {} -> {}", a, b));
        }
    }
    for n in [0u64, 1, mb - 17, mb - 16, mb - 15, mb - 1, mb, mb + 1] {
        stmts.push(format!("print mem : {}", n));
    }
    stmts.sort();
    stmts.dedup();
    let n = stmts.len();
    par_for(n, 1, |i| {
        for ds in [0u32, 0xFFFF] {
            let src = format!("x: db 7\nstart:\nmov ax, {}\nmov ds, ax\n{}\nmov bx, 1\n", ds, stmts[i]);
            let out = run_cli(src.as_bytes(), &CliOpts::default());
            rep.eval(1);
            if out.timed_out {
                rep.inconclusive("cli watchdog");
                continue;
            }
            let parsed = parse_records(&out.stdout);
            let plain = String::from_utf8_lossy(&parsed.plain).to_string();
            let accepted = !parsed.recs.is_empty();
            rep.distinct_str(&format!("print-edge|{}|{}", i, accepted));
            if accepted && (plain.contains("Internal Error") || !out.clean_exit()) {
                let form = if stmts[i].contains("->") { "range" } else if stmts[i].to_lowercase().contains("mem :") { "ds-relative" } else { "start-length" };
                rep.fail(Failure {
                    sig: format!("cli:internal-error:printer:edge:{}", form),
                    what: "C10 CLI: a print statement the assembler accepts is not answered by the printer (Internal Error path / abort)".into(),
                    witness: format!("{{\"kind\": \"cli\", \"source\": {}, \"stdin\": \"\", \"stdout\": {}, \"status\": {}}}", json_str(&src), json_str(&plain[..plain.len().min(300)]), json_str(&out.status_str())),
                    core_item: Some(format!("{}|{}", stmts[i], ds)),
                });
            }
        }
    });
    rep.count("print statements at the edges of memory (each with DS=0 and DS=0xFFFF)", n as u64);
}

fn grammar_terminals() -> Vec<String> {
    let repo = std::env::var("VERIF_REPO").unwrap_or_else(|_| "/repo".to_string());
    let text = std::fs::read_to_string(format!("{}/src/lib/preprocessor/preprocessor.lalrpop", repo)).unwrap_or_default();
    let mut v = HashSet::new();
    for line in text.lines() {
        let l = line.trim_start();
        if l.starts_with("//") {
            continue;
        }
        let mut rest = l;
        while let Some(a) = rest.find('"') {
            let r2 = &rest[a + 1..];
            if let Some(b) = r2.find('"') {
                let tok = &r2[..b];
                if !tok.is_empty() && tok.chars().all(|c| c.is_ascii_alphabetic()) && !rest[..a].ends_with('r') {
                    v.insert(tok.to_string());
                }
                rest = &r2[b + 1..];
            } else {
                break;
            }
        }
    }
    let mut v: Vec<String> = v.into_iter().collect();
    v.sort();
    v
}

pub fn run(rep: &Report) {
    let words: Mutex<HashSet<String>> = Mutex::new(HashSet::new());
    enumerate_mem_shapes(rep, &words);
    enumerate_plain_shapes(rep, &words);
    enumerate_data(rep, &words);
    enumerate_names(rep);
    let t = rep.thorough();
    random_programs(rep, if t { 100_000 } else { 3000 }, rep.seed);
    cli_pass(rep, if t { 4000 } else { 150 }, rep.seed);
    print_boundaries(rep);
    scale_programs(rep);
    defective_programs(rep, if t { 600 } else { 10 }, rep.seed);
    // terminal coverage
    let terms = grammar_terminals();
    let w = words.lock().unwrap();
    let unsupported = ["in", "out", "lds", "les", "wait", "esc", "lock", "into", "iret", "IN", "OUT", "LDS", "LES", "WAIT", "ESC", "LOCK", "INTO", "IRET"];
    let uncovered: Vec<&String> = terms.iter().filter(|t| !w.contains(*t) && !unsupported.contains(&t.as_str())).collect();
    rep.count("assembler keyword terminals found in the grammar", terms.len() as u64);
    rep.count("assembler keyword terminals never seen in an accepted program", uncovered.len() as u64);
    if !uncovered.is_empty() {
        rep.note(format!("terminals not exercised by any accepted program (inconclusive for those spellings): {:?}", uncovered));
    }
    rep.floor("shapes enumerated", rep.evals(), 10_000);
}

pub const RULE: &str = "complete enumeration of the source grammar's instruction shapes: every two-operand / one-operand / shift / mov / xchg / push / pop / lea template with a memory operand x all 85 addressing shapes x two displacement+spelling sets; every register pair, immediate radix (decimal, 0x, 0b, negative, OFFSET), data-label form, every jump/loop spelling, single-opcode instruction, string instruction with every prefix spelling, print statement, macro definition/use and data directive kind, in lower and upper case; plus random whole programs. For each accepted program every data line goes to DataParser, every code line to Interpreter::parse in the context built from that program, and programs with print statements through the real binary looking for 'Internal Error'. Single-defect programs (C14's mutation classes, driver-level ones always) are run through the binary as well: refused or run, they must never reach an 'Internal Error' path. Keyword terminals scraped from the grammar are cross-checked for coverage. Distinct = shape class. Seven large accepted programs through the binary (recursion 33000 / 40000 deep, 66000 instructions, 70000 data lines, 3000 labels, 400 procedures, 300 macro parameters): no Internal Error, no abort, the end is reached. Identifier-alphabet probes: 16 names with non-ASCII letters / digits / marks and edge spellings in six roles (what the assembler accepts, the later stages must accept); programs whose RET has nothing to return to must be reported as a run-time error of the program, not as Internal Error.";
