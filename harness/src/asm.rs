//! In-process access to the real assembler (Preprocessor), data loader and a replica of the driver's
//! pre-run checks and run loop (the driver itself is bin-only; the replica is cross-checked against the
//! real binary's hook trace by the C08 monitor).
use crate::machine::*;
use emulator_8086_lib as lib;
use lib::{DataParser, Interpreter, InterpreterContext, LabelType, Preprocessor, PreprocessorContext, PreprocessorOutput, VM};
use std::cell::RefCell;
use std::collections::HashMap;
use std::panic::{catch_unwind, AssertUnwindSafe};

thread_local! {
    static PP: Preprocessor = Preprocessor::new();
    static DP: DataParser = DataParser::new();
    static IP: Interpreter = Interpreter::new();
    static SCRATCH_VM: RefCell<Option<Box<VM>>> = RefCell::new(None);
}

pub struct Assembled {
    pub data: Vec<String>,
    pub code: Vec<String>,
    /// name -> (is_data, map)
    pub labels: HashMap<String, (bool, usize)>,
    pub label_src_pos: HashMap<String, usize>,
    pub fn_map: HashMap<String, usize>,
    pub undefined: Vec<(usize, String)>,
    pub source_map: HashMap<usize, usize>,
}

#[derive(Debug, Clone, PartialEq, Eq)]
pub enum AsmErr {
    /// diagnostic from the preprocessor: (position of offending token if any, message)
    Diag(Option<usize>, String),
    Panic(String),
}

/// replica of the driver's comment stripping: regex `;.*\n?` replaced by "\n"
pub fn strip_comments(src: &str) -> String {
    let mut out = String::with_capacity(src.len());
    let mut it = src.char_indices().peekable();
    while let Some((_, c)) = it.next() {
        if c == ';' {
            // skip to end of line ('.' does not match '\n')
            while let Some(&(_, d)) = it.peek() {
                if d == '\n' {
                    break;
                }
                it.next();
            }
            // optional newline consumed
            if let Some(&(_, '\n')) = it.peek() {
                it.next();
            }
            out.push('\n');
        } else {
            out.push(c);
        }
    }
    out
}

pub fn assemble(src: &str) -> Result<Assembled, AsmErr> {
    assemble_in(PreprocessorContext::default(), src)
}

/// the library's documented way of reusing a context: process `noise`, call `clear()`, then assemble `src`
pub fn assemble_after_clear(noise: &str, src: &str) -> Result<Assembled, AsmErr> {
    let mut ctx = PreprocessorContext::default();
    let mut out = PreprocessorOutput::default();
    let _ = catch_unwind(AssertUnwindSafe(|| PP.with(|pp| pp.parse(&mut ctx, &mut out, noise).map(|_| ()).map_err(|_| ()))));
    ctx.clear();
    assemble_in(ctx, src)
}

fn assemble_in(ctx: PreprocessorContext, src: &str) -> Result<Assembled, AsmErr> {
    let mut ctx = ctx;
    let mut out = PreprocessorOutput::default();
    let res = catch_unwind(AssertUnwindSafe(|| {
        PP.with(|pp| match pp.parse(&mut ctx, &mut out, src) {
            Ok(_) => Ok(()),
            Err(e) => {
                let pos = match &e {
                    lalrpop_util::ParseError::UnrecognizedToken { token: (s, _, _), .. } => Some(*s),
                    lalrpop_util::ParseError::InvalidToken { location } => Some(*location),
                    lalrpop_util::ParseError::UnrecognizedEOF { location, .. } => Some(*location),
                    lalrpop_util::ParseError::ExtraToken { token: (s, _, _) } => Some(*s),
                    _ => None,
                };
                Err((pos, format!("{}", e)))
            }
        })
    }));
    match res {
        Err(_) => Err(AsmErr::Panic(last_panic())),
        Ok(Err((p, m))) => Err(AsmErr::Diag(p, m)),
        Ok(Ok(())) => {
            let PreprocessorContext { label_map, mapper, fn_map, undefined_labels, .. } = ctx;
            let mut labels = HashMap::new();
            let mut label_src_pos = HashMap::new();
            for (k, l) in label_map.iter() {
                // (casts: the harness does not depend on the integer width of the library's public fields)
                labels.insert(k.clone(), (matches!(l.get_type(), LabelType::DATA), l.map as usize));
                label_src_pos.insert(k.clone(), l.source_position as usize);
            }
            let mut undefined: Vec<(usize, String)> = undefined_labels.into_iter().collect();
            undefined.sort();
            Ok(Assembled {
                data: out.data,
                code: out.code,
                labels,
                label_src_pos,
                // container types of the library's maps are not relied upon
                fn_map: fn_map.into_iter().map(|(k, v)| (k, v as usize)).collect(),
                undefined,
                source_map: mapper.get_source_map().into_iter().map(|(k, v)| (crate::util::AsIndex::ix(k), crate::util::AsIndex::ix(v))).collect(),
            })
        }
    }
}

/// One assembler context and output used for several texts in a row, the way the library's own tests use them:
/// what a refused text leaves behind must not change how later texts are treated.
pub struct Session {
    ctx: PreprocessorContext,
    out: PreprocessorOutput,
}
impl Session {
    pub fn new() -> Session {
        Session { ctx: PreprocessorContext::default(), out: PreprocessorOutput::default() }
    }
    /// parse one more text on the same context / output
    pub fn parse(&mut self, src: &str) -> Result<(), AsmErr> {
        let (ctx, out) = (&mut self.ctx, &mut self.out);
        let res = catch_unwind(AssertUnwindSafe(|| {
            PP.with(|pp| match pp.parse(ctx, out, src) {
                Ok(_) => Ok(()),
                Err(e) => {
                    let pos = match &e {
                        lalrpop_util::ParseError::UnrecognizedToken { token: (s, _, _), .. } => Some(*s),
                        lalrpop_util::ParseError::InvalidToken { location } => Some(*location),
                        lalrpop_util::ParseError::UnrecognizedEOF { location, .. } => Some(*location),
                        lalrpop_util::ParseError::ExtraToken { token: (s, _, _) } => Some(*s),
                        _ => None,
                    };
                    Err((pos, format!("{}", e)))
                }
            })
        }));
        match res {
            Err(_) => Err(AsmErr::Panic(last_panic())),
            Ok(Err((p, m))) => Err(AsmErr::Diag(p, m)),
            Ok(Ok(())) => Ok(()),
        }
    }
    /// the library's documented reset between programs (the output is replaced by a new one)
    pub fn clear(&mut self) {
        self.ctx.clear();
        self.out = PreprocessorOutput::default();
    }
    pub fn code(&self) -> &Vec<String> {
        &self.out.code
    }
    pub fn data(&self) -> &Vec<String> {
        &self.out.data
    }
    /// everything a program's meaning depends on, as it stands after the texts parsed so far (ends the session:
    /// the library hands the source map out by value)
    pub fn finish(self) -> Assembled {
        let mut labels = HashMap::new();
        let mut label_src_pos = HashMap::new();
        for (k, l) in self.ctx.label_map.iter() {
            labels.insert(k.clone(), (matches!(l.get_type(), LabelType::DATA), l.map as usize));
            label_src_pos.insert(k.clone(), l.source_position as usize);
        }
        let mut undefined: Vec<(usize, String)> = self.ctx.undefined_labels.iter().map(|(p, l)| (crate::util::AsIndex::ix(p), l.clone())).collect();
        undefined.sort();
        Assembled {
            data: self.out.data.clone(),
            code: self.out.code.clone(),
            labels,
            label_src_pos,
            fn_map: self.ctx.fn_map.iter().map(|(k, v)| (k.clone(), *v as usize)).collect(),
            undefined,
            source_map: self.ctx.mapper.get_source_map().into_iter().map(|(k, v)| (crate::util::AsIndex::ix(k), crate::util::AsIndex::ix(v))).collect(),
        }
    }
}

#[derive(Debug, Clone, PartialEq, Eq)]
pub enum Refusal {
    UndefinedLabel(String),
    NoStart,
}

impl Assembled {
    /// replica of the driver's checks between preprocessing and execution
    pub fn driver_checks(&self) -> Result<usize, Refusal> {
        for (_, l) in &self.undefined {
            if !self.labels.contains_key(l) {
                return Err(Refusal::UndefinedLabel(l.clone()));
            }
        }
        match self.labels.get("start") {
            Some((false, m)) => Ok(*m),
            _ => Err(Refusal::NoStart),
        }
    }
    pub fn ictx(&self) -> InterpreterContext {
        let mut c = InterpreterContext::default();
        for (k, (is_data, m)) in &self.labels {
            c.label_map.insert(
                k.clone(),
                lib::Label::new(if *is_data { LabelType::DATA } else { LabelType::CODE }, 0, *m as _),
            );
        }
        c.fn_map = self.fn_map.iter().map(|(k, v)| (k.clone(), *v as _)).collect();
        c
    }
    /// data label offsets for the reference
    pub fn data_labels(&self) -> HashMap<String, u16> {
        self.labels.iter().filter(|(_, (d, _))| *d).map(|(k, (_, m))| (k.clone(), *m as u16)).collect()
    }
}

/// run the data loader over data lines; Err((line index, message)) on rejection, panic captured
pub fn load_data(vm: &mut VM, data: &[String]) -> Result<(), (usize, String)> {
    let mut ctr = 0usize;
    for (i, d) in data.iter().enumerate() {
        let r = catch_unwind(AssertUnwindSafe(|| DP.with(|dp| dp.parse(vm, &mut ctr, d).map_err(|e| format!("{}", e)))));
        match r {
            Ok(Ok(())) => {}
            Ok(Err(e)) => return Err((i, e)),
            Err(_) => return Err((i, format!("PANIC: {}", last_panic()))),
        }
    }
    vm.arch.ds = 0;
    Ok(())
}

pub fn data_parse_one(vm: &mut VM, ctr: &mut usize, line: &str) -> Result<(), String> {
    let r = catch_unwind(AssertUnwindSafe(|| DP.with(|dp| dp.parse(vm, ctr, line).map_err(|e| format!("{}", e)))));
    match r {
        Ok(x) => x,
        Err(_) => Err(format!("PANIC: {}", last_panic())),
    }
}

pub fn interp_one(idx: usize, vm: &mut VM, ictx: &mut InterpreterContext, line: &str) -> ObsFlow {
    let r = catch_unwind(AssertUnwindSafe(|| IP.with(|ip| ip.parse(idx, vm, ictx, line).map_err(|e| format!("{}", e)))));
    match r {
        Ok(Ok(s)) => state_to_obs(s),
        Ok(Err(e)) => ObsFlow::Rejected(e),
        Err(_) => ObsFlow::Panic(last_panic()),
    }
}

#[derive(Debug, Clone, PartialEq, Eq)]
pub enum RunEnd {
    Halt,
    /// interpreter returned Err at idx (reported error stops the program)
    Error(usize, String),
    Panic(usize, String),
    DivideError(usize),
    StepLimit,
    /// INT 10h / 21h met (cannot be replicated in process)
    IoInterrupt(usize, u8),
    BadIndex(usize),
}

pub struct RunTrace {
    /// indices handed to Interpreter::parse, in order (REPEAT re-issues included)
    pub trace: Vec<usize>,
    pub end: RunEnd,
}

/// Replica of the driver's run loop (without prompts and console interrupts).
pub fn run_replica(asm: &Assembled, start: usize, vm: &mut VM, max_steps: usize) -> RunTrace {
    let mut code = asm.code.clone();
    code.push("hlt".to_string());
    let mut ictx = asm.ictx();
    let mut idx = start;
    let mut trace = Vec::new();
    loop {
        if trace.len() >= max_steps {
            return RunTrace { trace, end: RunEnd::StepLimit };
        }
        if idx >= code.len() {
            return RunTrace { trace, end: RunEnd::BadIndex(idx) };
        }
        trace.push(idx);
        match interp_one(idx, vm, &mut ictx, &code[idx]) {
            ObsFlow::Halt => return RunTrace { trace, end: RunEnd::Halt },
            ObsFlow::Print | ObsFlow::Next => idx += 1,
            ObsFlow::Jmp(n) => idx = n,
            ObsFlow::Repeat => {}
            ObsFlow::Int(0) => return RunTrace { trace, end: RunEnd::DivideError(idx) },
            ObsFlow::Int(3) => idx += 1,
            ObsFlow::Int(n) => return RunTrace { trace, end: RunEnd::IoInterrupt(idx, n) },
            ObsFlow::Rejected(e) => return RunTrace { trace, end: RunEnd::Error(idx, e) },
            ObsFlow::Panic(p) => return RunTrace { trace, end: RunEnd::Panic(idx, p) },
        }
    }
}

/// a zeroed scratch VM reused per thread (allocation of 1 MiB is cheap but zeroing adds up)
pub fn with_fresh_vm<T>(f: impl FnOnce(&mut VM) -> T) -> T {
    SCRATCH_VM.with(|s| {
        let mut slot = s.borrow_mut();
        let mut vm = slot.take().unwrap_or_else(|| Box::new(VM::new()));
        // reset
        for b in vm.mem.iter_mut() {
            *b = 0;
        }
        vm.arch = lib::arch::i8086::default();
        vm.arch.flag = lib::vm::DEFAULT_FLAG;
        vm.arch.cs = lib::vm::CODE_SEG;
        let r = f(&mut vm);
        *slot = Some(vm);
        r
    })
}
