//! C16 — diagnostics and run-time messages cite the source line that caused them.
use crate::asm::*;
use crate::ast::*;
use crate::cli::*;
use crate::genprog::*;
use crate::prog::*;
use crate::report::{Failure, Report};
use crate::util::*;

fn line_of(text: &str, off: usize) -> usize {
    1 + text.as_bytes()[..off.min(text.len())].iter().filter(|b| **b == b'\n').count()
}
fn line_text(text: &str, line: usize) -> String {
    text.split('\n').nth(line - 1).unwrap_or("").to_string()
}
/// what the driver shows for a line: comment removed, trimmed
fn shown(text: &str, line: usize) -> String {
    let l = line_text(text, line);
    l.split(';').next().unwrap_or("").trim().to_string()
}
fn ints(s: &str) -> Vec<usize> {
    let mut v = Vec::new();
    let mut cur = String::new();
    for c in s.chars() {
        if c.is_ascii_digit() {
            cur.push(c);
        } else {
            if !cur.is_empty() {
                if let Ok(x) = cur.parse() {
                    v.push(x);
                }
                cur.clear();
            }
        }
    }
    if !cur.is_empty() {
        if let Ok(x) = cur.parse() {
            v.push(x);
        }
    }
    v
}

// ---------------------------------------------------------------------------------------
// programs with messages at known lines

fn cite_macro_defs() -> Vec<Item> {
    let mut v = macro_defs();
    v.push(Item::MacroDef("mpr".into(), vec!["_".into()], "print flags".into()));
    v.push(Item::MacroDef("mdiv".into(), vec!["d".into()], "mov bl,d div bl".into()));
    v.push(Item::MacroDef("mouter".into(), vec!["v".into()], "mset(v) mnone(_)".into()));
    v.push(Item::MacroDef("mbrk".into(), vec!["_".into()], "int 3".into()));
    // a long argument substituted many times in front of a nested use and of message-producing statements: the
    // expanded text is much longer than the file up to the use
    let ops = ["mov", "add", "sub", "and", "or", "xor", "cmp", "adc"];
    let mut body = String::new();
    for k in 0..MFILL_OPS {
        body.push_str(&format!("{} ax,p ", ops[k % ops.len()]));
    }
    body.push_str("mset(3) print flags int 3");
    v.push(Item::MacroDef("mfill".into(), vec!["p".into()], body));
    v
}

const MFILL_OPS: usize = 48;
fn mfill_use() -> Item {
    let m = Loc::Mem(W::W, Mem { seg: Some(SR::ES), form: MemForm::BasedIndexed(R16::BX, R16::SI, Some(0x20)) });
    let ops = [None, Some(Alu2::Add), Some(Alu2::Sub), Some(Alu2::And), Some(Alu2::Or), Some(Alu2::Xor), Some(Alu2::Cmp), Some(Alu2::Adc)];
    let mut e: Vec<Ins> = Vec::new();
    for k in 0..MFILL_OPS {
        e.push(match ops[k % ops.len()] {
            None => Ins::Mov(Loc::R16(R16::AX), Src::Loc(m.clone())),
            Some(op) => Ins::Alu2(op, Loc::R16(R16::AX), Src::Loc(m.clone())),
        });
    }
    e.push(Ins::Mov(Loc::R16(R16::DX), Src::Imm(3)));
    e.push(Ins::Print(PrintCmd::Flags));
    e.push(Ins::Int(3));
    Item::MacroUse("mfill".into(), vec!["word es[bx,si,0x20]".into()], e)
}

#[derive(Clone, Copy, PartialEq, Eq, Debug)]
enum Ending {
    None,
    DivDirect,
    DivMacro,
    DivProc,
    BadAh,
    BadAh10,
}

struct CiteCase {
    program: Program,
    ending: Ending,
}

fn ident(uid: &mut u16) -> Item {
    *uid += 1;
    Item::Ins(Ins::Mov(Loc::R16(R16::SI), Src::Imm(*uid)))
}

fn cite_program(rng: &mut Rng) -> CiteCase {
    let mut uid = 500u16;
    let mut items = cite_macro_defs();
    let ending = *rng.pick(&[Ending::None, Ending::None, Ending::DivDirect, Ending::DivMacro, Ending::DivProc, Ending::BadAh, Ending::BadAh10]);
    // procedures: leaf, one with a breakpoint and a macro use, one that divides
    items.push(Item::Proc("pa".into(), vec![ident(&mut uid), Item::Ins(Ins::Simple("stc"))]));
    items.push(Item::Proc(
        "pb".into(),
        vec![
            ident(&mut uid),
            Item::MacroUse("mbrk".into(), vec!["_".into()], vec![Ins::Int(3)]),
            Item::Ins(Ins::Call("pa".into())),
            Item::Ins(Ins::Int(3)),
        ],
    ));
    items.push(Item::Proc("pdiv".into(), vec![Item::Ins(Ins::Mov(Loc::R8(R8::BL), Src::Imm(0))), Item::Ins(Ins::Un(Un::Div, Loc::R8(R8::BL)))]));
    items.push(Item::Label("start".into()));
    // now and then more than 65536 instructions in front of everything that produces a message
    if rng.chance(1, 16) {
        items.push(Item::Ins(Ins::J(Jcc::Jmp, "Kfar".into())));
        for _ in 0..65_600 {
            items.push(Item::Ins(Ins::Simple("cld")));
        }
        items.push(Item::Label("Kfar".into()));
    }
    let n = 2 + rng.below(9);
    for _ in 0..n {
        match rng.below(15) {
            14 => items.push(mfill_use()),
            // the program switches single-stepping on and off by itself (trap flag through POPF): the messages after a
            // stepped stretch must cite their own lines again
            12 | 13 => {
                let on = rng.chance(1, 2);
                items.push(Item::Ins(Ins::Mov(Loc::R16(R16::AX), Src::Imm(if on { 0x0100 } else { 0 }))));
                items.push(Item::Ins(Ins::Push(Loc::R16(R16::AX))));
                items.push(Item::Ins(Ins::Simple("popf")));
            }
            0 | 1 => items.push(Item::Ins(Ins::Print(match rng.below(4) {
                0 => PrintCmd::Reg,
                1 => PrintCmd::Flags,
                2 => PrintCmd::MemRange(rng.below(100) as u32, 100 + rng.below(20) as u32),
                _ => PrintCmd::MemDs(rng.below(20) as u32),
            }))),
            2 => items.push(Item::Ins(Ins::Int(3))),
            3 => items.push(Item::MacroUse("mpr".into(), vec!["_".into()], vec![Ins::Print(PrintCmd::Flags)])),
            4 => items.push(Item::MacroUse("mbrk".into(), vec!["_".into()], vec![Ins::Int(3)])),
            5 => {
                uid += 1;
                items.push(Item::MacroUse("mouter".into(), vec![uid.to_string()], vec![Ins::Mov(Loc::R16(R16::DX), Src::Imm(uid)), Ins::Simple("cld")]));
            }
            6 => items.push(Item::Ins(Ins::Call((*rng.pick(&["pa", "pb"])).into()))),
            7 => items.push(Item::Ins(Ins::Simple(*rng.pick(&["stc", "clc", "cmc", "cld"])))),
            8 => {
                let l = format!("K{}", uid);
                uid += 1;
                items.push(Item::Ins(Ins::J(Jcc::Jmp, l.clone())));
                items.push(ident(&mut uid));
                items.push(Item::Label(l));
            }
            _ => items.push(ident(&mut uid)),
        }
    }
    match ending {
        Ending::None => {}
        Ending::DivDirect => {
            items.push(Item::Ins(Ins::Mov(Loc::R16(R16::CX), Src::Imm(0))));
            items.push(Item::Ins(Ins::Un(if rng.chance(1, 2) { Un::Div } else { Un::Idiv }, Loc::R16(R16::CX))));
        }
        Ending::DivMacro => items.push(Item::MacroUse("mdiv".into(), vec!["0".into()], vec![Ins::Mov(Loc::R8(R8::BL), Src::Imm(0)), Ins::Un(Un::Div, Loc::R8(R8::BL))])),
        Ending::DivProc => items.push(Item::Ins(Ins::Call("pdiv".into()))),
        Ending::BadAh => {
            items.push(Item::Ins(Ins::Mov(Loc::R8(R8::AH), Src::Imm(0x4C))));
            items.push(Item::Ins(Ins::Int(0x21)));
        }
        Ending::BadAh10 => {
            items.push(Item::Ins(Ins::Mov(Loc::R8(R8::AH), Src::Imm(0x0E))));
            items.push(Item::Ins(Ins::Int(0x10)));
        }
    }
    if ending != Ending::None && rng.chance(1, 2) {
        items.push(ident(&mut uid));
    }
    CiteCase { program: Program { data: vec![], items }, ending }
}

/// Windows line ends: every LF becomes CR LF (line numbers and line texts stay what they are)
fn crlf(text: &str) -> String {
    text.replace('\n', "\r\n")
}

fn rand_layout(rng: &mut Rng) -> Layout {
    Layout { trailing_newline: rng.chance(1, 2), filler_pct: *rng.pick(&[0u32, 20, 50]), pack_pct: *rng.pick(&[0u32, 0, 20, 40]), comments: rng.chance(1, 2) }
}

/// (a) in process: instruction i's source-map offset lies on the generator-known line
fn check_map(rep: &Report, p: &Program, rng: &mut Rng, core: Option<String>, kind: &str) {
    let lay = rand_layout(rng);
    let (pad, indent) = rand_scale(rng);
    let mut r = p.render(&mut Spell::random(rng.fork(9)), &lay).scaled(pad, indent);
    let use_crlf = rng.chance(1, 4);
    if use_crlf {
        r.text = crlf(&r.text);
    }
    let stripped = strip_comments(&r.text);
    rep.eval(1);
    if pad + indent > 0 {
        rep.count("programs at scale (line numbers beyond 255 / 65535, columns beyond 255)", 1);
    }
    let a = match assemble(&stripped) {
        Ok(a) => a,
        Err(_) => {
            rep.count("generated programs refused by the assembler (not judged here)", 1);
            return;
        }
    };
    if a.code.len() != r.pos.len() {
        rep.count("programs whose instruction count differs from the generator's (C11's subject, not judged here)", 1);
        return;
    }
    rep.count("instructions whose source-map entry was compared", a.code.len() as u64);
    let flat = p.flatten();
    let mflags = macro_flags(p);
    // newline offsets of the stripped text: line of an offset by binary search
    let nls: Vec<usize> = stripped.bytes().enumerate().filter(|(_, b)| *b == b'\n').map(|(i, _)| i).collect();
    let line_of = |_t: &str, off: usize| 1 + nls.partition_point(|n| *n < off.min(stripped.len()));
    for (i, ip) in r.pos.iter().enumerate() {
        let what = if flat.code.get(i).map(|f| f.implied_ret).unwrap_or(false) {
            "implied-ret"
        } else if mflags.get(i).copied().unwrap_or(false) {
            "macro-generated"
        } else {
            "instruction"
        };
        rep.distinct_str(&format!("map|{}|{}|nl{}|pack{}|c{}", kind, what, lay.trailing_newline, lay.pack_pct > 0, lay.comments));
        match a.source_map.get(&i) {
            None => {
                rep.fail(Failure {
                    sig: format!("map:{}:missing", what),
                    what: "C16: an emitted instruction has no source-map entry".into(),
                    witness: format!("{{\"kind\": \"src\", \"source\": {}, \"instruction\": {}}}", json_str(&r.text), i),
                    core_item: core.as_ref().map(|c| format!("{}|{}", c, i)),
                });
                return;
            }
            Some(off) => {
                let l = line_of(&stripped, *off);
                if l != ip.line {
                    rep.fail(Failure {
                        sig: format!("map:{}:wrong-line", what),
                        what: format!("C16: the source-map entry of an emitted instruction ({}) lies on a different line than the source that produced it", what),
                        witness: format!("{{\"kind\": \"src\", \"source\": {}, \"instruction\": {}, \"ir\": {}, \"expected_line\": {}, \"mapped_offset\": {}, \"mapped_line\": {}}}", json_str(&r.text), i, json_str(&a.code[i]), ip.line, off, l),
                        core_item: core.as_ref().map(|c| format!("{}|{}|{}", c, i, l)),
                    });
                    return;
                }
            }
        }
    }
}

/// for every emitted instruction: does it come out of a macro use (one walk over the program)
fn macro_flags(p: &Program) -> Vec<bool> {
    fn walk(items: &[Item], out: &mut Vec<bool>) {
        for it in items {
            match it {
                Item::Ins(_) => out.push(false),
                Item::Proc(_, b) => {
                    walk(b, out);
                    out.push(false);
                }
                Item::MacroUse(_, _, e) => {
                    for _ in 0..e.len() {
                        out.push(true);
                    }
                }
                _ => {}
            }
        }
    }
    let mut v = Vec::new();
    walk(&p.items, &mut v);
    v
}

#[allow(dead_code)]
fn is_macro_generated(p: &Program, flat_idx: usize) -> bool {
    fn walk(items: &[Item], n: &mut usize, target: usize, hit: &mut bool) {
        for it in items {
            match it {
                Item::Ins(_) => *n += 1,
                Item::Proc(_, b) => {
                    walk(b, n, target, hit);
                    *n += 1;
                }
                Item::MacroUse(_, _, e) => {
                    if target >= *n && target < *n + e.len() {
                        *hit = true;
                    }
                    *n += e.len();
                }
                _ => {}
            }
        }
    }
    let mut n = 0;
    let mut hit = false;
    walk(&p.items, &mut n, flat_idx, &mut hit);
    hit
}

/// (b) the binary's run-time messages
fn check_messages(rep: &Report, c: &CiteCase, rng: &mut Rng, core: Option<usize>) {
    let lay = rand_layout(rng);
    let (pad, indent) = rand_scale(rng);
    let mut r = c.program.render(&mut Spell::random(rng.fork(5)), &lay).scaled(pad, indent);
    if pad + indent > 0 {
        rep.count("programs at scale (line numbers beyond 255 / 65535, columns beyond 255)", 1);
    }
    let use_crlf = rng.chance(1, 4);
    if use_crlf {
        r.text = crlf(&r.text);
    }
    let interpreted = rng.chance(1, 3);
    let stdin = b"n\n".repeat(2000);
    let out = run_cli(r.text.as_bytes(), &CliOpts { interpreted, stdin: &stdin, env: vec![("VERIF_NOMEM", "1")], ..Default::default() });
    rep.eval(1);
    let p = parse_records(&out.stdout);
    let wit = |detail: &str| {
        format!(
            "{{\"kind\": \"cli\", \"interpreted_flag\": {}, \"source\": {}, \"stdin\": \"n\\n x2000\", \"detail\": {}, \"status\": {}}}",
            interpreted,
            json_str(&r.text),
            json_str(detail),
            json_str(&out.status_str())
        )
    };
    let fail = |sig: String, what: String, detail: String| {
        rep.fail(Failure { sig: sig.clone(), what, witness: wit(&detail), core_item: core.map(|k| format!("{}|{}|{}", k, sig, detail)) });
    };
    if out.timed_out || out.flooded {
        rep.inconclusive("cli watchdog");
        return;
    }
    if !out.clean_exit() {
        fail("msg:abort".into(), "C16: the emulator aborts while producing a message".into(), out.status_str());
        return;
    }
    if p.recs.is_empty() {
        rep.count("generated programs refused (not judged here)", 1);
        return;
    }
    let flat = c.program.flatten();
    let n_emitted = r.pos.len();
    let lk = |b: bool| if b { "nl" } else { "no-nl" };
    for k in 0..p.recs.len() {
        let rec = &p.recs[k];
        if rec.idx >= n_emitted {
            continue;
        }
        let seg = String::from_utf8_lossy(&p.segs[k + 1]).to_string();
        let line = r.pos[rec.idx].line;
        let want_text = shown(&r.text, line);
        let origin = if flat.code.get(rec.idx).map(|f| f.implied_ret).unwrap_or(false) {
            "implied-ret"
        } else if is_macro_generated(&c.program, rec.idx) {
            "macro"
        } else {
            "plain"
        };
        let last_line = line == r.text.trim_end_matches('\n').split('\n').count();
        // every message kind that must appear after this record
        let mut expect: Vec<(&str, &str)> = Vec::new(); // (kind, marker)
        // stepping is active for this instruction when -i was given or the trap flag is set in its record
        let stepping = interpreted || rec.tf;
        if stepping {
            expect.push(("about-to-execute", "About to execute line"));
        }
        if rec.line.starts_with("print") {
            expect.push(("output-of-line", "Output of line"));
        }
        if rec.line == "int 3" {
            expect.push(("int3", "Int 3 at line"));
        }
        let is_last = k + 1 == p.recs.len();
        if is_last && rec.line != "hlt" {
            match c.ending {
                Ending::DivDirect | Ending::DivMacro | Ending::DivProc if rec.line.starts_with("div") || rec.line.starts_with("idiv") => expect.push(("divide-error", "ivide")),
                Ending::BadAh | Ending::BadAh10 if rec.line.starts_with("int") => expect.push(("unsupported-interrupt", "AH")),
                _ => {}
            }
        }
        // regions of the segment, independent of the wording: pieces that end in a prompt are announcements
        // (step announcement first, then the breakpoint message), what follows the last prompt is the
        // instruction's own output, whose first line is the header of a print / the error message
        let pieces: Vec<&str> = seg.split(">>> ").collect();
        let tail = pieces[pieces.len() - 1];
        for (kind, _marker) in expect {
            rep.count("messages checked", 1);
            rep.distinct_str(&format!("{}|{}|{}|last{}|c{}|p{}", kind, origin, lk(lay.trailing_newline), last_line, lay.comments, lay.pack_pct > 0));
            let region: Option<String> = match kind {
                "about-to-execute" => if pieces.len() >= 2 { Some(pieces[0].to_string()) } else { None },
                "int3" => {
                    let k = if stepping { 1 } else { 0 };
                    if pieces.len() >= k + 2 { Some(pieces[k].to_string()) } else { None }
                }
                _ => tail.lines().find(|l| !l.trim().is_empty()).map(|l| l.to_string()),
            };
            match region.as_deref().map(|m| m.trim()).filter(|m| !m.is_empty()) {
                None => fail(format!("msg:{}:{}:missing", kind, origin), format!("C16: no `{}` message for an instruction that requires one", kind), format!("idx {} ir {:?} segment {:?}", rec.idx, rec.line, &seg[..seg.len().min(200)])),
                Some(m) => {
                    // the line number must appear as an integer token before the quoted line text
                    // the quoted line text comes last: search it from the end (short texts such as "INT 3" may also occur in the wording)
                    let head = if !want_text.is_empty() { m.rfind(&want_text).map(|i| &m[..i]).unwrap_or(m) } else { m };
                    let nums = ints(head);
                    if !nums.contains(&line) {
                        fail(
                            format!("msg:{}:{}:line-number", kind, origin),
                            format!("C16: a `{}` message cites a different line number than the line of the instruction ({})", kind, origin),
                            format!("idx {} ir {:?} on line {} message {:?}", rec.idx, rec.line, line, m),
                        );
                    } else if kind != "int3" && !want_text.is_empty() && !m.contains(&want_text) {
                        fail(
                            format!("msg:{}:{}:line-text", kind, origin),
                            format!("C16: a `{}` message shows a different line text than the line of the instruction", kind),
                            format!("idx {} line {} text {:?} message {:?}", rec.idx, line, want_text, m),
                        );
                    }
                }
            }
        }
    }
    if core == Some(0) {
        rep.sample(format!("source {:?} -> plain stdout head {:?}", r.text, String::from_utf8_lossy(&p.plain[..p.plain.len().min(300)])));
    }
}

// ---------------------------------------------------------------------------------------
// (c) diagnostics for single-token corruptions

struct Tok {
    off: usize,
    len: usize,
}

fn tokenize(text: &str) -> Vec<Tok> {
    let b = text.as_bytes();
    let mut v = Vec::new();
    let mut i = 0;
    while i < b.len() {
        let c = b[i];
        if c == b'"' {
            // skip string literals
            i += 1;
            while i < b.len() && b[i] != b'"' && b[i] != b'\n' {
                i += 1;
            }
            i += 1;
        } else if c == b';' {
            while i < b.len() && b[i] != b'\n' {
                i += 1;
            }
        } else if c.is_ascii_whitespace() {
            i += 1;
        } else if c.is_ascii_alphanumeric() || c == b'_' || (c == b'-' && i + 1 < b.len() && b[i + 1].is_ascii_digit()) {
            let s = i;
            i += 1;
            while i < b.len() && (b[i].is_ascii_alphanumeric() || b[i] == b'_') {
                i += 1;
            }
            v.push(Tok { off: s, len: i - s });
        } else if c == b'-' && i + 1 < b.len() && b[i + 1] == b'>' {
            v.push(Tok { off: i, len: 2 });
            i += 2;
        } else {
            v.push(Tok { off: i, len: 1 });
            i += 1;
        }
    }
    v
}

/// (replacement, class, strict): strict = the replacement can never continue a valid prefix, so the offending
/// token is the corrupted one; `]` may legitimately close an open bracket, which moves the offending token
/// to a later one on the same line (instructions are rendered on one line)
const CORRUPT: [(&str, &str, bool); 7] = [(")", "unexpected-token", true), ("]", "unexpected-token", false), (">", "unexpected-token", true), ("@", "invalid-character", true), ("#", "invalid-character", true), ("\u{e9}", "invalid-character", true), ("$", "invalid-character", true)];

fn check_diag(rep: &Report, rng: &mut Rng, core: Option<usize>, cli: bool) {
    let np = 3 + rng.below(10);
    let p = rand_program_any(rng, np);
    let lay = Layout { trailing_newline: rng.chance(1, 2), filler_pct: *rng.pick(&[0u32, 30]), pack_pct: 0, comments: rng.chance(1, 3) };
    let (pad, indent) = rand_scale(rng);
    let r = p.render(&mut Spell::random(rng.fork(2)), &lay).scaled(pad, indent);
    if pad + indent > 0 {
        rep.count("programs at scale (line numbers beyond 255 / 65535, columns beyond 255)", 1);
    }
    let mut r = r;
    if rng.chance(1, 4) {
        r.text = crlf(&r.text);
    }
    let toks = tokenize(&r.text);
    if toks.is_empty() {
        return;
    }
    // positions: first, last, random middle
    let ti = match rng.below(6) {
        0 => 0,
        1 => toks.len() - 1,
        _ => rng.below(toks.len()),
    };
    let (corr, class, strict) = CORRUPT[rng.below(CORRUPT.len())];
    let t = &toks[ti];
    let mut text = String::new();
    text.push_str(&r.text[..t.off]);
    text.push_str(corr);
    text.push_str(&r.text[t.off + t.len..]);
    let line = line_of(&text, t.off);
    let line_start = text[..t.off].rfind('\n').map(|x| x + 1).unwrap_or(0);
    let col = t.off - line_start;
    let want_text = shown(&text, line);
    let where_ = if line == 1 { "first-line" } else if line == text.trim_end_matches('\n').split('\n').count() { if text.ends_with('\n') { "last-line" } else { "last-line-no-newline" } } else { "middle" };
    rep.eval(1);
    // in process: the reported position must be the corrupted token
    let stripped = strip_comments(&text);
    match assemble(&stripped) {
        Ok(_) => {
            rep.count("corruptions accepted by the assembler (a corrupted token inside a macro body; not judged)", 1);
            return;
        }
        Err(AsmErr::Panic(_)) => {
            rep.count("corruptions that panic the assembler (C15's subject)", 1);
            return;
        }
        Err(AsmErr::Diag(pos, _)) => {
            rep.count("diagnostic positions compared (in process)", 1);
            let ok = pos.map(|p| line_of(&stripped, p) == line).unwrap_or(false);
            if !ok {
                rep.fail(Failure {
                    sig: format!("diag:{}:position-line", class),
                    what: "C16: the position carried by the assembler's diagnostic is not on the line of the offending token".into(),
                    witness: format!("{{\"kind\": \"src\", \"source\": {}, \"corrupted_offset\": {}, \"expected_line\": {}, \"reported_position\": {:?}}}", json_str(&text), t.off, line, pos),
                    core_item: core.map(|k| format!("{}|{:?}", k, pos)),
                });
            }
        }
    }
    rep.distinct_str(&format!("diag|{}|{}|c{}", class, where_, lay.comments));
    if !cli {
        return;
    }
    let out = run_cli(text.as_bytes(), &CliOpts::default());
    rep.count("diagnostics checked on the binary", 1);
    let pr = parse_records(&out.stdout);
    let plain = String::from_utf8_lossy(&pr.plain).to_string();
    let fail = |sig: String, what: String| {
        rep.fail(Failure {
            sig: sig.clone(),
            what,
            witness: format!(
                "{{\"kind\": \"cli\", \"source\": {}, \"stdin\": \"\", \"expected_line\": {}, \"expected_column\": {}, \"expected_text\": {}, \"stdout\": {}, \"status\": {}}}",
                json_str(&text),
                line,
                col,
                json_str(&want_text),
                json_str(&plain[..plain.len().min(400)]),
                json_str(&out.status_str())
            ),
            core_item: core.map(|k| format!("{}|{}", k, sig)),
        });
    };
    if out.timed_out {
        rep.inconclusive("cli watchdog");
        return;
    }
    if !out.clean_exit() {
        rep.count("corruptions that abort the binary (C15's subject)", 1);
        return;
    }
    // the quoted line text comes last: search it from the end (one-character lines such as ">" may also occur in the wording)
    let head = if !want_text.is_empty() { plain.rfind(&want_text).map(|i| &plain[..i]).unwrap_or(&plain[..]) } else { &plain[..] };
    let nums = ints(head);
    if !nums.contains(&line) {
        fail(format!("diag:{}:{}:line-number", class, where_), format!("C16: the diagnostic for a corrupted token ({}) does not cite the line of that token", class));
    } else if !(nums.contains(&col) || nums.contains(&(col + 1)) || (!strict && nums.iter().any(|c| *c > col && *c <= col + 1 + line_text(&text, line).len()))) {
        fail(format!("diag:{}:{}:column", class, where_), format!("C16: the diagnostic for a corrupted token ({}) does not cite its column", class));
    } else if !want_text.is_empty() && !plain.contains(&want_text) {
        fail(format!("diag:{}:{}:line-text", class, where_), format!("C16: the diagnostic for a corrupted token ({}) does not show the text of its line", class));
    }
}

/// (d) one context used for several texts in a row (the way the library's own tests use it, no clear in between): after
/// texts that were refused -- in particular inside a macro expansion -- the instructions of the next accepted text must
/// still be mapped to their own lines of that text
fn check_map_continued(rep: &Report, rng: &mut Rng, core: Option<usize>) {
    let mut sess = crate::asm::Session::new();
    let a = "x: db 5\nmacro mimm(v) -> mov al,v <-\nmacro mbad(p) -> mov si,1 mov p,p,p <-\nmacro mnest(v) -> mov di,2 mimm(v) <-\nmacro mjmp(t) -> jmp t <-\nstart:\nmov ax,1\n";
    if sess.parse(a).is_err() {
        rep.inconclusive("continued-map prologue refused");
        return;
    }
    let refused_pool = ["mimm(300)\n", "mbad(5)\n", "mnest(300)\n", "mov al,\n", "mov ax,1 )\n", "nosuchmacro(1)\n", "mov bl, 256\n", "\n\n   mimm(70000)\n", "mjmp(x)\n"];
    let mut hist = Vec::new();
    for _ in 0..rng.below(3) {
        let b = refused_pool[rng.below(refused_pool.len())];
        let r = sess.parse(b);
        hist.push(format!("{:?} -> {}", b, if r.is_ok() { "accepted" } else { "refused" }));
    }
    let before = sess.code().len();
    // the text under test: (line text, number of instructions it emits)
    let uid = 9000 + rng.below(500);
    let pool: [(&str, usize); 8] = [("mov si,7", 1), ("  mov di,8", 1), ("", 0), ("mimm(5)", 1), ("mnest(6)", 2), ("print reg", 1), ("\tstc", 1), ("mov bx,1 mov cx,2", 2)];
    let mut text = String::new();
    let mut expect: Vec<usize> = Vec::new(); // 1-based line of every emitted instruction
    let nl = 2 + rng.below(6);
    for li in 0..nl {
        let (t, k) = pool[rng.below(pool.len())];
        text.push_str(t);
        text.push('\n');
        for _ in 0..k {
            expect.push(li + 1);
        }
    }
    text.push_str(&format!("jmp later{}\n", uid));
    expect.push(nl + 1);
    let jmp_line = nl + 1;
    rep.eval(1);
    rep.distinct_str(&format!("map-continued|{}|{}", hist.len(), expect.len().min(8)));
    let r = sess.parse(&text);
    let fin = sess.finish();
    let fail = |sig: &str, what: &str, detail: String| {
        rep.fail(Failure {
            sig: format!("map:continued:{}", sig),
            what: format!("C16: {}", what),
            witness: format!("{{\"kind\": \"src-sequence\", \"prologue\": {}, \"refused_before\": {:?}, \"source\": {}, \"detail\": {}}}", json_str(a), hist, json_str(&text), json_str(&detail)),
            core_item: core.map(|k| format!("{}|{}", k, sig)),
        });
    };
    if r.is_err() {
        fail("valid-text-refused", "a valid text is refused on a context that refused other texts before", format!("{:?}", r));
        return;
    }
    if fin.code.len() != before + expect.len() {
        rep.count("continued texts whose instruction count differs from the generator's (not judged)", 1);
        return;
    }
    rep.count("instructions whose source-map entry was compared", expect.len() as u64);
    for (j, line) in expect.iter().enumerate() {
        match fin.source_map.get(&(before + j)) {
            None => {
                fail("missing", "an instruction emitted after refused texts has no source-map entry", format!("instruction {} `{}`", j, fin.code[before + j]));
                return;
            }
            Some(off) => {
                let l = line_of(&text, *off);
                if l != *line {
                    fail("wrong-line", "an instruction emitted after refused texts (no clear in between) is mapped to a different line than the one that produced it", format!("instruction {} `{}` expected line {} mapped offset {} (line {})", j, fin.code[before + j], line, off, l));
                    return;
                }
            }
        }
    }
    // the forward reference is recorded on the jump's line as well
    let name = format!("later{}", uid);
    if let Some((pos, _)) = fin.undefined.iter().find(|(_, l)| *l == name) {
        if line_of(&text, *pos) != jmp_line {
            fail("forward-reference-position", "a forward reference recorded after refused texts carries a position on another line", format!("expected line {} position {} (line {})", jmp_line, pos, line_of(&text, *pos)));
        }
    }
}

/// driver-level and semantic diagnostics at known lines
fn check_semantic(rep: &Report, rng: &mut Rng, core: Option<usize>) {
    let pre = rng.below(6);
    let post = rng.below(4);
    let mut lines: Vec<String> = vec!["x: db 5".into(), "w: dw 7".into(), "def f {".into(), "mov ax,1".into(), "}".into(), "start:".into()];
    // macros whose expansion carries the defect to the use site (positions inside the expansion are not source positions)
    lines.insert(2, "macro mjmp(t) -> mov si,1 mov di,2 mov si,3 mov di,4 jmp t <-".into());
    lines.insert(3, "macro mimm(v) -> mov al,v <-".into());
    lines.insert(4, "macro mout(t) -> mjmp(t) <-".into());
    for i in 0..pre {
        lines.push(format!("mov si,{}", 100 + i));
        if rng.chance(1, 3) {
            lines.push(String::new());
        }
    }
    // (text, class, token whose column the diagnostic must name when the offending token is unambiguous)
    let (bad, class, tok): (&str, &str, Option<&str>) = *rng.pick(&[
        ("jmp nowhere", "undefined-label", None),
        ("loop nowhere2", "undefined-label", None),
        ("mov al,300", "constant-range", Some("300")),
        ("mov   bl,   0x1FF", "constant-range", Some("0x1FF")),
        ("  add cl, 0b100000000", "constant-range", Some("0b100000000")),
        ("int 0x100", "constant-range", Some("0x100")),
        ("mov ax,  0x10000", "constant-range", Some("0x10000")),
        ("\tmov dx, 65536", "constant-range", Some("65536")),
        ("mov ax, byte x", "width-mix", None),
        ("add word w, byte x", "two-memory", None),
        ("call start", "call-non-procedure", None),
        ("jmp x", "jump-to-data", None),
        ("mov ax, offset start", "offset-of-code", None),
        ("mov ax, word nolabel", "unknown-name", None),
        ("int 5", "unsupported-interrupt", None),
        ("in al,5", "unsupported-instruction", None),
        ("start: mov ax,1", "duplicate-label", None),
        ("shl ax,300", "constant-range", Some("300")),
        ("mjmp(nowhere3)", "undefined-label-in-macro", None),
        ("mjmp(a_rather_long_label_name_that_is_not_defined_anywhere)", "undefined-label-in-macro", None),
        ("mout(nowhere4)", "undefined-label-in-nested-macro", None),
        ("mimm(300)", "constant-range-in-macro", None),
        ("mjmp(x)", "jump-to-data-in-macro", None),
    ]);
    lines.push(bad.to_string());
    let bad_line = lines.len();
    for i in 0..post {
        lines.push(format!("mov di,{}", 200 + i));
    }
    let mut text = lines.join("\n");
    if rng.chance(1, 2) || post > 0 && rng.chance(1, 2) {
        text.push('\n');
    }
    let where_ = if post == 0 { if text.ends_with('\n') { "last-line" } else { "last-line-no-newline" } } else { "middle" };
    let out = run_cli(text.as_bytes(), &CliOpts::default());
    rep.eval(1);
    rep.count("semantic diagnostics checked on the binary", 1);
    rep.distinct_str(&format!("sem|{}|{}", class, where_));
    let pr = parse_records(&out.stdout);
    let plain = String::from_utf8_lossy(&pr.plain).to_string();
    if out.timed_out || !out.clean_exit() {
        return;
    }
    // duplicate definitions may cite either definition
    let accept: Vec<usize> = if class == "duplicate-label" { vec![bad_line, 9] } else { vec![bad_line] };
    let head = plain.rfind(bad.trim()).map(|i| &plain[..i]).unwrap_or(&plain[..]);
    let nums = ints(head);
    let fail = |sig: String, what: String| {
        rep.fail(Failure {
            sig: sig.clone(),
            what,
            witness: format!("{{\"kind\": \"cli\", \"source\": {}, \"stdin\": \"\", \"expected_line\": {}, \"stdout\": {}}}", json_str(&text), bad_line, json_str(&plain[..plain.len().min(400)])),
            core_item: core.map(|k| format!("{}|{}", k, sig)),
        });
    };
    if !pr.recs.is_empty() {
        // executed: C14's subject
        rep.count("semantic defects not refused (C14's subject)", 1);
        return;
    }
    if !accept.iter().any(|l| nums.contains(l)) {
        fail(format!("diag:{}:{}:line-number", class, where_), format!("C16: the diagnostic for `{}` does not cite the line of the offending instruction", class));
    } else if class != "duplicate-label" && !plain.contains(bad.trim()) {
        fail(format!("diag:{}:{}:line-text", class, where_), format!("C16: the diagnostic for `{}` does not show the text of the offending line", class));
    } else if let Some(t) = tok {
        // the column of the offending token, counted from 0 or from 1, among the numbers in front of the quoted text
        // (one occurrence of the line number set aside)
        let col = bad.find(t).unwrap_or(0);
        let mut rest = nums.clone();
        if let Some(p) = rest.iter().position(|n| *n == bad_line) {
            rest.remove(p);
        }
        rep.count("semantic diagnostics whose column was compared", 1);
        if !rest.contains(&col) && !rest.contains(&(col + 1)) {
            fail(format!("diag:{}:{}:column", class, where_), format!("C16: the diagnostic for `{}` does not name the column of the offending token", class));
        }
    }
}

/// (e) the line lookup itself (LexerHelper::get_line, which every cited line number and line text goes through) is a
/// function of the position alone: sequences of lookups in hostile orders on one helper -- descending, alternating
/// between a line and the newline that ends the line before it, repeated, random -- each compared with an independent
/// computation. Anything the helper remembers between lookups shows here.
fn lookup_histories(rep: &Report, rng: &mut Rng, core: Option<usize>) {
    use emulator_8086_lib::LexerHelper;
    let nlines = rng.below(14);
    let mut text = String::new();
    let eol = if rng.chance(1, 4) { "\r\n" } else { "\n" };
    for li in 0..nlines {
        let width = *rng.pick(&[1usize, 4, 12, 40]);
        for _ in 0..rng.below(width) {
            text.push_str(*rng.pick(&["a", "}", " ", "mov ax,1", "\u{e9}", "\u{20ac}", "\t", ";", "x:"]));
        }
        if li + 1 < nlines || rng.chance(2, 3) {
            text.push_str(eol);
        }
    }
    let nls: Vec<usize> = text.bytes().enumerate().filter(|(_, b)| *b == b'\n').map(|(i, _)| i).collect();
    let len = text.len();
    let model = |pos: usize| -> (usize, usize, usize) {
        let line = nls.partition_point(|n| *n < pos);
        let start = if line == 0 { 0 } else { nls[line - 1] + 1 };
        let end = if line < nls.len() { nls[line] } else { len };
        (line, start, end.max(start))
    };
    // positions of interest: every newline and its neighbours, line starts, the ends of the text
    let mut poi: Vec<usize> = vec![0, len, len.saturating_sub(1)];
    for n in nls.iter() {
        poi.extend_from_slice(&[n.saturating_sub(1), *n, (*n + 1).min(len), (*n + 2).min(len)]);
    }
    let lh = LexerHelper::new(&text);
    let steps = 60;
    let order = rng.below(5);
    let mut seq: Vec<usize> = Vec::new();
    for k in 0..steps {
        let pos = match order {
            // random positions of interest
            0 => *rng.pick(&poi),
            // descending through the text
            1 => len - (len * k / steps).min(len),
            // a line, then the newline ending the line before it (and back)
            2 if !nls.is_empty() => {
                let n = nls[rng.below(nls.len())];
                if k % 2 == 0 { (n + 1 + rng.below(3)).min(len) } else { *seq.last().map(|last| nls.iter().rev().find(|x| **x < *last).unwrap_or(&n)).unwrap_or(&n) }
            }
            // the same position repeated, then a neighbour
            3 => { if k % 3 != 2 { seq.last().copied().unwrap_or(*rng.pick(&poi)) } else { *rng.pick(&poi) } }
            _ => rng.below(len + 1),
        };
        seq.push(pos);
    }
    rep.eval(1);
    rep.distinct_str(&format!("lookup|order{}|lines{}|{}", order, nlines.min(6), eol.len()));
    for (k, pos) in seq.iter().enumerate() {
        let got = lh.get_line(*pos);
        let want = model(*pos);
        rep.count("line lookups compared with the position-only model", 1);
        if got != want {
            rep.fail(Failure {
                sig: format!("lookup:history:{}", if k == 0 { "first-lookup" } else if lh_fresh(&text, *pos) == want { "depends-on-earlier-lookups" } else { "wrong-line" }),
                what: "C16: the line found for a source position differs from the line that contains the position".into(),
                witness: format!("{{\"kind\": \"lookup-sequence\", \"text\": {}, \"positions\": {:?}, \"step\": {}, \"expected\": \"{:?}\", \"observed\": \"{:?}\"}}", json_str(&text), &seq[..=k], k, want, got),
                core_item: core.map(|c| format!("{}|{}", c, k)),
            });
            return;
        }
    }
}
fn lh_fresh(text: &str, pos: usize) -> (usize, usize, usize) {
    emulator_8086_lib::LexerHelper::new(text).get_line(pos)
}

/// (f) lookup order through the binary: the implied return of a procedure whose `}` ends its line is cited right
/// after a line below it was cited (a jump from the line after the brace to a label just before it; a call, from the
/// line after the brace, of a procedure whose body emits nothing), stepping and plain
fn lookup_order_cli(rep: &Report, rng: &mut Rng, core: Option<usize>) {
    let lead = rng.below(4);
    let mut text = String::new();
    for k in 0..lead {
        match rng.below(3) {
            0 => text.push('\n'),
            1 => text.push_str("; note\n"),
            _ => text.push_str(&format!("v{}: db 1\n", k)),
        }
    }
    let shape = rng.below(2);
    // expected cited lines, in order of the messages
    let (expect, interpreted): (Vec<usize>, bool) = if shape == 0 {
        text.push_str("def f {\nmov ax,bx\ntail:\n}\nstart: print flags\njmp tail\n");
        // Output of line (start line), then the implied return without a call: the brace line
        (vec![lead + 5, lead + 4], false)
    } else {
        text.push_str("def f {\nnop\n}\nstart: call f\nmov ax,bx\nprint reg\n");
        (vec![lead + 4, lead + 3, lead + 5, lead + 6, lead + 6], true)
    };
    let stdin = b"n\n".repeat(20);
    let out = run_cli(text.as_bytes(), &CliOpts { interpreted, stdin: &stdin, env: vec![("VERIF_NOMEM", "1")], ..Default::default() });
    rep.eval(1);
    if out.timed_out || out.flooded || !out.clean_exit() {
        rep.inconclusive("lookup-order program did not complete");
        return;
    }
    let p = parse_records(&out.stdout);
    let plain = String::from_utf8_lossy(&p.plain).to_string();
    // cited lines: the first integer after "line" / "at" of every message
    let mut cited: Vec<usize> = Vec::new();
    for piece in plain.split(|c| c == '\n').flat_map(|l| l.split(">>> ")) {
        for key in ["About to execute line ", "Output of line ", "ret without corresponding call at "] {
            if let Some(i) = piece.find(key) {
                if let Some(n) = ints(&piece[i + key.len()..]).first() {
                    cited.push(*n);
                }
            }
        }
    }
    rep.distinct_str(&format!("lookup-order|{}|{}", shape, lead));
    rep.count("messages checked", cited.len() as u64);
    if cited != expect {
        rep.fail(Failure {
            sig: format!("cite:lookup-order:{}", if shape == 0 { "implied-ret-after-line-below" } else { "implied-ret-of-empty-procedure" }),
            what: "C16: a message cites another line than the one that caused it when the line cited just before lies below it".into(),
            witness: format!("{{\"kind\": \"cli\", \"interpreted_flag\": {}, \"source\": {}, \"stdin\": \"n\\n x20\", \"detail\": {}}}", interpreted, json_str(&text), json_str(&format!("cited lines {:?}, expected {:?}; output {:?}", cited, expect, plain))),
            core_item: core.map(|k| format!("{}|{}", k, shape)),
        });
    }
}

pub fn run(rep: &Report) {
    let t = rep.thorough();
    let seed = rep.seed;
    // (a) source map, in process
    let n_map = if t { 60_000 } else { 2500 };
    par_for(n_map, 8, |i| {
        let core = i < 200;
        let mut rng = if core { Rng::new(0xC16A).fork(i as u64) } else { Rng::new(seed).fork(0xC16A_0000 + i as u64) };
        let cid = if core { Some(format!("m{}", i)) } else { None };
        match i % 3 {
            0 => check_map(rep, &cite_program(&mut rng).program, &mut rng, cid, "cite"),
            1 => {
                let p = structured_program(&mut rng, &SOpts { prints: true, int3: true, out_chars: true, ..Default::default() });
                check_map(rep, &p, &mut rng, cid, "structured");
            }
            _ => {
                let n = 3 + rng.below(12);
                let p = rand_program_any(&mut rng, n);
                check_map(rep, &p, &mut rng, cid, "any");
            }
        }
    });
    // (b) run-time messages
    let n_msg = if t { 12_000 } else { 500 };
    par_for(n_msg, 1, |i| {
        let core = i < 100;
        let mut rng = if core { Rng::new(0xC16B).fork(i as u64) } else { Rng::new(seed).fork(0xC16B_0000 + i as u64) };
        let c = cite_program(&mut rng);
        check_messages(rep, &c, &mut rng, if core { Some(i) } else { None });
    });
    // (c) diagnostics
    let n_diag = if t { 40_000 } else { 1600 };
    par_for(n_diag, 2, |i| {
        let core = i < 150;
        let mut rng = if core { Rng::new(0xC16C).fork(i as u64) } else { Rng::new(seed).fork(0xC16C_0000 + i as u64) };
        check_diag(rep, &mut rng, if core { Some(i) } else { None }, i % 4 == 0);
    });
    let n_sem = if t { 4000 } else { 260 };
    par_for(n_sem, 1, |i| {
        let core = i < 60;
        let mut rng = if core { Rng::new(0xC16D).fork(i as u64) } else { Rng::new(seed).fork(0xC16D_0000 + i as u64) };
        check_semantic(rep, &mut rng, if core { Some(i) } else { None });
    });
    par_for(if t { 20_000 } else { 400 }, 8, |i| {
        let core = i < 80;
        let mut rng = if core { Rng::new(0xC16E).fork(i as u64) } else { Rng::new(seed).fork(0xC16E_0000 + i as u64) };
        check_map_continued(rep, &mut rng, if core { Some(i) } else { None });
    });
    par_for(if t { 200_000 } else { 6000 }, 32, |i| {
        let core = i < 300;
        let mut rng = if core { Rng::new(0xC16F).fork(i as u64) } else { Rng::new(seed).fork(0xC16F_0000 + i as u64) };
        lookup_histories(rep, &mut rng, if core { Some(i) } else { None });
    });
    par_for(if t { 400 } else { 24 }, 1, |i| {
        let core = i < 8;
        let mut rng = if core { Rng::new(0xC170).fork(i as u64) } else { Rng::new(seed).fork(0xC170_0000 + i as u64) };
        lookup_order_cli(rep, &mut rng, if core { Some(i) } else { None });
    });
    rep.floor("line lookups compared", rep.counter("line lookups compared with the position-only model"), 100_000);
    rep.floor("instructions whose source-map entry was compared", rep.counter("instructions whose source-map entry was compared"), 10_000);
    rep.floor("messages checked", rep.counter("messages checked"), 1000);
    rep.floor("diagnostics checked on the binary", rep.counter("diagnostics checked on the binary") + rep.counter("semantic diagnostics checked on the binary"), 400);
}

pub const RULE: &str = "(a) programs rendered with known positions (random case/radix/whitespace, blank lines, comment lines and trailing comments, several instructions per line, with/without final newline, LF or CR LF line ends): for every emitted instruction the source-map offset must lie on the generator-known line (the macro use line for macro-generated instructions incl. nested macros, the closing brace for an implied ret); (b) the same kind of program run through the binary (plain and -i): every 'Output of line', 'Int 3 at line', 'About to execute line', divide-error (direct, in a macro, in a procedure) and unsupported-AH message, located between hook records, located by position relative to hook records and prompt markers (never by wording), must contain the line number of the instruction whose record precedes it as an integer token before the quoted text, and the comment-stripped trimmed text of that line; (c) single-token corruptions (unexpected token / invalid character incl. non-ASCII) at first, last and random token positions of random programs, and 13 kinds of semantic defects at known lines (middle, last line with and without newline): the diagnostic's position (in process) must be on the token's line, and the binary's diagnostic must contain line number, column (0- or 1-based) and line text. Wording is never compared. Distinct = (message/diagnostic kind, origin, layout class, position class). Programs switch the trap flag on and off by themselves (stepping is taken from the TF bit of each hook record); scale variants: 260..65600 filler lines in front, indentation beyond column 255, more than 65536 instructions before the first message. Columns of semantic diagnostics (constant-range defects in three radices with varied spacing); a macro that substitutes a long memory argument 48 times in front of a nested use; (d) continued contexts: after 0-2 refused texts (six kinds, three inside expansions) on the same context, the instructions and the forward reference of the next text must map to their own lines. (e) the line lookup itself (LexerHelper::get_line) as a function of the position alone: 6000 / 200000 sequences of 60 lookups on one helper in hostile orders (descending, a line then the newline ending the line before it, repeats, positions on and around every newline; LF / CR LF, multi-byte characters, with and without final newline), each compared with an independent computation. (f) lookup order through the binary: the implied return of a procedure whose brace ends its line cited right after a line below it (jump from the line after the brace to a label before it; call of a procedure whose body emits nothing, stepping).";
