//! vharness — runtime monitors for the 8086-Emulator properties C01..C20.
//! usage: vharness <ID> --tier quick|thorough [--seed N] [--print-findings] [--replay file]
#![allow(dead_code)]
mod asm;
mod ast;
mod c01;
mod c02;
mod c03;
mod c03cli;
mod c04;
mod c05;
mod c06;
mod c07;
mod c07cli;
mod c08;
mod c09;
mod c10;
mod c11;
mod c12;
mod c13;
mod c14;
mod c15;
mod c16;
mod c17;
mod c18;
mod c19;
mod c20;
mod genprog;
mod irdecode;
mod prog;
mod cli;
mod fnplane;
mod gen;
mod insplane;
mod machine;
mod ref8086;
mod report;
mod util;

use report::Report;

const A_REF: &str = "reference model written from the 8086 Family User's Manual; its ALU core is implemented twice and cross-checked at start-up, worked examples asserted";
const A_FN: &str = "function-plane sweeps use a scratch VM; other registers and memory are checked for stray writes";
const A_CLI: &str = "process plane observes the binary built from the working tree with the verif_hooks feature and overflow checks on";

fn main() {
    let args: Vec<String> = std::env::args().collect();
    if args.len() < 2 {
        eprintln!("usage: vharness <ID> --tier quick|thorough [--seed N] [--print-findings] [--replay file]");
        std::process::exit(2);
    }
    if args[1] == "--c15-worker" {
        machine::install_panic_hook();
        std::process::exit(c15::worker_main(&args[2..]));
    }
    if args[1] == "--c19-tsan" {
        machine::install_panic_hook();
        std::process::exit(c19::tsan_main(&args[2..]));
    }
    let id = args[1].to_uppercase();
    let mut tier = std::env::var("VERIF_TIER").unwrap_or_else(|_| "quick".to_string());
    let mut seed: u64 = std::env::var("VERIF_SEED").ok().and_then(|s| s.trim().parse::<i64>().ok()).map(|x| x as u64).unwrap_or(1);
    let mut print_findings = false;
    let mut replay: Option<String> = None;
    let mut i = 2;
    while i < args.len() {
        match args[i].as_str() {
            "--tier" => {
                i += 1;
                tier = args[i].clone();
            }
            "--seed" => {
                i += 1;
                seed = args[i].parse::<i64>().map(|x| x as u64).unwrap_or(1);
            }
            "--print-findings" => print_findings = true,
            "--replay" => {
                i += 1;
                replay = Some(args[i].clone());
            }
            "quick" | "thorough" => tier = args[i].clone(),
            other => {
                eprintln!("unknown argument {}", other);
                std::process::exit(2);
            }
        }
        i += 1;
    }
    if tier != "quick" && tier != "thorough" {
        eprintln!("tier must be quick or thorough");
        std::process::exit(2);
    }
    machine::install_panic_hook();
    if let Err(e) = ref8086::self_check() {
        eprintln!("HARNESS ERROR: reference model self-check failed: {}", e);
        std::process::exit(2);
    }
    // replay: the witness file names the signature, tier and seed; generators are deterministic in (tier, seed),
    // so re-running the monitor at those settings re-creates the witnessed case; exit 1 iff the signature recurs
    let mut replay_info: Option<(String, String)> = None;
    if let Some(r) = replay {
        let text = match std::fs::read_to_string(&r) {
            Ok(t) => t,
            Err(e) => {
                eprintln!("cannot read replay file {}: {}", r, e);
                std::process::exit(2);
            }
        };
        let field = |name: &str| -> Option<String> {
            let key = format!("\"{}\":", name);
            let i = text.find(&key)? + key.len();
            let rest = text[i..].trim_start();
            if let Some(stripped) = rest.strip_prefix('"') {
                let mut out = String::new();
                let mut esc = false;
                for c in stripped.chars() {
                    if esc {
                        out.push(c);
                        esc = false;
                    } else if c == '\\' {
                        esc = true;
                    } else if c == '"' {
                        break;
                    } else {
                        out.push(c);
                    }
                }
                Some(out)
            } else {
                Some(rest.chars().take_while(|c| c.is_ascii_digit()).collect())
            }
        };
        match (field("signature"), field("tier"), field("seed")) {
            (Some(sig), Some(t), Some(sd)) => {
                tier = t;
                seed = sd.parse().unwrap_or(1);
                replay_info = Some((sig, r.clone()));
            }
            _ => {
                eprintln!("replay file {} lacks signature/tier/seed", r);
                std::process::exit(2);
            }
        }
    } else {
        // witnesses of earlier runs of this property are stale
        let _ = std::fs::remove_dir_all(format!("{}/replay/{}", report::verif_root(), id));
    }
    let mut rep = Report::new(&id, &tier, seed);
    rep.print_findings = print_findings;
    rep.replay = replay_info;
    let (rule, exhaustive, assumptions): (&str, bool, Vec<&str>) = match id.as_str() {
        "C01" => {
            c01::run(&rep);
            (c01::RULE, true, vec![A_REF, A_FN])
        }
        "C02" => {
            c02::run(&rep);
            (c02::RULE, true, vec![A_REF, A_FN, "shift/rotate reference = count iterations of the single-bit step, no count masking (8086)"])
        }
        "C03" => {
            c03::run(&rep);
            (c03::RULE, true, vec![A_REF, A_FN, A_CLI])
        }
        "C04" => {
            c04::run(&rep);
            (c04::RULE, false, vec![A_REF, "loads identify the address through a position-dependent memory pattern (a wrong address agrees by chance with probability 2^-8 per byte case)"])
        }
        "C05" => {
            c05::run(&rep);
            (c05::RULE, false, vec![A_REF, "push sp / pop sp and word accesses at offset 0xFFFF are judged against documented accept-sets"])
        }
        "C07" => {
            c07::run(&rep);
            (c07::RULE, false, vec![A_REF, A_CLI, "REP loops are driven with the driver's REPEAT protocol, bounded by CX+3 issues"])
        }
        "C08" => {
            c08::run(&rep);
            (c08::RULE, false, vec![A_CLI, "instruction identity = index in the emitted code list, which C11 validates to be one line per source instruction in source order", "ret with an empty call stack is defined as 'reported error stops the program' in both reference and oracle"])
        }
        "C09" => {
            c09::run(&rep);
            (c09::RULE, false, vec![A_CLI, "panics are observed with catch_unwind in process and as exit status 101/134/signal for the binary; overflow checks and debug assertions are on in both builds"])
        }
        "C10" => {
            c10::run(&rep);
            (c10::RULE, true, vec![A_CLI, "run-time state errors (ret without call) are excluded by pre-loading the call stack; panics met on the way are filed under C09/C15"])
        }
        "C11" => {
            c11::run(&rep);
            (c11::RULE, false, vec![A_CLI, "the independent IR reader is liberal; a line it cannot read is counted inconclusive, the metamorphic clause does not depend on the IR format", "the driver's comment-stripping rule is replicated in the harness and cross-checked against the binary"])
        }
        "C12" => {
            c12::run(&rep);
            (c12::RULE, false, vec![A_CLI, "the driver's data-loading sequence (DataParser over every data line, then DS=0) is replicated in process and cross-checked against the binary's memory dump"])
        }
        "C13" => {
            c13::run(&rep);
            (c13::RULE, false, vec![A_CLI, "comparison of macro program vs expanded program uses the same assembler, isolating substitution and bookkeeping", "a generated use whose reference expansion is itself invalid code is only required to be rejected"])
        }
        "C17" => {
            c17::run(&rep);
            (c17::RULE, false, vec![A_CLI, "the machine state at a print command is the hook record emitted directly before it; memory contents come from the dump of the halting record, the per-record memory digest proves they did not change in between"])
        }
        "C18" => {
            c18::run(&rep);
            (c18::RULE, false, vec![A_CLI, "state before/after each service = hook records with full memory dumps (VERIF_DUMP=1)", "stdin is consumed line by line exactly as scripted (std::io::stdin().read_line semantics); inputs are valid UTF-8"])
        }
        "C20" => {
            c20::run(&rep);
            (c20::RULE, false, vec![A_CLI, "instruction boundaries = hook records; the instruction sequence of a program does not depend on prompt input, so the all-next run supplies the sequence the history model cuts prefixes from", "liveness is monitored in bounded form: no more than 4 MiB of output and termination within a 20 s watchdog (a watchdog alone is inconclusive)"])
        }
        "C19" => {
            c19::run(&rep);
            (c19::RULE, false, vec![A_CLI, "8 runs expose a per-process hash-order dependence that flips with probability 1/2 with probability 1 - 2^-7", "stderr is not compared (non-empty only on a panic, whose text carries a thread id)"])
        }
        "C16" => {
            c16::run(&rep);
            (c16::RULE, false, vec![A_CLI, "the expected line of every instruction comes from the renderer's own bookkeeping, independent of the assembler", "messages are located by a keyword and attributed to the instruction whose hook record precedes them"])
        }
        "C14" => {
            c14::run(&rep);
            (c14::RULE, false, vec![A_CLI, "the driver's pre-run checks (undefined labels, code label 'start') are replicated in process and the binary is sampled for every mutation class", "constant ranges are the documented ones: signed byte -128..255, signed word -32768..65535, unsigned byte 0..255, unsigned word 0..65535"])
        }
        "C15" => {
            c15::run(&rep);
            (c15::RULE, false, vec![A_CLI, "liveness is monitored in bounded form: output cap (16-64 MiB) and a generous watchdog (40-300 s); a watchdog alone is inconclusive", "time/memory proportionality is reported as timings at four doubling sizes; only a crash, a panic or unbounded output is judged"])
        }
        "C06" => {
            c06::run(&rep);
            (c06::RULE, true, vec![A_REF, "label resolution uses the context the assembler produced for the same program"])
        }
        _ => {
            eprintln!("unknown property id {}", id);
            std::process::exit(2);
        }
    };
    cli::cleanup_run_dir();
    let code = rep.finish(rule, exhaustive, &assumptions);
    std::process::exit(code);
}
