//! C20 — single-stepping and breakpoints are transparent and the prompt always terminates.
//! Process plane: the same program is run plain and stepped (by -i, by a POPF-set trap flag, through INT 3
//! breakpoints) under scripted prompt histories; hook records delimit what happens between instructions.
use crate::ast::*;
use crate::cli::*;
use crate::genprog::*;
use crate::prog::*;
use crate::ref8086::*;
use crate::report::{Failure, Report};
use crate::util::*;

#[derive(Clone, Copy, PartialEq, Eq, Debug)]
enum Mode {
    Flag,
    Trap,
    Int3,
    FlagInt3,
    /// trap-flag episodes (switched on, off, possibly on again) in a program that also has INT 3 breakpoints
    TrapInt3,
}

/// prompt artefacts removed from one inter-record segment
struct Stripped {
    clean: Vec<u8>,
    prompts: usize,
    /// line numbers announced by "About to execute line N"
    announced: Vec<usize>,
    int3_lines: Vec<usize>,
    trap_notes: usize,
}

fn strip_artifacts(seg: &[u8]) -> Stripped {
    // Wording-independent: everything up to and including the last prompt marker of a segment is prompt
    // artefact (announcements precede their prompt; the instruction's own output follows the last prompt, because
    // a prompt is answered before the instruction runs / after an INT 3 ran and before the next record).
    // The announced line number is the first integer of each piece that ends in a prompt.
    let s = String::from_utf8_lossy(seg).to_string();
    let mut st = Stripped { clean: vec![], prompts: 0, announced: vec![], int3_lines: vec![], trap_notes: 0 };
    let pieces: Vec<&str> = s.split(">>> ").collect();
    st.prompts = pieces.len() - 1;
    for p in &pieces[..pieces.len() - 1] {
        let mut num = String::new();
        for c in p.chars() {
            if c.is_ascii_digit() {
                num.push(c);
            } else if !num.is_empty() {
                break;
            }
        }
        if let Ok(n) = num.parse() {
            st.announced.push(n);
        }
        // the last integer of the piece: the line named by "Int 3 at line N" (its first integer is the 3)
        let digits: Vec<&str> = p.split(|c: char| !c.is_ascii_digit()).filter(|t| !t.is_empty()).collect();
        st.int3_lines.push(digits.last().and_then(|t| t.parse().ok()).unwrap_or(usize::MAX));
        if p.to_ascii_lowercase().contains("trap") {
            st.trap_notes += 1;
        }
    }
    st.clean = pieces[pieces.len() - 1].as_bytes().to_vec();
    st
}

fn replace_int3(items: &mut Vec<Item>) {
    for it in items.iter_mut() {
        match it {
            Item::Ins(Ins::Int(3)) => *it = Item::Ins(Ins::Simple("cld")),
            Item::Proc(_, body) => replace_int3(body),
            _ => {}
        }
    }
}

fn flags_block(f: u16, uid: u16) -> Vec<Item> {
    vec![
        Item::Ins(Ins::Mov(Loc::R16(R16::AX), Src::Imm(f))),
        Item::Ins(Ins::Push(Loc::R16(R16::AX))),
        Item::Ins(Ins::Simple("popf")),
        Item::Ins(Ins::Mov(Loc::R16(R16::AX), Src::Imm(uid))),
    ]
}

struct Case {
    /// the program with stepping triggers and its trigger-free twin (same lines, same instruction count)
    stepped: Rendered,
    plain: Rendered,
    mode: Mode,
    /// the program reads console input (INT 21h AH=1 / AH=0Ah): prompts and program share standard input
    reads: bool,
}

fn make_case(rng: &mut Rng, mode: Mode) -> Case {
    let o = SOpts { prints: true, int3: matches!(mode, Mode::Int3 | Mode::FlagInt3 | Mode::TrapInt3), macros: true, procs: true, out_chars: true, max_blocks: 2 + rng.below(6) };
    let mut p = structured_program(rng, &o);
    // -i mode only (one prompt per instruction: the script can be interleaved exactly): the program reads lines from
    // the console and keeps what it read in memory (stack / buffer)
    let mut reads = false;
    if mode == Mode::Flag && rng.chance(1, 2) {
        reads = true;
        let si = p.items.iter().position(|i| matches!(i, Item::Label(l) if l == "start")).unwrap();
        for k in 0..1 + rng.below(3) {
            let at = si + 1 + rng.below(p.items.len() - si);
            let ins = |x: Ins| Item::Ins(x);
            let block: Vec<Item> = if rng.chance(1, 2) {
                vec![ins(Ins::Mov(Loc::R8(R8::AH), Src::Imm(1))), ins(Ins::Int(0x21)), ins(Ins::Push(Loc::R16(R16::AX)))]
            } else {
                let buf = 0x3000 + 64 * k as u16;
                vec![
                    ins(Ins::Mov(Loc::R16(R16::BX), Src::Imm(buf))),
                    ins(Ins::Mov(Loc::Mem(W::B, Mem { seg: None, form: MemForm::Ind(R16::BX) }), Src::Imm(30))),
                    ins(Ins::Mov(Loc::R16(R16::DX), Src::Imm(buf))),
                    ins(Ins::Mov(Loc::R8(R8::AH), Src::Imm(10))),
                    ins(Ins::Int(0x21)),
                ]
            };
            for (j, it) in block.into_iter().enumerate() {
                p.items.insert(at + j, it);
            }
        }
    }
    let mut stepped = p.clone();
    let mut plain = p.clone();
    replace_int3(&mut plain.items);
    if matches!(mode, Mode::Trap | Mode::TrapInt3) {
        let si = stepped.items.iter().position(|i| matches!(i, Item::Label(l) if l == "start")).unwrap();
        // the breakpoint-free twin has CLD where the stepped program has INT 3: with breakpoints around, DF stays clear
        let dfm: u16 = if mode == Mode::TrapInt3 { !0x0400 } else { !0 };
        let f = rng.u16() & 0x0ED5 & !TF & dfm;
        // optionally switch stepping off again later
        let later = if (mode == Mode::TrapInt3 || rng.chance(1, 2)) && stepped.items.len() > si + 2 { Some(si + 1 + rng.below(stepped.items.len() - si - 1)) } else { None };
        if let Some(at) = later {
            let f2 = rng.u16() & 0x0ED5 & !TF & dfm;
            let on_again = rng.chance(1, 3);
            let b_step = flags_block(if on_again { f2 | TF } else { f2 }, 9001);
            let b_plain = flags_block(f2, 9001);
            for (k, it) in b_step.into_iter().enumerate() {
                stepped.items.insert(at + 1 + k, it);
            }
            for (k, it) in b_plain.into_iter().enumerate() {
                plain.items.insert(at + 1 + k, it);
            }
        }
        for (k, it) in flags_block(f | TF, 9000).into_iter().enumerate() {
            stepped.items.insert(si + 1 + k, it);
        }
        for (k, it) in flags_block(f, 9000).into_iter().enumerate() {
            plain.items.insert(si + 1 + k, it);
        }
    }
    // identical spelling and layout for both twins
    // the twins differ textually in their trigger instructions (flag immediates, int 3 / cld): only the -i mode, whose
    // twin is the same text, packs several instructions on a line (the text of a line is echoed in print headers)
    let lay = Layout { trailing_newline: rng.chance(1, 2), filler_pct: 15, pack_pct: if mode == Mode::Flag && rng.chance(1, 2) { 25 } else { 0 }, comments: false };
    let spell_seed = rng.fork(77);
    // now and then at another scale: line numbers beyond 255 / 65535, columns beyond 255 (both twins alike)
    let (pad, indent) = rand_scale(rng);
    let stepped_r = stepped.render(&mut Spell { rng: Some(spell_seed.clone()), upper_prob: 0, radix_mix: false, ws_mix: false, syn_mix: false }, &lay).scaled(pad, indent);
    let plain_r = plain.render(&mut Spell { rng: Some(spell_seed), upper_prob: 0, radix_mix: false, ws_mix: false, syn_mix: false }, &lay).scaled(pad, indent);
    Case { stepped: stepped_r, plain: plain_r, mode, reads }
}

fn final_state(p: &Parsed) -> Option<(Regs, Vec<u8>)> {
    let l = p.recs.last()?;
    if l.line != "hlt" {
        return None;
    }
    Some((l.regs, dump_to_mem(l.dump.as_ref()?)))
}

#[derive(Clone, Debug, PartialEq)]
enum Cmd {
    Next(String),
    Print(String),
    Garbage(String),
    Quit(String),
}
impl Cmd {
    fn text(&self) -> &str {
        match self {
            Cmd::Next(s) | Cmd::Print(s) | Cmd::Garbage(s) | Cmd::Quit(s) => s,
        }
    }
}

fn rand_cmd(rng: &mut Rng, allow_quit: bool) -> Cmd {
    // now and then a line far longer than any command (beyond 4 KiB, 8 KiB, 64 KiB): one line stays one command
    if rng.chance(1, 14) {
        let n = *rng.pick(&[4090usize, 4096, 4100, 8191, 8192, 8200, 20000, 70000]);
        return match rng.below(4) {
            0 => Cmd::Next(format!("{}next", " ".repeat(n))),
            1 => Cmd::Next(format!("n{}", " ".repeat(n))),
            2 => Cmd::Garbage(format!("{}{}", "x".repeat(n), rng.pick(&["q", "n", "next", "quit", ""]))),
            _ => Cmd::Print(format!("print mem 0 -> {}20", "0".repeat(n))),
        };
    }
    match rng.below(if allow_quit { 14 } else { 13 }) {
        0..=6 => Cmd::Next(rng.pick(&["n", "next", "N", "NEXT", "  n  ", "Next", "\tnext"]).to_string()),
        7 | 8 | 9 => Cmd::Print(
            rng.pick(&[
                "print reg", "print flags", "print mem 0 -> 20", "PRINT REG", "print mem 65530 : 8", "print mem : 3",
                // ranges at / across the end of memory and backwards: answered or refused, never advancing, never aborting
                "print mem 1048575 : 0", "print mem 1048575 : 1", "print mem 1048574 : 2", "print mem 1048560 : 15", "print mem 0 : 1048576", "print mem : 1048576",
                "print mem 1048575 -> 1048575", "print mem 1048570 -> 1048580", "print mem 1048576 -> 1048580", "print mem 9 -> 2", "print mem 0x10 -> 0x20",
            ])
            .to_string(),
        ),
        10 | 11 | 12 => Cmd::Garbage(rng.pick(&["", "x", "nn", "nextt", "quit now", "print", "step", "print mem", "\u{e9}", "n n", "0", "help"]).to_string()),
        _ => Cmd::Quit(rng.pick(&["q", "quit", "Q", "QUIT", " quit "]).to_string()),
    }
}

pub fn run_case(rep: &Report, c: &Case, rng: &mut Rng, core: Option<usize>) {
    rep.eval(1);
    if matches!(core, Some(0..=3)) {
        rep.sample(format!("mode {:?} source {:?}", c.mode, c.stepped.text));
    }
    let interpreted = matches!(c.mode, Mode::Flag | Mode::FlagInt3);
    let wit = |detail: &str, stdin: &[u8], out: &CliOut| {
        format!(
            "{{\"kind\": \"cli\", \"mode\": \"{:?}\", \"interpreted_flag\": {}, \"source\": {}, \"plain_twin\": {}, \"stdin\": {}, \"detail\": {}, \"status\": {}}}",
            c.mode,
            interpreted,
            json_str(&c.stepped.text),
            json_str(&c.plain.text),
            json_bytes(&stdin[..stdin.len().min(600)]),
            json_str(detail),
            json_str(&out.status_str())
        )
    };
    let fail = |sig: String, what: String, detail: String, stdin: &[u8], out: &CliOut| {
        rep.fail(Failure { sig: sig.clone(), what, witness: wit(&detail, stdin, out), core_item: core.map(|k| format!("{}|{}|{}", k, sig, detail)) });
    };
    // ---- plain run of the trigger-free twin
    let console: Vec<String> = (0..300).map(|k| format!("{}line {} of input", (b'A' + (k % 26) as u8) as char, k)).collect();
    let console_all: Vec<u8> = if c.reads { console.iter().flat_map(|l| format!("{}\n", l).into_bytes()).collect() } else { Vec::new() };
    let base = run_cli(c.plain.text.as_bytes(), &CliOpts { stdin: &console_all, ..Default::default() });
    let bp = parse_records(&base.stdout);
    if base.timed_out {
        rep.inconclusive("cli watchdog");
        return;
    }
    let bfinal = match (base.clean_exit(), final_state(&bp)) {
        (true, Some(f)) => f,
        _ => {
            rep.inconclusive("plain run did not complete (not this property's subject)");
            rep.note(format!("plain run incomplete: {} source {:?}", base.status_str(), c.plain.text));
            return;
        }
    };
    // ---- all-next run of the stepped program
    let nexts: Vec<u8> = {
        let mut v = Vec::new();
        if c.reads {
            // exact interleaving: one answer per program instruction, and behind the answer for a console read the
            // line that read takes (the plain run's trace tells which instructions execute, in which order)
            let n_prog = c.stepped.pos.len();
            let mut j = 0;
            for r in bp.recs.iter() {
                if r.idx >= n_prog {
                    continue;
                }
                v.extend_from_slice(rng.pick(&["n\n", "next\n", "N\n", "  next  \n"]).as_bytes());
                let is_read = r.line.starts_with("int ") && r.line[4..].trim().parse::<u32>().ok() == Some(0x21) && matches!(r.regs[AX] >> 8, 1 | 10);
                if is_read {
                    v.extend_from_slice(console[j.min(console.len() - 1)].as_bytes());
                    v.push(b'\n');
                    j += 1;
                }
            }
            rep.count("console reads interleaved with prompt answers", j as u64);
            if j >= console.len() {
                rep.inconclusive("more console reads than prepared lines");
                return;
            }
        }
        for _ in 0..(if c.reads { 50 } else { bp.recs.len() * 2 + 50 }) {
            if rng.chance(1, 40) {
                // an answer padded far beyond any buffer size is still one answer
                v.extend_from_slice(" ".repeat(*rng.pick(&[4096usize, 8192, 9000])).as_bytes());
            }
            v.extend_from_slice(rng.pick(&["n\n", "next\n", "N\n", "  next  \n"]).as_bytes());
        }
        v
    };
    let full = run_cli(c.stepped.text.as_bytes(), &CliOpts { interpreted, stdin: &nexts, cap: 16 << 20, ..Default::default() });
    let fp = parse_records(&full.stdout);
    if full.timed_out && !full.flooded && full.stdout.len() < (4 << 20) {
        rep.inconclusive("cli watchdog");
        return;
    }
    if !full.clean_exit() {
        let sym = if full.flooded || full.timed_out { "spin" } else { "abort" };
        fail(format!("step:all-next:{}", sym), format!("C20: stepping through a program answering 'next' makes the emulator {}", sym), format!("{:?}", c.mode), &nexts, &full);
        return;
    }
    let n_emitted = c.stepped.pos.len();
    // transparency: output minus prompt artefacts, final state
    let mut clean: Vec<u8> = Vec::new();
    let mut prompt_pos: Vec<usize> = Vec::new(); // record index after which each prompt appears
    let mut stepped_instr = 0u64;
    for k in 0..fp.recs.len() {
        let r = &fp.recs[k];
        let st = strip_artifacts(&fp.segs[k + 1]);
        clean.extend_from_slice(&st.clean);
        let stepping = interpreted || r.tf;
        let is_program_ins = r.idx < n_emitted;
        let is_int3 = r.line == "int 3";
        let want_step = if stepping && is_program_ins { 1 } else { 0 };
        let want = want_step + if is_int3 { 1 } else { 0 };
        if stepping && is_program_ins {
            stepped_instr += 1;
        }
        if st.prompts != want {
            fail(
                format!("step:prompt-count:{}", if !is_program_ins { "appended-hlt" } else if is_int3 { "int3" } else if stepping { "stepping" } else { "not-stepping" }),
                "C20: the number of prompts before an executed instruction is not exactly one while stepping (or not zero otherwise)".into(),
                format!("record {} idx {} line {:?} tf={} prompts {} expected {}", k, r.idx, r.line, r.tf, st.prompts, want),
                &nexts,
                &full,
            );
        }
        if want_step == 1 {
            let line = c.stepped.pos.get(r.idx).map(|p| p.line).unwrap_or(0);
            if st.announced.first() != Some(&line) {
                let short = r.line.len() < 5;
                fail(
                    format!("step:announced-line:{}", if short { "short-instruction" } else { "instruction" }),
                    "C20: the prompt names a different line than the one of the instruction about to execute".into(),
                    format!("idx {} line {:?} is on source line {} but announced {:?}", r.idx, r.line, line, st.announced),
                    &nexts,
                    &full,
                );
            }
            if r.tf && !interpreted && st.trap_notes != 1 {
                rep.count("trap-flag notes missing (not judged)", 1);
            }
        }
        if is_int3 && is_program_ins && st.prompts == want {
            // the breakpoint's own prompt is the last one of the segment: it names the line of the INT 3, whatever
            // stepping mechanism was active before it (or was switched off before it)
            let line = c.stepped.pos.get(r.idx).map(|p| p.line).unwrap_or(0);
            rep.count("breakpoint prompts whose line was compared", 1);
            if st.int3_lines.last() != Some(&line) {
                fail(
                    format!("step:int3-line:{}", if interpreted { "interpreted" } else if r.tf { "trap-flag-on" } else if fp.recs[..k].iter().any(|x| x.tf) { "after-trap-flag-episode" } else { "plain" }),
                    "C20: the breakpoint prompt names a different line than the one of the INT 3 that raised it".into(),
                    format!("idx {} is on source line {} but the prompt says {:?}", r.idx, line, st.int3_lines.last()),
                    &nexts,
                    &full,
                );
            }
        }
        for _ in 0..st.prompts {
            prompt_pos.push(k);
        }
    }
    rep.count("stepped instructions observed (one prompt each)", stepped_instr);
    rep.count("prompts observed", prompt_pos.len() as u64);
    let leading = strip_artifacts(&fp.segs[0]);
    let mut all_clean = leading.clean.clone();
    all_clean.extend_from_slice(&clean);
    // the twins differ by construction in the breakpoint mnemonic (shown in 'Output of line' headers when
    // instructions share a line) and in the trap bit shown by 'print flags'
    let norm = |v: &[u8]| -> Vec<u8> {
        // the trap digit shown by `print flags`: the name TF as a whole word, separators, then 0/1 (layout not prescribed)
        let s = String::from_utf8_lossy(v).replace("int 3", "cld");
        let b = s.as_bytes();
        let mut out = Vec::with_capacity(b.len());
        let mut i = 0;
        while i < b.len() {
            let word_before = i > 0 && (b[i - 1].is_ascii_alphanumeric() || b[i - 1] == b'_');
            if !word_before && b[i..].starts_with(b"TF") && !(i + 2 < b.len() && (b[i + 2].is_ascii_alphanumeric() || b[i + 2] == b'_')) {
                let mut k = i + 2;
                while k < b.len() && (b[k] == b' ' || b[k] == b'\t' || b[k] == b':' || b[k] == b'=') {
                    k += 1;
                }
                if k < b.len() && (b[k] == b'0' || b[k] == b'1') && k > i + 2 {
                    out.extend_from_slice(&b[i..k]);
                    out.push(b'0');
                    i = k + 1;
                    continue;
                }
            }
            out.push(b[i]);
            i += 1;
        }
        out
    };
    let all_clean = norm(&all_clean);
    let bplain = norm(&bp.plain);
    if all_clean != bplain {
        let bp = Parsed { plain: bplain.clone(), ..Default::default() };
        let pos = (0..all_clean.len().min(bp.plain.len())).find(|i| all_clean[*i] != bp.plain[*i]).unwrap_or(all_clean.len().min(bp.plain.len()));
        fail(
            format!("step:transparency:output:{:?}", c.mode),
            "C20: program output while stepping (prompt artefacts removed) differs from the plain run".into(),
            format!("first difference at byte {}: stepped {:?} plain {:?}", pos, String::from_utf8_lossy(&all_clean[pos.saturating_sub(20)..all_clean.len().min(pos + 40)]), String::from_utf8_lossy(&bp.plain[pos.saturating_sub(20)..bp.plain.len().min(pos + 40)])),
            &nexts,
            &full,
        );
    }
    match final_state(&fp) {
        None => fail("step:transparency:incomplete".into(), "C20: the stepped run does not reach the end of the program".into(), format!("{:?}", fp.recs.last().map(|r| r.line.clone())), &nexts, &full),
        Some((regs, mem)) => {
            let mut d = Vec::new();
            for i in 0..14 {
                let (a, b) = if i == FLAG { (regs[i] & !TF, bfinal.0[i] & !TF) } else { (regs[i], bfinal.0[i]) };
                if a != b {
                    d.push(REG_NAMES[i].to_string());
                }
            }
            // the word pushed to load the flags differs in the trap bit by construction
            let excl: Vec<usize> = if matches!(c.mode, Mode::Trap | Mode::TrapInt3) { vec![0xFFFE, 0xFFFF] } else { vec![] };
            if let Some(a) = (0..mem.len()).find(|a| mem[*a] != bfinal.1[*a] && !excl.contains(a)) {
                d.push(format!("mem[{:05x}]", a));
            }
            if !d.is_empty() {
                fail(format!("step:transparency:state:{:?}", c.mode), "C20: final machine state after stepping differs from the plain run".into(), d.join(","), &nexts, &full);
            }
        }
    }
    rep.distinct_str(&format!("{:?}|prompts{}|recs{}", c.mode, prompt_pos.len().min(40), fp.recs.len().min(60)));
    if prompt_pos.is_empty() || c.reads {
        // (programs that read console input take part in the transparency comparison only: a scripted history
        // would have to place the program's input lines, which depends on where the history stops)
        return;
    }
    // ---- scripted histories against the model derived from the all-next run
    let nscripts = 3;
    for si in 0..nscripts {
        let m = prompt_pos.len();
        let mut cmds: Vec<Cmd> = Vec::new();
        // choose how the history ends: 0 quit, 1 end of input, 2 runs to completion
        let ending = if si == 0 { 1 } else { rng.below(3) };
        let stop_at = rng.below(m); // prompt index at which quit / EOF happens
        let mut j = 0;
        while j < m {
            if ending != 2 && j == stop_at {
                // some non-advancing commands first
                for _ in 0..rng.below(3) {
                    let c2 = rand_cmd(rng, false);
                    if !matches!(c2, Cmd::Next(_)) {
                        cmds.push(c2);
                    }
                }
                if ending == 0 {
                    cmds.push(rand_cmd_quit(rng));
                }
                break;
            }
            let c2 = rand_cmd(rng, false);
            if matches!(c2, Cmd::Next(_)) {
                j += 1;
            }
            cmds.push(c2);
        }
        let mut stdin: Vec<u8> = Vec::new();
        for c2 in &cmds {
            stdin.extend_from_slice(c2.text().as_bytes());
            stdin.push(b'\n');
        }
        let mut partial = 0usize;
        if ending == 1 && rng.chance(1, 3) {
            // end of input in the middle of a line: one more (invalid) command is read before the end
            stdin.extend_from_slice(b"ne");
            partial = 1;
        }
        // model
        let mut pos = 0usize; // prompt index
        let mut consumed = 0usize;
        let mut stopped: Option<&str> = None;
        let mut print_cmds = 0;
        for c2 in &cmds {
            if pos >= m {
                break;
            }
            consumed += 1;
            match c2 {
                Cmd::Next(_) => pos += 1,
                Cmd::Print(_) => print_cmds += 1,
                Cmd::Garbage(_) => {}
                Cmd::Quit(_) => {
                    stopped = Some("quit");
                    break;
                }
            }
        }
        if stopped.is_none() && pos < m {
            stopped = Some("eof");
        }
        let exp_recs: Vec<usize> = match stopped {
            Some(_) => fp.recs[..=prompt_pos[pos]].iter().map(|r| r.idx).collect(),
            None => fp.recs.iter().map(|r| r.idx).collect(),
        };
        let out = run_cli(c.stepped.text.as_bytes(), &CliOpts { interpreted, stdin: &stdin, cap: 4 << 20, timeout_s: 20.0, ..Default::default() });
        rep.count("prompt histories run", 1);
        rep.distinct_str(&format!("{:?}|script|{:?}|at{}|prints{}", c.mode, stopped, pos.min(10), print_cmds.min(3)));
        let kind = stopped.unwrap_or("complete");
        if out.flooded || (out.timed_out && out.stdout.len() >= (1 << 20)) {
            fail(format!("prompt:{}:spin", kind), "C20: a prompt input history makes the emulator spin (unbounded output without consuming input)".into(), format!("ended by {} at prompt {}", kind, pos), &stdin, &out);
            continue;
        }
        if out.timed_out {
            rep.inconclusive("cli watchdog");
            continue;
        }
        if !out.clean_exit() {
            fail(format!("prompt:{}:abort", kind), "C20: a prompt input history aborts the emulator".into(), format!("ended by {} at prompt {}", kind, pos), &stdin, &out);
            continue;
        }
        let op = parse_records(&out.stdout);
        let obs: Vec<usize> = op.recs.iter().map(|r| r.idx).collect();
        if obs != exp_recs {
            let sym = if obs.len() > exp_recs.len() { "executes-further" } else if obs.len() < exp_recs.len() { "stops-early" } else { "different-trace" };
            fail(
                format!("prompt:{}:{}", kind, sym),
                "C20: the instructions executed under a prompt history differ from the model (print/garbage do not advance, next advances one, quit/end of input stop)".into(),
                format!("ended by {} at prompt {}: expected {} records, observed {}", kind, pos, exp_recs.len(), obs.len()),
                &stdin,
                &out,
            );
            continue;
        }
        let prompts_seen = op.plain.windows(4).filter(|w| w == b">>> ").count();
        let extra = if stopped == Some("eof") { partial } else { 0 };
        let lo = consumed + extra;
        let hi = consumed + extra + 1;
        if prompts_seen < lo || prompts_seen > hi {
            fail(format!("prompt:{}:prompt-count", kind), "C20: the number of prompts shown differs from the number of commands read".into(), format!("commands consumed {} prompts {}", consumed, prompts_seen), &stdin, &out);
        }
        if stopped.is_none() {
            if let (Some(a), Some(b)) = (final_state(&op), final_state(&fp)) {
                if a != b {
                    fail("prompt:complete:state".into(), "C20: print commands / garbage typed at prompts change the final machine state".into(), String::new(), &stdin, &out);
                }
            }
        }
    }
}

fn rand_cmd_quit(rng: &mut Rng) -> Cmd {
    Cmd::Quit(rng.pick(&["q", "quit", "Q", "QUIT", " quit "]).to_string())
}

/// fixed edge scenarios around the prompt condition
fn edge_cases(rep: &Report) {
    let cases: Vec<(&str, &str, bool, &[u8])> = vec![
        ("start-only", "start:\n", true, b"n\nn\n"),
        ("start-only-eof", "start:\n", true, b""),
        ("one-ins", "start:\nstc\n", true, b"n\nn\n"),
        ("one-ins-no-newline", "start:\nstc", true, b"n\nn\n"),
        ("hlt-only", "start:\nhlt\n", true, b"n\n"),
        ("tf-last", "start:\nmov ax, 256\npush ax\npopf\n", false, b"n\nn\n"),
        ("tf-only-eof", "start:\nmov ax, 256\npush ax\npopf\nstc\n", false, b""),
        ("int3-last", "start:\nint 3\n", false, b"n\n"),
        ("int3-eof", "start:\nint 3\nstc\n", false, b""),
        ("int3-quit", "start:\nint 3\nstc\n", false, b"q\n"),
        ("step-quit", "start:\nstc\nclc\n", true, b"n\nquit\n"),
        ("step-eof-mid", "start:\nstc\nclc\ncmc\n", true, b"n\n"),
    ];
    // a prompt line that cannot be read (not valid UTF-8) is one bad line, not the end of the session: the commands
    // behind it are still read at prompts -- a print is answered, and q ends the run before the program's end
    let aftermath: Vec<(&str, &str, bool)> = vec![
        ("unreadable-line-then-commands-step", "start:\nstc\nclc\ncmc\nstd\ncld\nstc\nclc\n", true),
        ("unreadable-line-then-commands-tf", "start:\nmov ax, 256\npush ax\npopf\nstc\nclc\ncmc\nstd\ncld\nstc\n", false),
        ("unreadable-line-then-commands-int3", "start:\nint 3\nstc\nint 3\nclc\nint 3\ncmc\nint 3\nstd\n", false),
    ];
    for (name, src, interp) in aftermath {
        let stdin: &[u8] = b"n\n\xff\xfe bad line\nprint flags\nn\nprint flags\nq\nn\nn\nn\nn\nn\nn\n";
        let out = run_cli(src.as_bytes(), &CliOpts { interpreted: interp, stdin, cap: 4 << 20, timeout_s: 20.0, ..Default::default() });
        rep.eval(1);
        rep.distinct_str(&format!("edge|{}", name));
        if out.timed_out {
            rep.inconclusive("cli watchdog");
            continue;
        }
        let p = parse_records(&out.stdout);
        let plain = String::from_utf8_lossy(&p.plain).to_string();
        // a flags display names the nine flags: count the word CF as a whole word
        let shown = plain.split(|c: char| !c.is_ascii_alphanumeric()).filter(|w| *w == "CF").count();
        let ran_to_end = p.recs.last().map(|r| r.line == "hlt").unwrap_or(false);
        let sym = if !out.clean_exit() {
            Some("abort")
        } else if shown == 0 {
            Some("commands-behind-it-not-read")
        } else if ran_to_end {
            Some("quit-behind-it-not-read")
        } else {
            None
        };
        if let Some(sym) = sym {
            rep.fail(Failure {
                sig: format!("edge:{}:{}", name, sym),
                what: "C20: after a prompt line that cannot be read, the commands that follow are no longer read at prompts".into(),
                witness: format!("{{\"kind\": \"cli\", \"source\": {}, \"interpreted_flag\": {}, \"stdin\": {}, \"status\": {}, \"stdout_plain_tail\": {}}}", json_str(src), interp, json_bytes(stdin), json_str(&out.status_str()), json_str(&plain[plain.len().saturating_sub(300)..])),
                core_item: Some(format!("{}|{}", name, sym)),
            });
        }
    }
    // print commands are answered at a prompt in every spelling of their keywords (opcodes and directives are case
    // independent); the program itself prints nothing, so whatever names registers / flags is a prompt answer
    for (name, script) in [("prompt-print-lower-case", &b"print reg\nprint flags\nn\nn\nn\n"[..]), ("prompt-print-upper-case", &b"PRINT REG\nPrint Flags\nn\nn\nn\n"[..]), ("prompt-print-mixed-case", &b"print REG\nPRINT flags\nn\nn\nn\n"[..])] {
        let src = "start:\nmov ax, 4660\nint 3\nmov bx, 1\n";
        let out = run_cli(src.as_bytes(), &CliOpts { stdin: script, cap: 4 << 20, timeout_s: 20.0, ..Default::default() });
        rep.eval(1);
        rep.distinct_str(&format!("edge|{}", name));
        if out.timed_out {
            rep.inconclusive("cli watchdog");
            continue;
        }
        let p = parse_records(&out.stdout);
        let plain = String::from_utf8_lossy(&p.plain).to_string();
        let words: Vec<&str> = plain.split(|c: char| !c.is_ascii_alphanumeric()).collect();
        let regs_shown = words.iter().any(|w| *w == "AX") && words.iter().any(|w| w.ends_with("1234"));
        let flags_shown = words.iter().any(|w| *w == "CF") && words.iter().any(|w| *w == "ZF");
        if !out.clean_exit() || !regs_shown || !flags_shown {
            rep.fail(Failure {
                sig: format!("edge:{}:not-answered", name),
                what: "C20: a print command typed at a prompt is not answered".into(),
                witness: format!("{{\"kind\": \"cli\", \"source\": {}, \"stdin\": {}, \"status\": {}, \"registers_shown\": {}, \"flags_shown\": {}, \"stdout_plain\": {}}}", json_str(src), json_bytes(script), json_str(&out.status_str()), regs_shown, flags_shown, json_str(&plain[..plain.len().min(400)])),
                core_item: Some(name.to_string()),
            });
        }
    }
    // the same prompts with a stdin on which every read fails (a directory): reported or not, it must end
    let unreadable: Vec<(&str, &str, bool)> = vec![
        ("unreadable-stdin-step", "start:\nstc\nclc\n", true),
        ("unreadable-stdin-int3", "start:\nint 3\nstc\n", false),
        ("unreadable-stdin-tf", "start:\nmov ax, 256\npush ax\npopf\nstc\nclc\n", false),
        ("unreadable-stdin-console-input", "start:\nmov ah,1\nint 0x21\nmov ah,10\nint 0x21\nint 3\n", false),
    ];
    for (name, src, interp) in unreadable {
        let out = run_cli(src.as_bytes(), &CliOpts { interpreted: interp, stdin_path: Some("/"), cap: 4 << 20, timeout_s: 20.0, ..Default::default() });
        rep.eval(1);
        rep.distinct_str(&format!("edge|{}", name));
        let sym = if out.flooded || (out.timed_out && out.stdout.len() >= (1 << 20)) {
            Some("spin")
        } else if out.timed_out {
            rep.inconclusive("cli watchdog");
            None
        } else if !out.clean_exit() {
            Some("abort")
        } else {
            None
        };
        if let Some(s) = sym {
            rep.fail(Failure {
                sig: format!("edge:{}:{}", name, s),
                what: format!("C20: with a stdin that cannot be read, scenario `{}` makes the emulator {}", name, s),
                witness: format!("{{\"kind\": \"cli\", \"interpreted_flag\": {}, \"source\": {}, \"stdin\": \"<a directory: every read fails>\", \"status\": {}}}", interp, json_str(src), json_str(&out.status_str())),
                core_item: Some(format!("{}|{}", name, s)),
            });
        }
    }
    for (name, src, interp, stdin) in cases {
        let out = run_cli(src.as_bytes(), &CliOpts { interpreted: interp, stdin, cap: 4 << 20, timeout_s: 20.0, ..Default::default() });
        rep.eval(1);
        rep.distinct_str(&format!("edge|{}", name));
        let sym = if out.flooded || (out.timed_out && out.stdout.len() >= (1 << 20)) {
            Some("spin")
        } else if out.timed_out {
            rep.inconclusive("cli watchdog");
            None
        } else if !out.clean_exit() {
            Some("abort")
        } else {
            None
        };
        if let Some(s) = sym {
            rep.fail(Failure {
                sig: format!("edge:{}:{}", name, s),
                what: format!("C20: edge scenario `{}` makes the emulator {}", name, s),
                witness: format!("{{\"kind\": \"cli\", \"interpreted_flag\": {}, \"source\": {}, \"stdin\": {}, \"status\": {}}}", interp, json_str(src), json_bytes(stdin), json_str(&out.status_str())),
                core_item: Some(format!("{}|{}", name, s)),
            });
        }
    }
}

pub fn run(rep: &Report) {
    edge_cases(rep);
    let ncore = 120;
    let nrand = if rep.thorough() { 12_000 } else { 400 };
    let seed = rep.seed;
    par_for(ncore + nrand, 1, |i| {
        let core = i < ncore;
        let mut rng = if core { Rng::new(0xC20).fork(i as u64) } else { Rng::new(seed).fork(0xC20_0000 + i as u64) };
        let mode = [Mode::Flag, Mode::Trap, Mode::Int3, Mode::FlagInt3, Mode::TrapInt3][i % 5];
        let c = make_case(&mut rng, mode);
        run_case(rep, &c, &mut rng, if core { Some(i) } else { None });
    });
    rep.floor("stepped instructions observed", rep.counter("stepped instructions observed (one prompt each)"), 2000);
    rep.floor("prompt histories run", rep.counter("prompt histories run"), 600);
}

pub const RULE: &str = "random terminating structured programs (jumps, counted loops, procedures, macro uses, print statements, INT 21h/2 character output) in five stepping modes: -i flag, trap flag set (and possibly cleared / set again later) through POPF, INT 3 breakpoints at random places, -i plus INT 3, trap-flag episodes plus INT 3 (breakpoints inside, between and after episodes: the breakpoint prompt must name the line of its INT 3); each has a trigger-free twin with the same lines and instruction count. Runs per program: the twin plain; the stepped program with every prompt answered by a spelling of 'next'; three scripted prompt histories mixing n/next spellings, print commands, garbage, ending by q/quit, by end of input (also in the middle of a line) or by program completion. Oracle: (transparency) stdout with prompt artefacts removed and the final registers/flags (trap bit masked)/full memory equal the plain twin's; (one prompt per instruction) between consecutive hook records there is exactly one prompt when stepping is active for a program instruction, one more after an INT 3, none for the driver's appended hlt, and the announced line number is the generator-known line of that instruction; (history model) the hook-record sequence under a script equals the prefix predicted by the model: print/garbage never advance, next advances exactly one instruction, quit and end of input stop without executing anything further, prompts shown = commands read (+1 at end of input); no run may abort or spin (output cap 4 MiB with a watchdog). Fixed edge scenarios cover programs of 0/1 instructions, TF set by the last instruction, INT 3 last, quit/EOF at the first prompt, and a stdin on which every read fails. Distinct = (mode, prompt/record count class) and (mode, ending kind, stop position, print-command count). -i twins whose program reads console input (INT 21h AH=1 / AH=0Ah), the stepped run's script interleaved exactly from the plain run's trace; answers and garbage lines of 4 KiB..70 KB; scale variants (line numbers beyond 255 / 65535, columns beyond 255). A prompt line that is not valid UTF-8, then a print (must be answered) and q (must end the run), under -i, trap flag and INT 3.";
