//! C18 — console interrupt services do exactly their documented I/O, within bounds.
//! Process plane: programs issue histories of INT 10h / INT 21h calls; the hook records (with a memory
//! dump at every record, VERIF_DUMP=1) give the machine state before and after each service, stdout
//! between the two records is what the service wrote, stdin is a scripted sequence of lines.
use crate::cli::*;
use crate::ref8086::*;
use crate::report::{Failure, Report};
use crate::util::*;

#[derive(Clone, Debug)]
struct Call {
    int_no: u8,
    ah: u8,
}

struct Scenario {
    text: String,
    stdin: Vec<u8>,
    calls: Vec<Call>,
}

const M: usize = 1 << 20;

fn safe_char(rng: &mut Rng) -> u8 {
    loop {
        let c = match rng.below(6) {
            0 => 0x80 + rng.below(0x80) as u8,
            1 => rng.below(0x20) as u8,
            _ => 0x20 + rng.below(0x5F) as u8,
        };
        // 0x1e / 0x1f delimit hook records
        if c != 0x1e && c != 0x1f {
            return c;
        }
    }
}

fn stdin_line(rng: &mut Rng) -> Vec<u8> {
    let n = match rng.below(9) {
        // far beyond any line buffer: the next read must still start at the next line
        8 => *rng.pick(&[4095usize, 4096, 4097, 8191, 8192, 8193, 70000]),
        0 => 0,
        1 => 1,
        2 => 2,
        3 => 5,
        4 => 254 + rng.below(4),
        5 => 700,
        _ => rng.below(40),
    };
    let mut v: Vec<u8> = (0..n).map(|_| b'a' + rng.below(26) as u8).collect();
    if rng.chance(1, 10) && !v.is_empty() {
        v[0] = b' ';
    }
    // a carriage return inside the line is data, not a terminator
    if rng.chance(1, 6) && !v.is_empty() {
        let at = rng.below(v.len());
        v[at] = b'\r';
        if rng.chance(1, 3) {
            v.push(b'\r');
            v.push(b'x');
        }
    }
    // valid UTF-8 beyond ASCII (the services deal in bytes): at the front, in the middle, at the end
    if rng.chance(1, 5) {
        let ch = *rng.pick(&["\u{e9}", "\u{20ac}", "\u{c3}", "\u{1F600}", "\u{a0}"]);
        let at = match rng.below(3) {
            0 => 0,
            1 => v.len() / 2,
            _ => v.len(),
        };
        for (k, b) in ch.bytes().enumerate() {
            v.insert(at + k, b);
        }
    }
    // a line that is not valid UTF-8 cannot be read: the service reports that and changes nothing; the line is gone
    // and the NEXT read gets the next line
    if rng.chance(1, 10) {
        let bad: [&[u8]; 4] = [&[0xFF, 0xFE, b'a'], &[0xC3], &[b'o', b'k', 0x80], &[0xE2, 0x82]];
        return bad[rng.below(4)].to_vec();
    }
    // trailing blanks are part of the line
    if rng.chance(1, 8) {
        let blanks: [&str; 4] = [" ", "  ", "\t", " \t "];
        v.extend_from_slice(blanks[rng.below(4)].as_bytes());
    }
    v
}

fn scenario(rng: &mut Rng, forced: Option<(u8, u8)>) -> Scenario {
    let mut t = String::new();
    // text to print lives low, at a random segment and at the very top of memory
    let segs: [u16; 3] = [0, 0x1000 + (rng.u16() & 0x7FFF), 0xFFF0];
    for s in segs {
        t.push_str(&format!("set {}\n", s));
        let n = if s == 0xFFF0 { 256 } else { 300 };
        let txt: String = (0..n).map(|i| (b'A' + ((i * 7 + s as usize) % 26) as u8) as char).collect();
        t.push_str(&format!("db \"{}\"\n", txt));
    }
    t.push_str("start:\n");
    t.push_str(&format!("mov ax, {}\nmov ss, ax\nmov sp, {}\nmov ax, {}\npush ax\npopf\n", rng.u16(), rng.u16() & 0xFFFE, rng.u16() & !TF));
    let ncalls = if forced.is_some() { 1 } else { 1 + rng.below(4) };
    let mut calls = Vec::new();
    let mut stdin: Vec<u8> = Vec::new();
    let mut lines = 0;
    let mut exhausted = false;
    for _ in 0..ncalls {
        // a breakpoint between the services: its prompt reads the same standard input (one line, "n") -- every
        // reader must take exactly its own line, whoever read before it
        if forced.is_none() && !exhausted && rng.chance(1, 3) {
            t.push_str("int 3\n");
            stdin.extend_from_slice(b"n\n");
        }
        let (int_no, ah) = match forced {
            Some(f) => f,
            None => match rng.below(12) {
                0 | 1 | 2 => (0x21u8, 0x0Au8),
                3 | 4 => (0x21, 1),
                5 | 6 => (0x21, 2),
                7 | 8 => (0x10, 0x0A),
                9 | 10 => (0x10, 0x13),
                _ => (if rng.chance(1, 2) { 0x21 } else { 0x10 }, rng.u8()),
            },
        };
        let dsv: u16 = match rng.below(6) {
            0 => 0xFFFF,
            1 => 0xFFF0,
            2 => 0,
            3 => segs[1],
            _ => rng.u16(),
        };
        let esv: u16 = match rng.below(6) {
            0 => 0xFFFF,
            1 => 0xFFF0,
            2 => 0,
            3 => segs[1],
            _ => rng.u16(),
        };
        let off: u16 = match rng.below(8) {
            0 => 0,
            1 => 0xFFFF,
            2 => 0xFFFE,
            3 => 0x000E,
            4 => 0x000F,
            5 => 0x00FF,
            _ => rng.below(400) as u16,
        };
        let cap: u8 = *rng.pick(&[0u8, 1, 2, 3, 5, 10, 40, 254, 255]);
        t.push_str(&format!("mov ax, {}\nmov ds, ax\nmov ax, {}\nmov es, ax\n", dsv, esv));
        if int_no == 0x21 && ah == 0x0A {
            t.push_str(&format!("mov bx, {}\nmov byte [bx], {}\n", off, cap));
            if rng.chance(1, 2) {
                // pre-existing count byte
                t.push_str(&format!("mov byte [bx,1], {}\n", rng.u8()));
            }
        }
        let cx: u16 = *rng.pick(&[0u16, 1, 2, 3, 16, 80, 257, 300, 1024, 1025, 4097, 65535]);
        let bp: u16 = match rng.below(4) {
            0 => off,
            1 => 0xFFFF,
            _ => rng.below(320) as u16,
        };
        let dl = if int_no == 0x10 { *rng.pick(&[0u8, 1, 7, 80, 255]) } else { safe_char(rng) };
        let dh = rng.u8();
        let dx = if int_no == 0x21 && ah == 0x0A { off } else { ((dh as u16) << 8) | dl as u16 };
        let al = safe_char(rng);
        t.push_str(&format!("mov bx, {}\nmov cx, {}\nmov dx, {}\nmov bp, {}\nmov si, {}\nmov di, {}\nmov al, {}\nmov ah, {}\nint {}\n", rng.u16(), cx, dx, bp, rng.u16(), rng.u16(), al, ah, int_no));
        if int_no == 0x21 && (ah == 1 || ah == 0x0A) {
            // supply a line, or let the input run out
            if !rng.chance(1, 6) {
                let l = stdin_line(rng);
                stdin.extend_from_slice(&l);
                lines += 1;
                if !(rng.chance(1, 8)) {
                    stdin.push(b'\n');
                } else {
                    // last line without newline: nothing may follow
                    calls.push(Call { int_no, ah });
                    break;
                }
            } else {
                exhausted = true;
            }
        }
        calls.push(Call { int_no, ah });
    }
    let _ = lines;
    t.push_str("mov si, 30583\n");
    Scenario { text: t, stdin, calls }
}

/// does `obs` equal `exp` where every expected byte >= 0x80 may appear raw or as the UTF-8 of that code point
pub fn bytes_match(exp: &[u8], obs: &[u8]) -> bool {
    let mut j = 0;
    for &e in exp {
        if e < 0x80 {
            if obs.get(j) != Some(&e) {
                return false;
            }
            j += 1;
        } else if obs.get(j) == Some(&(0xC0 | (e >> 6))) && obs.get(j + 1) == Some(&(0x80 | (e & 0x3F))) {
            j += 2;
        } else if obs.get(j) == Some(&e) {
            j += 1;
        } else {
            return false;
        }
    }
    j == obs.len()
}

fn supported(int_no: u8, ah: u8) -> bool {
    matches!((int_no, ah), (0x21, 1) | (0x21, 2) | (0x21, 0x0A) | (0x10, 0x0A) | (0x10, 0x13))
}

fn run_scenario(rep: &Report, sc: &Scenario, core: Option<usize>) {
    rep.eval(1);
    let out = run_cli(sc.text.as_bytes(), &CliOpts { stdin: &sc.stdin, env: vec![("VERIF_DUMP", "1")], timeout_s: 30.0, cap: 64 << 20, ..Default::default() });
    let p = parse_records(&out.stdout);
    let fail = |sig: String, what: String, detail: String| {
        rep.fail(Failure {
            sig: sig.clone(),
            what,
            witness: format!(
                "{{\"kind\": \"cli\", \"source\": {}, \"stdin\": {}, \"detail\": {}, \"status\": {}}}",
                json_str(&sc.text),
                json_bytes(&sc.stdin[..sc.stdin.len().min(900)]),
                json_str(&detail),
                json_str(&out.status_str())
            ),
            core_item: core.map(|c| format!("{}|{}|{}", c, sig, detail)),
        });
    };
    if out.timed_out || out.flooded {
        rep.inconclusive("cli watchdog");
        return;
    }
    if !out.clean_exit() {
        let which = p.recs.last().map(|r| r.line.clone()).unwrap_or_default();
        let ah = p.recs.last().map(|r| r.regs[AX] >> 8).unwrap_or(0);
        fail(format!("svc:{}:ah{:02x}:abort", which.replace(' ', ""), if which.starts_with("int") { ah } else { 0 }), "C18: a console service aborts the emulator".into(), out.status_str());
        return;
    }
    if p.recs.is_empty() {
        rep.inconclusive("scenario refused");
        return;
    }
    // input model: remaining stdin
    let mut rest: &[u8] = &sc.stdin;
    let mut ci = 0;
    let mut stopped = false;
    for k in 0..p.recs.len() {
        let r = &p.recs[k];
        if !r.line.starts_with("int ") {
            continue;
        }
        let int_no: u8 = r.line[4..].trim().parse().unwrap_or(0);
        if int_no == 3 {
            // the breakpoint's prompt takes one line ("n") of the script
            match rest.iter().position(|b| *b == b'\n') {
                Some(i) => rest = &rest[i + 1..],
                None => rest = &rest[rest.len()..],
            }
            rep.count("breakpoint prompts between service calls", 1);
            continue;
        }
        let ah = (r.regs[AX] >> 8) as u8;
        if ci >= sc.calls.len() || sc.calls[ci].int_no != int_no || sc.calls[ci].ah != ah {
            rep.inconclusive("call bookkeeping");
            return;
        }
        ci += 1;
        let name = format!("int{:02x}:ah{:02x}", int_no, if supported(int_no, ah) { ah } else { 0xFF });
        let written: &[u8] = &p.segs[k + 1];
        if !supported(int_no, ah) {
            rep.count("unsupported AH values observed", 1);
            rep.distinct_str(&format!("unsupported|{}|{}", int_no, ah));
            // reported, program stops
            if k + 1 < p.recs.len() {
                fail(format!("svc:{}:continues", name), "C18: an unsupported AH value does not stop the program".into(), format!("int {} ah={}", int_no, ah));
            } else if String::from_utf8_lossy(written).trim().is_empty() {
                fail(format!("svc:{}:no-message", name), "C18: an unsupported AH value is not reported".into(), format!("int {} ah={}", int_no, ah));
            }
            stopped = true;
            break;
        }
        if k + 1 >= p.recs.len() {
            fail(format!("svc:{}:stops", name), "C18: the program stops at a supported console service".into(), format!("int {} ah={} output {:?}", int_no, ah, String::from_utf8_lossy(&written[..written.len().min(200)])));
            stopped = true;
            break;
        }
        let nx = &p.recs[k + 1];
        let pre = dump_to_mem(r.dump.as_ref().map(|d| d.as_slice()).unwrap_or(&[]));
        let post = dump_to_mem(nx.dump.as_ref().map(|d| d.as_slice()).unwrap_or(&[]));
        // next input line (with its newline, if any)
        let take_line = |rest: &mut &[u8]| -> Vec<u8> {
            match rest.iter().position(|b| *b == b'\n') {
                Some(i) => {
                    let l = rest[..=i].to_vec();
                    *rest = &rest[i + 1..];
                    l
                }
                None => {
                    let l = rest.to_vec();
                    *rest = &rest[rest.len()..];
                    l
                }
            }
        };
        let mut exp_regs = r.regs;
        let mut exp_out: Vec<u8> = Vec::new();
        let mut al_accept: Vec<u8> = Vec::new();
        let mut mem_checked = false;
        // the line offered to this call cannot be read (not valid UTF-8): a report on stdout, nothing else changes
        let mut unreadable = false;
        match (int_no, ah) {
            (0x21, 2) => {
                let dl = r.regs[DX] as u8;
                exp_out.push(dl);
                al_accept.push(dl);
            }
            (0x21, 1) if std::str::from_utf8(rest.split(|b| *b == b'\n').next().unwrap_or(&[])).is_err() => {
                let _ = take_line(&mut rest);
                unreadable = true;
                al_accept.push(r.regs[AX] as u8);
                rep.count("console reads that met a line which is not valid UTF-8", 1);
            }
            (0x21, 0x0A) if std::str::from_utf8(rest.split(|b| *b == b'\n').next().unwrap_or(&[])).is_err() => {
                let _ = take_line(&mut rest);
                unreadable = true;
                rep.count("console reads that met a line which is not valid UTF-8", 1);
            }
            (0x21, 1) => {
                let l = take_line(&mut rest);
                match l.first() {
                    None => al_accept.push(0),
                    Some(b'\n') => {
                        // an empty line: its first byte is the terminator itself; 0 is accepted as well
                        al_accept.extend_from_slice(&[b'\n', 0]);
                    }
                    Some(b) => al_accept.push(*b),
                }
                rep.distinct_str(&format!("in1|{}", l.len().min(3)));
            }
            (0x21, 0x0A) => {
                let l = take_line(&mut rest);
                let body: &[u8] = if l.last() == Some(&b'\n') { &l[..l.len() - 1] } else { &l[..] };
                let base = (r.regs[DS] as usize * 16 + r.regs[DX] as usize) % M;
                let cap = pre[base] as usize;
                let c = post[(base + 1) % M] as usize;
                // a CR LF terminator may be stripped as a whole
                let mut stripped = body.len();
                while stripped > 0 && body[stripped - 1] == b'\r' {
                    stripped -= 1;
                }
                let lo = stripped.min(cap.saturating_sub(1));
                // which capacity convention does this call reveal? (line at least as long as the capacity, no CR at the cut)
                if !l.is_empty() && cap >= 2 && stripped >= cap && !body[..cap.min(body.len())].contains(&b'\r') {
                    if c == cap {
                        rep.count("0Ah calls storing `capacity` characters of a longer line", 1);
                    } else if c + 1 == cap {
                        rep.count("0Ah calls storing `capacity-1` characters of a longer line", 1);
                    }
                } else if !l.is_empty() && cap >= 2 && stripped >= cap {
                    // a CR inside the part that fits must not be taken for the terminator: the count follows the same convention
                    if c + 1 == cap && body[cap - 1] == b'\r' {
                        rep.count("0Ah calls cutting the line short at an interior CR", 1);
                    } else if c == cap {
                        rep.count("0Ah calls keeping an interior CR", 1);
                    }
                }
                let hi = (body.len() + if l.last() == Some(&b'\n') { 1 } else { 0 }).min(cap);
                rep.distinct_str(&format!("in0a|cap{}|len{}|{}", cap.min(3), if body.len() < cap { "short" } else if body.len() == cap { "equal" } else { "long" }, if l.is_empty() { "eof" } else { "line" }));
                if l.is_empty() || cap == 0 {
                    if c != 0 {
                        fail(format!("svc:{}:count-nonzero", name), "C18: INT 21h/0Ah stores a non-zero count at end of input or for capacity 0".into(), format!("cap {} count {}", cap, c));
                    }
                } else if c < lo || c > hi {
                    fail(format!("svc:{}:count", name), "C18: INT 21h/0Ah stored count is outside [min(len,cap-1), min(len+1,cap)]".into(), format!("cap {} line length {} count {}", cap, body.len(), c));
                } else {
                    for i in 0..c {
                        if post[(base + 2 + i) % M] != l[i] {
                            fail(format!("svc:{}:data", name), "C18: INT 21h/0Ah stored bytes are not the first bytes of the input line".into(), format!("cap {} line length {} count {} index {}", cap, body.len(), c, i));
                            break;
                        }
                    }
                }
                // nothing outside the window [base+1, base+1+cap] may change
                let mut bad = None;
                for a in 0..M {
                    if pre[a] != post[a] {
                        let rel = (a + M - base) % M;
                        if rel < 1 || rel > 1 + cap {
                            bad = Some((a, rel));
                            break;
                        }
                    }
                }
                if let Some((a, rel)) = bad {
                    fail(format!("svc:{}:writes-outside-buffer", name), "C18: INT 21h/0Ah changes memory outside the declared buffer".into(), format!("cap {} line length {} cell {:05x} (buffer+{})", cap, body.len(), a, rel));
                }
                mem_checked = true;
            }
            (0x10, 0x0A) => {
                for _ in 0..r.regs[CX] {
                    exp_out.push(r.regs[AX] as u8);
                }
            }
            (0x10, 0x13) => {
                for _ in 0..(r.regs[DX] & 0xFF) {
                    exp_out.push(b' ');
                }
                let s = r.regs[ES] as usize * 16 + r.regs[BP] as usize;
                for i in 0..r.regs[CX] as usize {
                    exp_out.push(pre[(s + i) % M]);
                }
                if s % M + r.regs[CX] as usize > M {
                    rep.count("int 10h/13h strings wrapping past 0xFFFFF", 1);
                }
            }
            _ => unreachable!(),
        }
        rep.count("supported service calls judged", 1);
        rep.distinct_str(&format!("{}|cx{}|out{}", name, r.regs[CX].min(3), exp_out.len().min(3)));
        if !unreadable && !bytes_match(&exp_out, written) {
            fail(
                format!("svc:{}:stdout", name),
                "C18: the bytes a console service writes differ from the documented ones".into(),
                format!("expected {} bytes {:?}.. observed {} bytes {:?}..", exp_out.len(), String::from_utf8_lossy(&exp_out[..exp_out.len().min(40)]), written.len(), String::from_utf8_lossy(&written[..written.len().min(40)])),
            );
        }
        if !al_accept.is_empty() {
            let al = nx.regs[AX] as u8;
            if !al_accept.contains(&al) {
                fail(format!("svc:{}:al", name), "C18: AL after the service is not the documented value".into(), format!("accepted {:?} observed {}", al_accept, al));
            }
            exp_regs[AX] = (exp_regs[AX] & 0xFF00) | al as u16;
        }
        if nx.regs != exp_regs {
            let d: Vec<String> = (0..14).filter(|i| nx.regs[*i] != exp_regs[*i]).map(|i| REG_NAMES[i].to_string()).collect();
            fail(format!("svc:{}:register:{}", name, d.join("+")), "C18: a console service changes a register or flag it must not change".into(), format!("{:?}", d));
        }
        if !mem_checked && pre != post {
            let a = (0..M).find(|a| pre[*a] != post[*a]).unwrap();
            fail(format!("svc:{}:memory", name), "C18: a console service that only writes to the console changes memory".into(), format!("cell {:05x}", a));
        }
    }
    if !stopped {
        // the program must have run to the end
        let l = p.recs.last().unwrap();
        if l.line != "hlt" || l.regs[SI] != 30583 {
            fail("svc:run-incomplete".into(), "C18: the program did not run to its end after the console services".into(), format!("last record {:?}", l.line));
        }
        if ci != sc.calls.len() {
            rep.inconclusive("not all calls observed");
        }
    }
    if core == Some(1) {
        rep.sample(format!("source {:?} stdin {:?}", sc.text, String::from_utf8_lossy(&sc.stdin[..sc.stdin.len().min(200)])));
    }
}

pub fn run(rep: &Report) {
    // (1) every AH value for both interrupts
    par_for(512, 1, |i| {
        let int_no = if i < 256 { 0x21u8 } else { 0x10 };
        let ah = (i % 256) as u8;
        let mut rng = Rng::new(0xC18A).fork(i as u64);
        let sc = scenario(&mut rng, Some((int_no, ah)));
        run_scenario(rep, &sc, Some(i));
    });
    // (2) fixed histories, (3) seeded histories
    let ncore = 200;
    let nrand = if rep.thorough() { 40_000 } else { 900 };
    let seed = rep.seed;
    par_for(ncore + nrand, 1, |i| {
        let core = i < ncore;
        let mut rng = if core { Rng::new(0xC18).fork(i as u64) } else { Rng::new(seed).fork(0xC18_0000 + i as u64) };
        let sc = scenario(&mut rng, None);
        run_scenario(rep, &sc, if core { Some(1000 + i) } else { None });
    });
    // one capacity convention for the whole run: either `capacity` or `capacity-1` characters of a longer line
    let full = rep.counter("0Ah calls storing `capacity` characters of a longer line");
    let dos = rep.counter("0Ah calls storing `capacity-1` characters of a longer line");
    let cut = rep.counter("0Ah calls cutting the line short at an interior CR");
    if (full > 0 && dos > 0) || (full > 0 && cut > 0 && dos == 0) {
        rep.fail(Failure {
            sig: "svc:int21:ah0a:count-convention-inconsistent".into(),
            what: "C18: INT 21h/0Ah stores `capacity` characters of some over-long lines and `capacity-1` of others (e.g. when a carriage return sits at the cut)".into(),
            witness: format!("{{\"kind\": \"aggregate\", \"calls_storing_capacity\": {}, \"calls_storing_capacity_minus_1\": {}, \"of_those_with_interior_cr_at_the_cut\": {}}}", full, dos + cut, cut),
            core_item: None,
        });
    }
    rep.floor("supported service calls judged", rep.counter("supported service calls judged"), 1000);
    rep.floor("unsupported AH values observed", rep.counter("unsupported AH values observed"), 500);
}

pub const RULE: &str = "programs place text low, at a random segment and at the top of the 1 MiB space, set SS:SP/flags, then perform a history of 1-4 console service calls, each with DS/ES from {0xFFFF,0xFFF0,0,text segment,random}, buffer offsets {0,0xFFFF,0xFFFE,0xE,0xF,0xFF,random}, capacities {0,1,2,3,5,10,40,254,255}, CX {0,1,2,3,16,80,257,300}, characters incl. control and >=0x80, and a stdin script of lines of length {0,1,2,5,254..257,700,random} (ASCII, with multi-byte UTF-8 characters at the front/middle/end, with trailing blanks, with carriage returns inside the line), missing lines (end of input) and a last line without newline; every AH value 0..255 is run once for both INT 21h and INT 10h. Oracle: a reference of the five services over (hook-recorded registers, dumped memory, remaining stdin) predicts the stdout bytes (bytes >= 0x80 accepted raw or as UTF-8), AL, and for AH=0Ah the count bounds min(len,cap-1) <= count <= min(len+1,cap), the stored prefix of the line, one capacity convention for the whole run (over-long lines store `capacity` or `capacity-1` characters, never a mixture, also when a carriage return sits at the cut) and the window [DS:DX+1, DS:DX+1+cap] (addresses modulo 2^20) outside which no cell of the full 1 MiB may change; every other register, flag and memory cell must be identical in the records before and after; unsupported AH must be reported and stop the program. Distinct = (service, CX/output/capacity/line-length classes) and each unsupported (interrupt, AH). Breakpoints (answered n) between the service calls share the same standard input; input lines of 4095..4097, 8191..8193 and 70000 bytes; CX up to 65535. One input line in ten is not valid UTF-8: the service must report it and change nothing, and the next read gets the next line.";
