//! Instruction plane: one IR line executed through `Interpreter::parse` on a prepared machine,
//! whole post-state compared with the reference model's acceptable outcomes.
use crate::ast::*;
use crate::machine::*;
use crate::ref8086::*;
use crate::report::{hnum, FailAgg};
use crate::util::{fnv64, json_str};

pub struct CaseOut {
    pub ok: bool,
    pub alt: &'static str,
    pub obs: ObsFlow,
    pub post: Regs,
}

pub fn labels_json(b: &Bench) -> String {
    let mut v: Vec<_> = b.labels.iter().collect();
    v.sort();
    format!(
        "{{{}}}",
        v.iter().map(|(k, o)| format!("{}: {}", json_str(k), o)).collect::<Vec<_>>().join(", ")
    )
}

/// Execute `line` (the IR text for `ins`, either hand-rendered or emitted by the assembler) and judge it.
/// `sigf(component)` builds the structural signature.
pub fn check_ins(
    b: &mut Bench,
    ins: &Ins,
    line: &str,
    pre: &Regs,
    agg: &mut FailAgg,
    core: bool,
    what: &str,
    sigf: &dyn Fn(&str) -> Option<String>,
) -> CaseOut {
    let labels = b.labels.clone();
    let cx = Ctx { labels: &labels };
    let outs = exec(pre, b.mem(), &cx, ins);
    let max_issues = pre[CX] as u32 + 3;
    let (obs, post) = b.run_line(7, line, pre, max_issues);
    // call pushes on the interpreter's call stack; keep it bounded
    if b.ictx.call_stack.len() > 64 {
        b.ictx.call_stack.clear();
    }
    let lm: Vec<(String, usize)> = b
        .ictx
        .label_map
        .iter()
        .map(|(k, v)| (k.clone(), v.map))
        .chain(b.ictx.fn_map.iter().map(|(k, v)| (k.clone(), *v)))
        .collect();
    let label_idx = |l: &str| lm.iter().find(|(k, _)| k == l).map(|(_, i)| *i);
    let fo = |e: &Flow, o: &ObsFlow| flow_matches(e, o, &label_idx);
    match b.judge(&obs, &post, &outs, &fo) {
        Ok(alt) => CaseOut { ok: true, alt, obs, post },
        Err(m) => {
            let mut reported = false;
            for comp in &m.components {
                let sig = match sigf(comp) {
                    Some(s) => s,
                    None => continue,
                };
                reported = true;
                let key = fnv64(sig.as_bytes());
                let corehash = if core {
                    let mut parts: Vec<u64> = vec![fnv64(line.as_bytes()), b.salt as u64];
                    for i in 0..14 {
                        parts.push(pre[i] as u64);
                        parts.push(post[i] as u64);
                    }
                    parts.push(fnv64(obs.kind().as_bytes()));
                    Some(hnum(&parts))
                } else {
                    None
                };
                let detail = m.detail.clone();
                let obsk = format!("{:?}", obs);
                let salt = b.salt;
                let lj = labels_json(b);
                agg.add(key, corehash, || {
                    (
                        sig.clone(),
                        format!("{}: `{}` {}", what, ins.class(), comp),
                        format!(
                            "{{\"kind\": \"ir\", \"line\": {}, \"pre\": {}, \"post_observed\": {}, \"observed_flow\": {}, \"mem_salt\": {}, \"labels\": {}, \"detail\": {}}}",
                            json_str(line),
                            regs_json(pre),
                            regs_json(&post),
                            json_str(&obsk),
                            salt,
                            lj,
                            json_str(&detail)
                        ),
                    )
                });
            }
            CaseOut { ok: !reported, alt: if reported { "" } else { "ignored-components-only" }, obs, post }
        }
    }
}
