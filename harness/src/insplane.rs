//! Instruction plane: one IR line executed through `Interpreter::parse` on a prepared machine,
//! whole post-state compared with the reference model's acceptable outcomes.
use crate::ast::*;
use crate::machine::*;
use crate::ref8086::*;
use crate::report::{hnum, FailAgg};
use crate::util::{fnv64, json_str};

pub struct CaseOut {
    /// history mode: memory of machine and shadow agree after this step (false: the history cannot go on)
    pub synced: bool,
    pub ok: bool,
    pub alt: &'static str,
    pub obs: ObsFlow,
    pub post: Regs,
}

pub fn labels_json(b: &Bench) -> String {
    let mut v: Vec<_> = b.labels.iter().collect();
    v.sort();
    format!(
        "{{{}}}",
        v.iter().map(|(k, o)| format!("{}: {}", json_str(k), o)).collect::<Vec<_>>().join(", ")
    )
}

/// Execute `line` (the IR text for `ins`, either hand-rendered or emitted by the assembler) and judge it.
/// `sigf(component)` builds the structural signature.
pub fn check_ins(
    b: &mut Bench,
    ins: &Ins,
    line: &str,
    pre: &Regs,
    agg: &mut FailAgg,
    core: bool,
    what: &str,
    sigf: &dyn Fn(&str) -> Option<String>,
) -> CaseOut {
    let labels = b.labels.clone();
    let cx = Ctx { labels: &labels };
    let outs = exec(pre, b.mem(), &cx, ins);
    let max_issues = pre[CX] as u32 + 3;
    let (obs, post) = b.run_line(7, line, pre, max_issues);
    // call pushes on the interpreter's call stack; keep it bounded
    if b.ictx.call_stack.len() > 64 {
        b.ictx.call_stack.clear();
    }
    let lm: Vec<(String, usize)> = b
        .ictx
        .label_map
        .iter()
        .map(|(k, v)| (k.clone(), v.map as usize))
        .chain(b.ictx.fn_map.iter().map(|(k, v)| (k.clone(), *v as usize)))
        .collect();
    let label_idx = |l: &str| lm.iter().find(|(k, _)| k == l).map(|(_, i)| *i);
    let fo = |e: &Flow, o: &ObsFlow| flow_matches(e, o, &label_idx);
    match b.judge(&obs, &post, &outs, &fo) {
        Ok(alt) => CaseOut { synced: true, ok: true, alt, obs, post },
        Err(m) => {
            let mut reported = false;
            for comp in &m.components {
                let sig = match sigf(comp) {
                    Some(s) => s,
                    None => continue,
                };
                reported = true;
                let key = fnv64(sig.as_bytes());
                let corehash = if core {
                    // the instruction in the harness's own rendering: the fingerprint must not depend on how the assembler spells its output
                    let mut parts: Vec<u64> = vec![fnv64(ins.ir().as_bytes()), b.salt as u64];
                    for i in 0..14 {
                        parts.push(pre[i] as u64);
                        parts.push(post[i] as u64);
                    }
                    parts.push(fnv64(obs.kind().as_bytes()));
                    Some(hnum(&parts))
                } else {
                    None
                };
                let detail = m.detail.clone();
                let obsk = format!("{:?}", obs);
                let salt = b.salt;
                let lj = labels_json(b);
                agg.add(key, corehash, || {
                    (
                        sig.clone(),
                        format!("{}: `{}` {}", what, ins.class(), comp),
                        format!(
                            "{{\"kind\": \"ir\", \"line\": {}, \"pre\": {}, \"post_observed\": {}, \"observed_flow\": {}, \"mem_salt\": {}, \"labels\": {}, \"detail\": {}}}",
                            json_str(line),
                            regs_json(pre),
                            regs_json(&post),
                            json_str(&obsk),
                            salt,
                            lj,
                            json_str(&detail)
                        ),
                    )
                });
            }
            let synced = if b.keep { b.resync(&outs) } else { true };
            CaseOut { synced, ok: !reported, alt: if reported { "" } else { "ignored-components-only" }, obs, post }
        }
    }
}

/// End-of-memory plane shared by the value monitors: instructions from `gen` are executed with their memory /
/// label operand aimed at physical 0xFFFFD..0xFFFFF and 0, and everything but the status flags (which the
/// value planes judge) is compared with the reference: a word at 0xFFFFF has its high byte at physical 0.
pub fn edge_plane(rep: &crate::report::Report, n: usize, seed: u64, core: bool, what: &str, prefix: &str, gen: &(dyn Fn(&mut crate::util::Rng) -> Ins + Sync)) {
    use crate::gen::*;
    let jobs = 16usize;
    crate::util::par_for(jobs, 1, |j| {
        let mut rng = crate::util::Rng::new(seed).fork(0xED6E_0000 + j as u64);
        let mut b = crate::c01::bench_with_labels(0xE0 + j as u32);
        for (nm, o) in EDGE_LABELS {
            b.add_data_label(nm, o);
        }
        let mut agg = FailAgg::new();
        let mut loc = crate::report::Local::default();
        let mut it = 0usize;
        let mut done = 0usize;
        while done < n / jobs && it < n {
            it += 1;
            let mut ins = gen(&mut rng);
            rename_label(&mut ins, &mut rng);
            let mut pre = hostile_regs(&mut rng);
            let target = [0xFFFFFu32, 0xFFFFE, 0xFFFFF, 0x00000, 0xFFFFD, 0xFFFFF][it % 6];
            let labels = b.labels.clone();
            if !aim_operand(&ins, &mut pre, &labels, target) {
                continue;
            }
            done += 1;
            let line = ins.ir();
            let mn = ins.class().split(' ').next().unwrap_or("?").to_string();
            let out = check_ins(&mut b, &ins, &line, &pre, &mut agg, core, what, &|c| if c.starts_with("flag:") { None } else { Some(format!("{}:memory-edge:{}:{}", prefix, mn, if c.starts_with("reg:") { "register" } else { c })) });
            loc.evals += 1;
            loc.distinct.insert(fnv64(format!("edge|{}|{:05x}|{}", ins.class(), target, out.alt).as_bytes()));
        }
        loc.counters.insert("instructions judged with an operand aimed at the end of memory", done as u64);
        agg.flush(rep);
        loc.flush(rep);
    });
}

/// History plane shared by the value monitors: instruction sequences executed on ONE machine with the reference
/// model in lock-step (the next instruction starts from the observed state, memory writes accumulate), so that
/// anything carried from one instruction to the next -- a stale cache, a reused buffer, a flag computed lazily --
/// shows as a divergence at the step where it matters. `gen` must avoid the instructions with recorded known
/// findings (they would end every history early).
pub fn history_plane(rep: &crate::report::Report, nhist: usize, maxlen: usize, seed: u64, core: bool, what: &str, prefix: &str, gen: &(dyn Fn(&mut crate::util::Rng) -> Ins + Sync)) {
    use crate::gen::*;
    crate::util::par_for(nhist, 2, |h| {
        let mut rng = crate::util::Rng::new(seed).fork(0x4157_0000 + h as u64);
        thread_local! { static HB: std::cell::RefCell<Option<Bench>> = std::cell::RefCell::new(None); }
        HB.with(|cell| {
            let mut slot = cell.borrow_mut();
            if slot.is_none() {
                let mut b = crate::c01::bench_with_labels(0x48);
                for (nm, o) in EDGE_LABELS {
                    b.add_data_label(nm, o);
                }
                *slot = Some(b);
            }
            let b = slot.as_mut().unwrap();
            let mut agg = FailAgg::new();
            let mut loc = crate::report::Local::default();
            let mut r = hostile_regs(&mut rng);
            r[FLAG] &= !TF;
            b.keep = true;
            let len = 2 + rng.below(maxlen.max(3) - 1);
            let mut done = 0usize;
            for step in 0..len {
                let ins = gen(&mut rng);
                if let Ins::Str(rp, ..) = &ins {
                    if *rp != Rep::None {
                        r[CX] = rng.below(6) as u16;
                    }
                }
                let line = ins.ir();
                let mn = ins.class().split(' ').next().unwrap_or("?").to_string();
                let out = check_ins(b, &ins, &line, &r, &mut agg, core, what, &|c| {
                    // status flags of inc/dec/neg are judged (with their recorded known findings) by the function plane
                    if c.starts_with("flag:") && matches!(mn.as_str(), "inc" | "dec" | "neg") {
                        None
                    } else {
                        Some(format!("{}:history:{}:{}", prefix, mn, if c.starts_with("reg:") { "register" } else { c }))
                    }
                });
                loc.evals += 1;
                done += 1;
                if !out.ok || !out.synced {
                    break;
                }
                r = out.post;
                let _ = step;
            }
            loc.distinct.insert(fnv64(format!("hist|{}|{}", prefix, done.min(64)).as_bytes()));
            *loc.counters.entry("instructions executed in lock-step histories").or_insert(0) += done as u64;
            b.end_history();
            b.restore_mem();
            agg.flush(rep);
            loc.flush(rep);
        });
    });
}

/// Mixed-history plane shared by the value monitors: like `history_plane`, but the instructions come from ALL thirteen
/// classes the assembler can emit (arithmetic, logic, unary, shifts, mov, xchg, stack, lea, strings, jumps, call/ret/int,
/// single-opcode instructions, print), so that state carried from a *foreign* family into the property's own family
/// (a mark left by a memory-form MUL that a later INC consumes, a cached address, a flag computed lazily) shows at
/// the step where it matters. Every instruction is executed and the history continues from the observed state;
/// only divergences at instructions for which `own` is true are reported (each property reports its own family).
/// Components with recorded known findings are left to the planes that record them (flags of INC/DEC/NEG and of
/// byte IMUL).
pub fn mixed_history(rep: &crate::report::Report, nhist: usize, maxlen: usize, seed: u64, what: &str, prefix: &str, own: &(dyn Fn(&Ins) -> bool + Sync)) {
    use crate::gen::*;
    crate::util::par_for(nhist, 2, |h| {
        let mut rng = crate::util::Rng::new(seed).fork(0x3157_0000 + h as u64);
        thread_local! { static MB: std::cell::RefCell<Option<Bench>> = std::cell::RefCell::new(None); }
        MB.with(|cell| {
            let mut slot = cell.borrow_mut();
            if slot.is_none() {
                *slot = Some(crate::c01::bench_with_labels(0x58));
            }
            let b = slot.as_mut().unwrap();
            let mut agg = FailAgg::new();
            let mut loc = crate::report::Local::default();
            let mut r = hostile_regs(&mut rng);
            r[FLAG] &= !TF;
            b.keep = true;
            let len = 4 + rng.below(maxlen.max(5) - 3);
            let mut done = 0u64;
            let mut owned = 0u64;
            for _ in 0..len {
                // now and then a line the interpreter refuses (or a RET with nothing to return to) as noise: whatever such
                // a line leaves behind is not judged (no property speaks about it: lines like these cannot come out of the
                // assembler), but the parser object must go on answering the following instructions correctly
                if rng.chance(1, 9) {
                    const REFUSED: [&str; 30] = [
                        "mov ax,", "add al,bx", "mov ax,word nolabel", "jmp nowhere", "call nofn", "frob ax", "mov al,bx", "push al", "mov 5,ax", "ret", "inc byte nolabel", "rol ax,", "xchg ax,5", "mov byte [bx],ax",
                        "push word nolabel", "push word [bx", "push ax,bx", "pop word nolabel", "pop ax,bx", "rep movs", "rep movs byte 5", "repz cmps dword", "rep stos", "loop", "loop nowhere", "jcxz nowhere",
                        "mul word nolabel", "div byte [bx", "inc word [bx,", "lea ax,word nolabel",
                    ];
                    let line = REFUSED[rng.below(REFUSED.len())];
                    if line == "ret" {
                        b.ictx.call_stack.clear();
                    }
                    let (obs, post) = b.run_line(7, line, &r, 3);
                    loc.evals += 1;
                    *loc.counters.entry("refused lines inside mixed-family histories (noise, not judged)").or_insert(0) += 1;
                    if !matches!(obs, ObsFlow::Rejected(_)) || b.vm.mem[..] != b.shadow[..] {
                        // accepted after all, or memory touched: this history cannot be followed any further
                        break;
                    }
                    r = post;
                    r[FLAG] &= !TF;
                    continue;
                }
                // half of the steps from the property's own family when the generator finds one quickly
                let cl = rng.below(crate::c09::CLASSES);
                let mut ins = crate::c09::rand_ins(&mut rng, cl);
                if rng.chance(1, 2) {
                    for _ in 0..6 {
                        if own(&ins) {
                            break;
                        }
                        let cl = rng.below(crate::c09::CLASSES);
                        ins = crate::c09::rand_ins(&mut rng, cl);
                    }
                }
                if let Ins::Str(rp, ..) = &ins {
                    if *rp != Rep::None {
                        r[CX] = rng.below(6) as u16;
                    }
                }
                if matches!(ins, Ins::Ret) && rng.chance(1, 2) {
                    b.ictx.call_stack.clear();
                }
                let mine = own(&ins);
                let line = ins.ir();
                let mn = ins.class().split(' ').next().unwrap_or("?").to_string();
                let byte_imul = matches!(&ins, Ins::Un(Un::Imul, l) if l.width() == W::B);
                let out = check_ins(b, &ins, &line, &r, &mut agg, false, what, &|c| {
                    if !mine {
                        return None;
                    }
                    if c.starts_with("flag:") && (matches!(mn.as_str(), "inc" | "dec" | "neg") || byte_imul) {
                        return None;
                    }
                    Some(format!("{}:mixed-history:{}:{}", prefix, mn, if c.starts_with("reg:") { "register" } else { c }))
                });
                loc.evals += 1;
                done += 1;
                if mine {
                    owned += 1;
                }
                if matches!(out.obs, ObsFlow::Panic(_)) || !out.synced {
                    break;
                }
                r = out.post;
                r[FLAG] &= !TF;
            }
            loc.distinct.insert(fnv64(format!("mixed|{}|{}|{}", prefix, done.min(64), owned.min(32)).as_bytes()));
            *loc.counters.entry("instructions executed in mixed-family histories").or_insert(0) += done;
            *loc.counters.entry("of these, instructions of the property's own family (judged)").or_insert(0) += owned;
            b.end_history();
            b.restore_mem();
            agg.flush(rep);
            loc.flush(rep);
        });
    });
}
