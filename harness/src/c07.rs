//! C07 — string instructions and REP prefixes move the right elements the right number of times.
use crate::asm;
use crate::ast::*;
use crate::insplane::check_ins;
use crate::machine::*;
use crate::ref8086::*;
use crate::report::{FailAgg, Local, Report};
use crate::util::*;

fn prefixes(op: StrOp) -> Vec<Rep> {
    if op.compares() {
        vec![Rep::None, Rep::Repe, Rep::Repne]
    } else {
        vec![Rep::None, Rep::Rep]
    }
}

fn hostile_string_state(rng: &mut Rng, cx: u16) -> Regs {
    let mut r = hostile_regs(rng);
    r[CX] = cx;
    match rng.below(9) {
        7 | 8 => {
            // physical overlap through different segments: (ES-DS)*16 + DI = SI + k for small k, while the
            // 16-bit offsets look unrelated
            let d = 1 + rng.below(0x0FFF) as u16;
            let k = rng.below(5) as i32 - 2;
            if rng.chance(1, 2) {
                r[ES] = r[DS].wrapping_add(d);
                r[DI] = (r[SI] as i32 + k - 16 * d as i32) as u16;
            } else {
                r[ES] = r[DS].wrapping_sub(d);
                r[DI] = (r[SI] as i32 + k + 16 * d as i32) as u16;
            }
        }
        0 => {
            // overlap in the same segment
            r[ES] = r[DS];
            r[DI] = r[SI].wrapping_add(rng.below(5) as u16).wrapping_sub(2);
        }
        1 => {
            r[SI] = 0xFFFF - rng.below(4) as u16;
        }
        2 => {
            r[DI] = 0xFFFF - rng.below(4) as u16;
        }
        3 => {
            r[SI] = rng.below(4) as u16;
            r[DI] = rng.below(4) as u16;
        }
        4 => {
            r[DS] = 0xFFFF;
            r[ES] = 0xFFF0 + rng.below(16) as u16;
        }
        _ => {}
    }
    r
}

/// element address list (physical) of `count` elements starting at seg:off stepping by DF
fn elems(seg: u16, off: u16, w: W, df: bool, count: usize) -> Vec<(u16, u16)> {
    let step: u16 = if w == W::B { 1 } else { 2 };
    let mut v = Vec::new();
    let mut o = off;
    for _ in 0..count {
        v.push((seg, o));
        o = if df { o.wrapping_sub(step) } else { o.wrapping_add(step) };
    }
    v
}

/// craft memory so that a REPE/REPNE loop stops after `k` iterations (if it gets that far)
fn craft(b: &mut Bench, op: StrOp, w: W, rep: Rep, r: &Regs, k: usize, total: usize, poked: &mut Vec<u32>) {
    let df = r[FLAG] & DF != 0;
    let n = total.min(70);
    let src = elems(r[DS], r[SI], w, df, n);
    let dst = elems(r[ES], r[DI], w, df, n);
    let bytes = if w == W::B { 1 } else { 2 };
    for i in 0..n {
        let want_equal = match rep {
            Rep::Repe => i != k,
            Rep::Repne => i == k,
            _ => i % 2 == 0,
        };
        for bi in 0..bytes {
            let da = (phys(dst[i].0, dst[i].1) + bi) % MB;
            let val = if op == StrOp::Cmps {
                let sa = (phys(src[i].0, src[i].1) + bi) % MB;
                b.mem()[sa as usize]
            } else if bi == 0 {
                r[AX] as u8
            } else {
                (r[AX] >> 8) as u8
            };
            let v = if want_equal { val } else { val ^ 0x5A };
            b.poke(da, v);
            poked.push(da);
        }
    }
}

fn sigs(ins: &Ins, comp: &str, cxclass: &str) -> String {
    let c = if comp.starts_with("flag:") { "flags" } else { comp };
    format!("str:{}:{}:{}", ins.class().replace(' ', "-"), cxclass, c)
}

fn sweep(rep: &Report, max_cx: u16, states: usize, core: bool, seed: u64) {
    let mut jobs: Vec<(StrOp, W, Rep)> = Vec::new();
    for op in ALL_STR {
        for w in [W::B, W::W] {
            for p in prefixes(op) {
                jobs.push((op, w, p));
            }
        }
    }
    let njobs = jobs.len();
    par_for(njobs * 8, 1, |jj| {
        let (op, w, p) = jobs[jj % njobs];
        let part = jj / njobs;
        let mut rng = Rng::new(seed).fork(0xC07_0000 + jj as u64);
        let mut b = Bench::new(0x70 + (jj % 5) as u32);
        let mut agg = FailAgg::new();
        let mut loc = Local::default();
        let ins = Ins::Str(p, op, w);
        let line = ins.ir();
        let cxs: Vec<u16> = if p == Rep::None { vec![0, 1, 5] } else { (0..=max_cx).filter(|c| (*c as usize) % 8 == part).collect() };
        for &cx in &cxs {
            for st in 0..states {
                let mut pre = hostile_string_state(&mut rng, cx);
                if st % 2 == 1 {
                    pre[FLAG] |= DF;
                } else {
                    pre[FLAG] &= !DF;
                }
                let mut poked = Vec::new();
                if op.compares() {
                    let k = if cx == 0 { 0 } else { rng.below(cx as usize + 2) };
                    craft(&mut b, op, w, p, &pre, k, cx as usize + 1, &mut poked);
                }
                let cxclass = if p == Rep::None {
                    "single"
                } else if cx == 0 {
                    "cx0"
                } else {
                    "cx>0"
                };
                let out = check_ins(&mut b, &ins, &line, &pre, &mut agg, core, "C07 string instruction", &|c| Some(sigs(&ins, c, cxclass)));
                for a in poked {
                    b.unpoke(a);
                }
                loc.evals += 1;
                loc.distinct.insert(fnv64(format!("{}|cx{}|df{}|{}|issues{}", ins.class(), cx, st % 2, out.alt, b.last_issues).as_bytes()));
                if jj == 3 && st == 0 && cx == cxs[0] {
                    rep.sample(format!("ir `{}` driven through REPEAT from pre={}", line, regs_json(&pre)));
                }
            }
        }
        agg.flush(rep);
        loc.flush(rep);
    });
}

/// the same through the assembler: every prefix spelling emits a line that behaves like the reference
fn source_plane(rep: &Report, core: bool, seed: u64) {
    let mut cases: Vec<(String, Ins)> = Vec::new();
    for op in ALL_STR {
        for w in [W::B, W::W] {
            for (ptxt, p) in [("", Rep::None), ("rep ", Rep::Rep), ("repe ", Rep::Repe), ("repz ", Rep::Repe), ("repne ", Rep::Repne), ("repnz ", Rep::Repne)] {
                if p == Rep::Rep && op.compares() {
                    continue;
                }
                if (p == Rep::Repe || p == Rep::Repne) && !op.compares() {
                    continue;
                }
                for upper in [false, true] {
                    let t = format!("{}{} {}", ptxt, op.name(), w.kw());
                    cases.push((if upper { t.to_ascii_uppercase() } else { t }, Ins::Str(p, op, w)));
                }
            }
        }
    }
    let n = cases.len();
    par_for(n, 1, |i| {
        let (text, ins) = &cases[i];
        let mut rng = Rng::new(seed).fork(0xC07_8000 + i as u64);
        let mut b = Bench::new(0x78);
        let mut agg = FailAgg::new();
        let mut loc = Local::default();
        let a = match asm::assemble(&format!("start:\n{}\n", text)) {
            Ok(a) => a,
            Err(_) => {
                rep.count("string source forms rejected by the assembler (filed under C10)", 1);
                return;
            }
        };
        if a.code.len() != 1 {
            return;
        }
        for st in 0..6 {
            let cx = [0u16, 1, 2, 3, 7, 16][st];
            let pre = hostile_string_state(&mut rng, cx);
            let mut poked = Vec::new();
            if let Ins::Str(p, op, w) = ins {
                if op.compares() {
                    craft(&mut b, *op, *w, *p, &pre, rng.below(cx as usize + 2), cx as usize + 1, &mut poked);
                }
            }
            let probe = b.step(7, &a.code[0], &pre);
            b.restore_mem();
            if matches!(probe.0, ObsFlow::Rejected(_)) {
                rep.count("emitted string lines rejected by the interpreter (filed under C10)", 1);
                break;
            }
            let cxclass = if matches!(ins, Ins::Str(Rep::None, ..)) {
                "single"
            } else if cx == 0 {
                "cx0"
            } else {
                "cx>0"
            };
            check_ins(&mut b, ins, &a.code[0], &pre, &mut agg, core, "C07 string instruction (from source)", &|c| Some(sigs(ins, c, cxclass)));
            for a in poked {
                b.unpoke(a);
            }
            loc.evals += 1;
        }
        loc.distinct.insert(fnv64(text.as_bytes()));
        agg.flush(rep);
        loc.flush(rep);
    });
}

pub fn run(rep: &Report) {
    sweep(rep, 64, 4, true, 0xC07);
    source_plane(rep, true, 0xC07);
    let t = rep.thorough();
    sweep(rep, 64, if t { 1500 } else { 40 }, false, rep.seed ^ 0x70);
    // string instructions interleaved with the instructions that set them up (DF, CX, SI/DI, segment loads), in
    // lock-step with the reference on one machine
    crate::insplane::mixed_history(rep, if t { 40_000 } else { 500 }, 60, rep.seed ^ 0x147, "C07 among all instruction families", "str", &|i| matches!(i, Ins::Str(..)));
    crate::insplane::history_plane(rep, if t { 40_000 } else { 600 }, 60, rep.seed ^ 0x47, false, "C07 lock-step history", "str", &|rng| {
        match rng.below(10) {
            0..=5 => {
                let op = *rng.pick(&ALL_STR);
                let p = *rng.pick(&prefixes(op));
                Ins::Str(p, op, if rng.chance(1, 2) { W::B } else { W::W })
            }
            6 => Ins::Simple(*rng.pick(&["std", "cld", "stc", "clc"])),
            7 => Ins::Mov(Loc::R16(*rng.pick(&[R16::SI, R16::DI, R16::CX, R16::AX])), Src::Imm(rng.hostile16())),
            8 => Ins::Mov(Loc::SR(*rng.pick(&[SR::DS, SR::ES])), Src::Loc(Loc::R16(*rng.pick(&[R16::AX, R16::BX, R16::DX])))),
            _ => Ins::Alu2(*rng.pick(&[Alu2::Add, Alu2::Sub, Alu2::Cmp]), Loc::R16(*rng.pick(&[R16::SI, R16::DI, R16::AX])), Src::Imm(rng.hostile16())),
        }
    });
    if t {
        // long counts, sampled
        long_counts(rep);
    }
    crate::c07cli::run(rep);
    rep.floor("string evaluations", rep.evals(), 10_000);
}

fn long_counts(rep: &Report) {
    let seed = rep.seed;
    par_for(64, 1, |j| {
        let mut rng = Rng::new(seed).fork(0xC07_F000 + j as u64);
        let mut b = Bench::new(0x7F);
        let mut agg = FailAgg::new();
        let mut loc = Local::default();
        for _ in 0..6 {
            let op = *rng.pick(&ALL_STR);
            let w = if rng.chance(1, 2) { W::B } else { W::W };
            let ps = prefixes(op);
            let p = ps[1 + rng.below(ps.len() - 1)];
            let ins = Ins::Str(p, op, w);
            let cx = *rng.pick(&[255u16, 256, 1000, 4096, 0x7FFF, 0x8000, 0xFFFF]);
            let pre = hostile_string_state(&mut rng, cx);
            let line = ins.ir();
            check_ins(&mut b, &ins, &line, &pre, &mut agg, false, "C07 string instruction (long count)", &|c| Some(sigs(&ins, c, "cx>0")));
            b.restore_mem();
            loc.evals += 1;
            loc.distinct.insert(fnv64(format!("long|{}|{}", ins.class(), cx).as_bytes()));
        }
        agg.flush(rep);
        loc.flush(rep);
    });
}

pub const RULE: &str = "{movs,lods,stos,cmps,scas} x {byte,word} x DF x prefix {none, rep, repe/repz, repne/repnz} x every CX in 0..64 (thorough: sampled up to 0xFFFF) from hostile DS/ES/SI/DI (overlap, SI/DI crossing 0xFFFF, DS != ES, segments straddling 2^20), memory crafted so that REPE/REPNE stop at every position; the emitted line is re-issued while the interpreter answers REPEAT (the driver's protocol) and the final whole state is compared with the reference REP loop. Overlap is produced both inside one segment (DI = SI-2..SI+2) and physically through different segments ((ES-DS)*16+DI = SI-2..SI+2). Distinct = (instruction, CX, DF, accept-set member, number of issues). Lock-step and mixed-family histories; CLI string programs run free, under -i and with the trap flag set (every prompt answered n).";
