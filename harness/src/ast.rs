//! Abstract syntax of the emulator's assembly language (instruction level) with two renderers:
//! `src()` — source text as a user writes it (spelling options), `ir()` — the textual IR line the
//! interpreter grammar accepts (hand-rendered, independent of the assembler's templates).
use crate::util::Rng;

#[derive(Clone, Copy, PartialEq, Eq, Debug, Hash)]
pub enum W {
    B,
    W,
}
impl W {
    pub fn bits(self) -> u32 {
        match self {
            W::B => 8,
            W::W => 16,
        }
    }
    pub fn kw(self) -> &'static str {
        match self {
            W::B => "byte",
            W::W => "word",
        }
    }
}

#[derive(Clone, Copy, PartialEq, Eq, Debug, Hash)]
pub enum R8 {
    AL,
    CL,
    DL,
    BL,
    AH,
    CH,
    DH,
    BH,
}
pub const ALL_R8: [R8; 8] = [R8::AL, R8::CL, R8::DL, R8::BL, R8::AH, R8::CH, R8::DH, R8::BH];
impl R8 {
    pub fn name(self) -> &'static str {
        ["al", "cl", "dl", "bl", "ah", "ch", "dh", "bh"][self as usize]
    }
    /// (parent register index into Regs, is_high)
    pub fn parent(self) -> (R16, bool) {
        match self {
            R8::AL => (R16::AX, false),
            R8::AH => (R16::AX, true),
            R8::BL => (R16::BX, false),
            R8::BH => (R16::BX, true),
            R8::CL => (R16::CX, false),
            R8::CH => (R16::CX, true),
            R8::DL => (R16::DX, false),
            R8::DH => (R16::DX, true),
        }
    }
}

#[derive(Clone, Copy, PartialEq, Eq, Debug, Hash)]
pub enum R16 {
    AX,
    CX,
    DX,
    BX,
    SP,
    BP,
    SI,
    DI,
}
pub const ALL_R16: [R16; 8] = [R16::AX, R16::CX, R16::DX, R16::BX, R16::SP, R16::BP, R16::SI, R16::DI];
impl R16 {
    pub fn name(self) -> &'static str {
        ["ax", "cx", "dx", "bx", "sp", "bp", "si", "di"][self as usize]
    }
}

#[derive(Clone, Copy, PartialEq, Eq, Debug, Hash)]
pub enum SR {
    ES,
    CS,
    SS,
    DS,
}
pub const ALL_SR: [SR; 4] = [SR::ES, SR::CS, SR::SS, SR::DS];
impl SR {
    pub fn name(self) -> &'static str {
        ["es", "cs", "ss", "ds"][self as usize]
    }
}

#[derive(Clone, Copy, PartialEq, Eq, Debug, Hash)]
pub enum MemForm {
    Direct(u16),
    Ind(R16),                  // bx bp si di
    Based(R16, i16),           // bx|bp , disp
    Indexed(R16, i16),         // si|di , disp
    BasedIndexed(R16, R16, Option<i16>),
}

#[derive(Clone, Copy, PartialEq, Eq, Debug, Hash)]
pub struct Mem {
    pub seg: Option<SR>,
    pub form: MemForm,
}

impl Mem {
    pub fn shape(&self) -> String {
        let f = match self.form {
            MemForm::Direct(_) => "direct".to_string(),
            MemForm::Ind(r) => format!("ind-{}", r.name()),
            MemForm::Based(r, _) => format!("based-{}", r.name()),
            MemForm::Indexed(r, _) => format!("indexed-{}", r.name()),
            MemForm::BasedIndexed(b, i, k) => format!("bi-{}-{}{}", b.name(), i.name(), if k.is_some() { "-d" } else { "" }),
        };
        match self.seg {
            Some(s) => format!("{}:{}", s.name(), f),
            None => f,
        }
    }
    pub fn uses_bp(&self) -> bool {
        match self.form {
            MemForm::Ind(r) | MemForm::Based(r, _) | MemForm::BasedIndexed(r, _, _) => r == R16::BP,
            _ => false,
        }
    }
}

/// a place that can be read / written
#[derive(Clone, PartialEq, Eq, Debug, Hash)]
pub enum Loc {
    R8(R8),
    R16(R16),
    SR(SR),
    Mem(W, Mem),
    Label(W, String),
}
impl Loc {
    pub fn width(&self) -> W {
        match self {
            Loc::R8(_) => W::B,
            Loc::R16(_) | Loc::SR(_) => W::W,
            Loc::Mem(w, _) | Loc::Label(w, _) => *w,
        }
    }
    pub fn is_mem(&self) -> bool {
        matches!(self, Loc::Mem(..) | Loc::Label(..))
    }
    pub fn shape(&self) -> String {
        match self {
            Loc::R8(_) => "r8".into(),
            Loc::R16(_) => "r16".into(),
            Loc::SR(_) => "sreg".into(),
            Loc::Mem(w, m) => format!("{}[{}]", w.kw(), m.shape()),
            Loc::Label(w, _) => format!("{}-label", w.kw()),
        }
    }
}

#[derive(Clone, PartialEq, Eq, Debug, Hash)]
pub enum Src {
    Loc(Loc),
    /// immediate as a bit pattern of the operand width
    Imm(u16),
}
impl Src {
    pub fn shape(&self) -> String {
        match self {
            Src::Loc(l) => l.shape(),
            Src::Imm(_) => "imm".into(),
        }
    }
}

#[derive(Clone, Copy, PartialEq, Eq, Debug, Hash)]
pub enum Alu2 {
    Add,
    Adc,
    Sub,
    Sbb,
    Cmp,
    And,
    Or,
    Xor,
    Test,
}
pub const ALL_ARITH2: [Alu2; 5] = [Alu2::Add, Alu2::Adc, Alu2::Sub, Alu2::Sbb, Alu2::Cmp];
pub const ALL_LOGIC2: [Alu2; 4] = [Alu2::And, Alu2::Or, Alu2::Xor, Alu2::Test];
impl Alu2 {
    pub fn name(self) -> &'static str {
        ["add", "adc", "sub", "sbb", "cmp", "and", "or", "xor", "test"][self as usize]
    }
    pub fn is_logic(self) -> bool {
        matches!(self, Alu2::And | Alu2::Or | Alu2::Xor | Alu2::Test)
    }
}

#[derive(Clone, Copy, PartialEq, Eq, Debug, Hash)]
pub enum Un {
    Inc,
    Dec,
    Neg,
    Not,
    Mul,
    Imul,
    Div,
    Idiv,
}
pub const ALL_UN: [Un; 8] = [Un::Inc, Un::Dec, Un::Neg, Un::Not, Un::Mul, Un::Imul, Un::Div, Un::Idiv];
impl Un {
    pub fn name(self) -> &'static str {
        ["inc", "dec", "neg", "not", "mul", "imul", "div", "idiv"][self as usize]
    }
}

#[derive(Clone, Copy, PartialEq, Eq, Debug, Hash)]
pub enum Sh {
    Shl,
    Shr,
    Sar,
    Rol,
    Ror,
    Rcl,
    Rcr,
}
pub const ALL_SH: [Sh; 7] = [Sh::Shl, Sh::Shr, Sh::Sar, Sh::Rol, Sh::Ror, Sh::Rcl, Sh::Rcr];
impl Sh {
    /// IR spelling (the assembler folds shl into sal)
    pub fn name(self) -> &'static str {
        ["sal", "shr", "sar", "rol", "ror", "rcl", "rcr"][self as usize]
    }
    pub fn is_rotate(self) -> bool {
        matches!(self, Sh::Rol | Sh::Ror | Sh::Rcl | Sh::Rcr)
    }
}

#[derive(Clone, Copy, PartialEq, Eq, Debug, Hash)]
pub enum Cnt {
    Imm(u8),
    CL,
}

#[derive(Clone, Copy, PartialEq, Eq, Debug, Hash)]
pub enum StrOp {
    Movs,
    Lods,
    Stos,
    Cmps,
    Scas,
}
pub const ALL_STR: [StrOp; 5] = [StrOp::Movs, StrOp::Lods, StrOp::Stos, StrOp::Cmps, StrOp::Scas];
impl StrOp {
    pub fn name(self) -> &'static str {
        ["movs", "lods", "stos", "cmps", "scas"][self as usize]
    }
    pub fn compares(self) -> bool {
        matches!(self, StrOp::Cmps | StrOp::Scas)
    }
}

#[derive(Clone, Copy, PartialEq, Eq, Debug, Hash)]
pub enum Rep {
    None,
    Rep,
    Repe,
    Repne,
}
impl Rep {
    /// IR spelling
    pub fn ir(self) -> &'static str {
        match self {
            Rep::None => "",
            Rep::Rep => "rep ",
            Rep::Repe => "repz ",
            Rep::Repne => "repnz ",
        }
    }
}

/// canonical jump conditions (synonyms folded)
#[derive(Clone, Copy, PartialEq, Eq, Debug, Hash)]
pub enum Jcc {
    Jmp,
    Ja,
    Jae,
    Jb,
    Jbe,
    Je,
    Jg,
    Jge,
    Jl,
    Jle,
    Jne,
    Jno,
    Jnp,
    Jns,
    Jo,
    Jp,
    Js,
    Jcxz,
    Loop,
    Loope,
    Loopne,
}
pub const ALL_JCC: [Jcc; 21] = [
    Jcc::Jmp,
    Jcc::Ja,
    Jcc::Jae,
    Jcc::Jb,
    Jcc::Jbe,
    Jcc::Je,
    Jcc::Jg,
    Jcc::Jge,
    Jcc::Jl,
    Jcc::Jle,
    Jcc::Jne,
    Jcc::Jno,
    Jcc::Jnp,
    Jcc::Jns,
    Jcc::Jo,
    Jcc::Jp,
    Jcc::Js,
    Jcc::Jcxz,
    Jcc::Loop,
    Jcc::Loope,
    Jcc::Loopne,
];
impl Jcc {
    /// every lower-case source spelling of this condition; the first is canonical
    pub fn spellings(self) -> &'static [&'static str] {
        match self {
            Jcc::Jmp => &["jmp"],
            Jcc::Ja => &["ja", "jnbe"],
            Jcc::Jae => &["jae", "jnb", "jnc"],
            Jcc::Jb => &["jb", "jnae", "jc"],
            Jcc::Jbe => &["jbe", "jna"],
            Jcc::Je => &["je", "jz"],
            Jcc::Jg => &["jg", "jnle"],
            Jcc::Jge => &["jge", "jnl"],
            Jcc::Jl => &["jl", "jnge"],
            Jcc::Jle => &["jle", "jng"],
            Jcc::Jne => &["jne", "jnz"],
            Jcc::Jno => &["jno"],
            Jcc::Jnp => &["jnp", "jpo"],
            Jcc::Jns => &["jns"],
            Jcc::Jo => &["jo"],
            Jcc::Jp => &["jp", "jpe"],
            Jcc::Js => &["js"],
            Jcc::Jcxz => &["jcxz"],
            Jcc::Loop => &["loop"],
            Jcc::Loope => &["loope", "loopz"],
            Jcc::Loopne => &["loopne", "loopnz"],
        }
    }
    pub fn name(self) -> &'static str {
        self.spellings()[0]
    }
    pub fn from_spelling(s: &str) -> Option<Jcc> {
        let l = s.to_ascii_lowercase();
        ALL_JCC.iter().copied().find(|j| j.spellings().contains(&l.as_str()))
    }
    /// the complementary condition, where one exists
    pub fn complement(self) -> Option<Jcc> {
        Some(match self {
            Jcc::Ja => Jcc::Jbe,
            Jcc::Jbe => Jcc::Ja,
            Jcc::Jae => Jcc::Jb,
            Jcc::Jb => Jcc::Jae,
            Jcc::Je => Jcc::Jne,
            Jcc::Jne => Jcc::Je,
            Jcc::Jg => Jcc::Jle,
            Jcc::Jle => Jcc::Jg,
            Jcc::Jge => Jcc::Jl,
            Jcc::Jl => Jcc::Jge,
            Jcc::Jo => Jcc::Jno,
            Jcc::Jno => Jcc::Jo,
            Jcc::Jp => Jcc::Jnp,
            Jcc::Jnp => Jcc::Jp,
            Jcc::Js => Jcc::Jns,
            Jcc::Jns => Jcc::Js,
            _ => return None,
        })
    }
}

#[derive(Clone, PartialEq, Eq, Debug, Hash)]
pub enum PrintCmd {
    Flags,
    Reg,
    MemRange(u32, u32),
    MemLen(u32, u32),
    MemDs(u32),
}

pub const SIMPLE: [&str; 21] = [
    "stc", "clc", "cmc", "std", "cld", "sti", "cli", "hlt", "aaa", "aad", "aam", "aas", "daa", "das", "cbw", "cwd", "lahf", "sahf",
    "pushf", "popf", "xlat",
];

#[derive(Clone, PartialEq, Eq, Debug, Hash)]
pub enum Ins {
    Alu2(Alu2, Loc, Src),
    Un(Un, Loc),
    Sh(Sh, Loc, Cnt),
    Mov(Loc, Src),
    Xchg(Loc, Loc),
    Push(Loc),
    Pop(Loc),
    Lea(R16, Loc),
    Str(Rep, StrOp, W),
    J(Jcc, String),
    Call(String),
    Ret,
    Int(u8),
    Simple(&'static str),
    Print(PrintCmd),
}

// ------------------------------------------------------------------------------------------
// rendering

/// how a constant is spelled in source
#[derive(Clone, Copy, PartialEq, Eq, Debug)]
pub enum Radix {
    Dec,
    Hex,
    Bin,
    /// negative decimal with the same bit pattern (only legal where a signed number is accepted)
    Neg,
}

/// spelling choices for source rendering; `plain()` = lower case, decimal, single spaces
pub struct Spell {
    pub rng: Option<Rng>,
    pub upper_prob: u32, // out of 100: whole-token upper-casing
    pub radix_mix: bool,
    pub ws_mix: bool,
    /// pick among synonym mnemonics (jz/je, shl/sal, repe/repz); off by default because synonyms
    /// legitimately emit different (equivalent) IR spellings
    pub syn_mix: bool,
}
impl Spell {
    pub fn plain() -> Spell {
        Spell { rng: None, upper_prob: 0, radix_mix: false, ws_mix: false, syn_mix: false }
    }
    /// every keyword, mnemonic and register in upper case; nothing else varies
    pub fn upper() -> Spell {
        Spell { rng: Some(Rng::new(1)), upper_prob: 100, radix_mix: false, ws_mix: false, syn_mix: false }
    }
    pub fn random(rng: Rng) -> Spell {
        Spell { rng: Some(rng), upper_prob: 50, radix_mix: true, ws_mix: true, syn_mix: false }
    }
    pub fn random_syn(rng: Rng) -> Spell {
        let mut s = Spell::random(rng);
        s.syn_mix = true;
        s
    }
    fn coin(&mut self) -> bool {
        if !self.syn_mix {
            return false;
        }
        self.rng.as_mut().map(|r| r.chance(1, 2)).unwrap_or(false)
    }
    pub fn kw(&mut self, s: &str) -> String {
        if let Some(r) = &mut self.rng {
            if r.chance(self.upper_prob, 100) {
                return s.to_ascii_uppercase();
            }
        }
        s.to_string()
    }
    pub fn sp(&mut self) -> String {
        if self.ws_mix {
            if let Some(r) = &mut self.rng {
                return match r.below(6) {
                    0 => "  ".into(),
                    1 => "\t".into(),
                    2 => " \t ".into(),
                    _ => " ".into(),
                };
            }
        }
        " ".into()
    }
    /// optional space (may be empty)
    pub fn osp(&mut self) -> String {
        if self.ws_mix {
            if let Some(r) = &mut self.rng {
                return match r.below(5) {
                    0 => " ".into(),
                    1 => "\t".into(),
                    _ => "".into(),
                };
            }
        }
        "".into()
    }
    /// unsigned constant of `bits` width
    pub fn unum(&mut self, v: u32) -> String {
        if self.radix_mix {
            if let Some(r) = &mut self.rng {
                // leading zeros are not significant in any radix: now and then a few, or more than the operand is wide
                let pad = if r.chance(1, 5) { "0".repeat(*r.pick(&[1usize, 2, 4, 8, 13, 16, 17, 24])) } else { String::new() };
                return match r.below(4) {
                    0 => format!("0x{}{:x}", pad, v),
                    1 => format!("0X{}{:X}", pad, v),
                    2 => format!("0b{}{:b}", pad, v),
                    _ => format!("{}{}", pad, v),
                };
            }
        }
        format!("{}", v)
    }
    /// constant accepted in a signed position: bit pattern `v` of width `bits`
    pub fn snum(&mut self, v: u16, bits: u32) -> String {
        let neg = if bits == 8 { (v as u8 as i8) < 0 } else { (v as i16) < 0 };
        if self.radix_mix {
            if let Some(r) = &mut self.rng {
                if neg && r.chance(1, 2) {
                    return if bits == 8 { format!("{}", v as u8 as i8) } else { format!("{}", v as i16) };
                }
                return self.unum(v as u32);
            }
        }
        format!("{}", v)
    }
}

fn disp_ir(d: i16) -> String {
    format!("{}", d)
}

impl Mem {
    pub fn ir(&self) -> String {
        let seg = match self.seg {
            Some(s) => format!("{}:", s.name()),
            None => String::new(),
        };
        let body = match self.form {
            MemForm::Direct(n) => format!("[{}]", n),
            MemForm::Ind(r) => format!("[{}]", r.name()),
            MemForm::Based(r, d) | MemForm::Indexed(r, d) => format!("[{},{}]", r.name(), disp_ir(d)),
            MemForm::BasedIndexed(b, i, d) => format!("[{},{},{}]", b.name(), i.name(), disp_ir(d.unwrap_or(0))),
        };
        format!("{}{}", seg, body)
    }
    pub fn src(&self, sp: &mut Spell) -> String {
        // source: override is written directly before '[' without a colon
        let seg = match self.seg {
            Some(s) => format!("{}{}", sp.kw(s.name()), sp.osp()),
            None => String::new(),
        };
        let c = |sp: &mut Spell| format!("{},{}", sp.osp(), sp.osp());
        let body = match self.form {
            MemForm::Direct(n) => format!("[{}{}{}]", sp.osp(), sp.unum(n as u32), sp.osp()),
            MemForm::Ind(r) => format!("[{}{}{}]", sp.osp(), sp.kw(r.name()), sp.osp()),
            MemForm::Based(r, d) | MemForm::Indexed(r, d) => {
                format!("[{}{}{}]", sp.kw(r.name()), c(sp), sp.snum(d as u16, 16))
            }
            MemForm::BasedIndexed(b, i, d) => match d {
                Some(d) => format!("[{}{}{}{}{}]", sp.kw(b.name()), c(sp), sp.kw(i.name()), c(sp), sp.snum(d as u16, 16)),
                None => format!("[{}{}{}]", sp.kw(b.name()), c(sp), sp.kw(i.name())),
            },
        };
        format!("{}{}", seg, body)
    }
}

impl Loc {
    pub fn ir(&self) -> String {
        match self {
            Loc::R8(r) => r.name().into(),
            Loc::R16(r) => r.name().into(),
            Loc::SR(r) => r.name().into(),
            Loc::Mem(w, m) => format!("{} {}", w.kw(), m.ir()),
            Loc::Label(w, n) => format!("{} {}", w.kw(), n),
        }
    }
    pub fn src(&self, sp: &mut Spell) -> String {
        match self {
            Loc::R8(r) => sp.kw(r.name()),
            Loc::R16(r) => sp.kw(r.name()),
            Loc::SR(r) => sp.kw(r.name()),
            Loc::Mem(w, m) => format!("{}{}{}", sp.kw(w.kw()), sp.sp(), m.src(sp)),
            Loc::Label(w, n) => format!("{}{}{}", sp.kw(w.kw()), sp.sp(), n),
        }
    }
}

impl PrintCmd {
    pub fn ir(&self) -> String {
        match self {
            PrintCmd::Flags => "print flags".into(),
            PrintCmd::Reg => "print reg".into(),
            PrintCmd::MemRange(a, b) => format!("print mem {} -> {}", a, b),
            PrintCmd::MemLen(a, n) => format!("print mem {} : {}", a, n),
            PrintCmd::MemDs(n) => format!("print mem : {}", n),
        }
    }
    pub fn src(&self, sp: &mut Spell) -> String {
        match self {
            PrintCmd::Flags => format!("{}{}{}", sp.kw("print"), sp.sp(), sp.kw("flags")),
            PrintCmd::Reg => format!("{}{}{}", sp.kw("print"), sp.sp(), sp.kw("reg")),
            PrintCmd::MemRange(a, b) => {
                format!("{}{}{}{}{}{}->{}{}", sp.kw("print"), sp.sp(), sp.kw("mem"), sp.sp(), sp.unum(*a), sp.osp(), sp.osp(), sp.unum(*b))
            }
            PrintCmd::MemLen(a, n) => {
                format!("{}{}{}{}{}{}:{}{}", sp.kw("print"), sp.sp(), sp.kw("mem"), sp.sp(), sp.unum(*a), sp.osp(), sp.osp(), sp.unum(*n))
            }
            PrintCmd::MemDs(n) => format!("{}{}{}{}:{}{}", sp.kw("print"), sp.sp(), sp.kw("mem"), sp.sp(), sp.osp(), sp.unum(*n)),
        }
    }
}

impl Ins {
    /// IR line in the form the interpreter grammar accepts
    pub fn ir(&self) -> String {
        match self {
            Ins::Alu2(op, d, s) => format!("{} {},{}", op.name(), d.ir(), src_ir(s, d.width(), !op.is_logic())),
            Ins::Un(op, d) => format!("{} {}", op.name(), d.ir()),
            Ins::Sh(op, d, c) => format!(
                "{} {},{}",
                op.name(),
                d.ir(),
                match c {
                    Cnt::Imm(n) => format!("{}", n),
                    Cnt::CL => "cl".into(),
                }
            ),
            Ins::Mov(d, s) => format!("mov {},{}", d.ir(), src_ir(s, d.width(), true)),
            Ins::Xchg(a, b) => {
                // interpreter wants the memory operand first
                if b.is_mem() {
                    format!("xchg {},{}", b.ir(), a.ir())
                } else {
                    format!("xchg {},{}", a.ir(), b.ir())
                }
            }
            Ins::Push(l) => format!("push {}", l.ir()),
            Ins::Pop(l) => format!("pop {}", l.ir()),
            Ins::Lea(r, l) => format!("lea {},{}", r.name(), l.ir()),
            Ins::Str(rep, op, w) => format!("{}{} {}", rep.ir(), op.name(), w.kw()),
            Ins::J(j, l) => format!("{} {}", j.name(), l),
            Ins::Call(p) => format!("call {}", p),
            Ins::Ret => "ret".into(),
            Ins::Int(n) => format!("int {}", n),
            Ins::Simple(s) => s.to_string(),
            Ins::Print(p) => p.ir(),
        }
    }

    /// source text; `spell` chooses case / radix / spacing, `jspell` picks among synonym spellings
    pub fn src(&self, sp: &mut Spell) -> String {
        let c = |sp: &mut Spell| format!("{},{}", sp.osp(), sp.osp());
        match self {
            Ins::Alu2(op, d, s) => {
                let signed = !op.is_logic();
                format!("{}{}{}{}{}", sp.kw(op.name()), sp.sp(), d.src(sp), c(sp), src_src(s, d.width(), signed, sp))
            }
            Ins::Un(op, d) => format!("{}{}{}", sp.kw(op.name()), sp.sp(), d.src(sp)),
            Ins::Sh(op, d, cnt) => {
                let name = match op {
                    Sh::Shl => {
                        let pick = sp.coin();
                        if pick {
                            "shl"
                        } else {
                            "sal"
                        }
                    }
                    o => o.name(),
                };
                let cs = match cnt {
                    Cnt::Imm(n) => sp.unum(*n as u32),
                    Cnt::CL => sp.kw("cl"),
                };
                format!("{}{}{}{}{}", sp.kw(name), sp.sp(), d.src(sp), c(sp), cs)
            }
            Ins::Mov(d, s) => format!("{}{}{}{}{}", sp.kw("mov"), sp.sp(), d.src(sp), c(sp), src_src(s, d.width(), true, sp)),
            Ins::Xchg(a, b) => format!("{}{}{}{}{}", sp.kw("xchg"), sp.sp(), a.src(sp), c(sp), b.src(sp)),
            Ins::Push(l) => format!("{}{}{}", sp.kw("push"), sp.sp(), l.src(sp)),
            Ins::Pop(l) => {
                // the source grammar accepts only lower-case `word` before a memory operand of pop
                let opnd = match l {
                    Loc::Mem(_, m) => format!("word{}{}", sp.sp(), m.src(sp)),
                    o => o.src(sp),
                };
                format!("{}{}{}", sp.kw("pop"), sp.sp(), opnd)
            }
            Ins::Lea(r, l) => format!("{}{}{}{}{}", sp.kw("lea"), sp.sp(), sp.kw(r.name()), c(sp), l.src(sp)),
            Ins::Str(rep, op, w) => {
                let p = match rep {
                    Rep::None => String::new(),
                    Rep::Rep => format!("{}{}", sp.kw("rep"), sp.sp()),
                    Rep::Repe => {
                        let alt = sp.coin();
                        format!("{}{}", sp.kw(if alt { "repz" } else { "repe" }), sp.sp())
                    }
                    Rep::Repne => {
                        let alt = sp.coin();
                        format!("{}{}", sp.kw(if alt { "repnz" } else { "repne" }), sp.sp())
                    }
                };
                format!("{}{}{}{}", p, sp.kw(op.name()), sp.sp(), sp.kw(w.kw()))
            }
            Ins::J(j, l) => {
                let sps = j.spellings();
                let k = if sp.syn_mix { sp.rng.as_mut().map(|r| r.below(sps.len())).unwrap_or(0) } else { 0 };
                format!("{}{}{}", sp.kw(sps[k]), sp.sp(), l)
            }
            Ins::Call(p) => format!("{}{}{}", sp.kw("call"), sp.sp(), p),
            Ins::Ret => sp.kw("ret"),
            Ins::Int(n) => format!("{}{}{}", sp.kw("int"), sp.sp(), sp.unum(*n as u32)),
            Ins::Simple(s) => sp.kw(s),
            Ins::Print(p) => p.src(sp),
        }
    }

    /// coarse class name used for coverage accounting / signatures
    pub fn class(&self) -> String {
        match self {
            Ins::Alu2(op, d, s) => format!("{} {},{}", op.name(), d.shape(), s.shape()),
            Ins::Un(op, d) => format!("{} {}", op.name(), d.shape()),
            Ins::Sh(op, d, c) => format!("{} {},{}", op.name(), d.shape(), if matches!(c, Cnt::CL) { "cl" } else { "imm" }),
            Ins::Mov(d, s) => format!("mov {},{}", d.shape(), s.shape()),
            Ins::Xchg(a, b) => format!("xchg {},{}", a.shape(), b.shape()),
            Ins::Push(l) => format!("push {}", l.shape()),
            Ins::Pop(l) => format!("pop {}", l.shape()),
            Ins::Lea(_, l) => format!("lea r16,{}", l.shape()),
            Ins::Str(rep, op, w) => format!("{}{} {}", rep.ir(), op.name(), w.kw()),
            Ins::J(j, _) => j.name().to_string(),
            Ins::Call(_) => "call".into(),
            Ins::Ret => "ret".into(),
            Ins::Int(n) => format!("int {}", n),
            Ins::Simple(s) => s.to_string(),
            Ins::Print(_) => "print".into(),
        }
    }
}

fn src_ir(s: &Src, w: W, _signed: bool) -> String {
    match s {
        Src::Loc(l) => l.ir(),
        // IR immediates: the interpreter accepts 0..65535 (truncating for bytes) or negative decimal
        Src::Imm(v) => match w {
            W::B => format!("{}", *v as u8),
            W::W => format!("{}", v),
        },
    }
}

fn src_src(s: &Src, w: W, signed: bool, sp: &mut Spell) -> String {
    match s {
        Src::Loc(l) => l.src(sp),
        Src::Imm(v) => {
            let bits = w.bits();
            let v = if bits == 8 { *v & 0xFF } else { *v };
            if signed {
                sp.snum(v, bits)
            } else {
                sp.unum(v as u32)
            }
        }
    }
}
