//! Program generators: (1) arbitrary well-formed programs (any instruction mix, for the assembler-facing
//! properties), (2) structured terminating programs with identity-carrying instructions (for control
//! flow, stepping, line attribution and reproducibility).
use crate::ast::*;
use crate::gen::*;
use crate::prog::*;
use crate::util::Rng;

pub fn rand_data(rng: &mut Rng, nlabels_b: usize, nlabels_w: usize) -> (Vec<DataItem>, Vec<String>, Vec<String>) {
    let mut data = Vec::new();
    let mut bl = Vec::new();
    let mut wl = Vec::new();
    let mut k = 0;
    let total = nlabels_b + nlabels_w;
    for i in 0..total {
        // unlabeled filler
        if rng.chance(1, 2) {
            let kind = match rng.below(4) {
                0 => DK::Num(rng.u16()),
                1 => DK::Zeros(rng.below(20) as u16),
                2 => DK::Fill(rng.u16(), rng.below(12) as u16),
                _ => DK::Str(rand_str(rng, 10)),
            };
            let word = rng.chance(1, 2);
            data.push(DataItem::Def(fixw(DataDef { label: None, word, kind })));
        }
        let word = i >= nlabels_b;
        let name = format!("{}{}", if word { "wv" } else { "bv" }, k);
        k += 1;
        let kind = match rng.below(4) {
            0 => DK::Num(rng.u16()),
            1 => DK::Zeros(1 + rng.below(6) as u16),
            2 => DK::Fill(rng.u16(), 1 + rng.below(6) as u16),
            _ => DK::Str(rand_str(rng, 8)),
        };
        data.push(DataItem::Def(fixw(DataDef { label: Some(name.clone()), word, kind })));
        if word {
            wl.push(name);
        } else {
            bl.push(name);
        }
    }
    (data, bl, wl)
}

/// byte definitions carry byte values
fn fixw(mut d: DataDef) -> DataDef {
    if !d.word {
        d.kind = match d.kind {
            DK::Num(x) => DK::Num(x & 0xFF),
            DK::Fill(x, n) => DK::Fill(x & 0xFF, n),
            k => k,
        };
    }
    d
}

pub fn rand_str(rng: &mut Rng, max: usize) -> String {
    // printable ASCII without the double quote and without ';' (the driver strips comments before the assembler runs)
    const CH: &[u8] = b"abcdefghijklmnopqrstuvwxyzABCDEFGHIJKLMNOPQRSTUVWXYZ0123456789 _-+*/=<>()[]{}!?.,:'#$%&@^~|\\";
    let n = rng.below(max + 1);
    (0..n).map(|_| CH[rng.below(CH.len())] as char).collect()
}

/// any well-formed program; not meant to be executed
pub fn rand_program_any(rng: &mut Rng, nins: usize) -> Program {
    let (data, bl, wl) = rand_data(rng, 2, 2);
    let blr: Vec<&str> = bl.iter().map(|s| s.as_str()).collect();
    let wlr: Vec<&str> = wl.iter().map(|s| s.as_str()).collect();
    let mut items = Vec::new();
    // procedures first (call needs them defined)
    let nprocs = rng.below(3);
    let mut procs = Vec::new();
    for pi in 0..nprocs {
        let mut body = Vec::new();
        for _ in 0..1 + rng.below(3) {
            body.push(Item::Ins(any_ins(rng, &blr, &wlr, &[], &procs)));
        }
        let name = format!("proc{}", pi);
        items.push(Item::Proc(name.clone(), body));
        procs.push(name);
    }
    let nlabels = 1 + rng.below(4);
    let labels: Vec<String> = (0..nlabels).map(|i| format!("Lb{}", i)).collect();
    items.push(Item::Label("start".into()));
    let mut placed = 0;
    for i in 0..nins {
        if placed < nlabels && rng.chance(1, 3) {
            items.push(Item::Label(labels[placed].clone()));
            placed += 1;
        }
        let _ = i;
        items.push(Item::Ins(any_ins(rng, &blr, &wlr, &labels, &procs)));
    }
    while placed < nlabels {
        items.push(Item::Label(labels[placed].clone()));
        placed += 1;
    }
    Program { data, items }
}

fn any_ins(rng: &mut Rng, bl: &[&str], wl: &[&str], labels: &[String], procs: &[String]) -> Ins {
    loop {
        let class = rng.below(13);
        let ins = match class {
            0 => {
                let (d, s) = alu2_form(rng.below(ALU2_FORMS), rng, bl, wl);
                Ins::Alu2(*rng.pick(&ALL_ARITH2), d, s)
            }
            1 => {
                let (d, s) = alu2_form(rng.below(ALU2_FORMS), rng, bl, wl);
                Ins::Alu2(*rng.pick(&ALL_LOGIC2), d, s)
            }
            2 => Ins::Un(*rng.pick(&ALL_UN), un_form(rng.below(UN_FORMS), rng, bl, wl)),
            3 => {
                let cnt = if rng.chance(1, 2) { Cnt::CL } else { Cnt::Imm(rng.u8()) };
                Ins::Sh(*rng.pick(&ALL_SH), un_form(rng.below(UN_FORMS), rng, bl, wl), cnt)
            }
            4 => crate::c05::mov_form(rng.below(crate::c05::MOV_FORMS), rng, bl, wl),
            5 => crate::c05::xchg_form(rng.below(crate::c05::XCHG_FORMS), rng, bl, wl),
            6 => crate::c05::stack_form(rng.below(crate::c05::STACK_FORMS), rng, wl),
            7 => {
                let l = if rng.chance(1, 3) { Loc::Label(W::W, rng.pick(wl).to_string()) } else { Loc::Mem(W::W, rand_mem(rng)) };
                Ins::Lea(rand_r16(rng), l)
            }
            8 => {
                let op = *rng.pick(&ALL_STR);
                let rep = if op.compares() { *rng.pick(&[Rep::None, Rep::Repe, Rep::Repne]) } else { *rng.pick(&[Rep::None, Rep::Rep]) };
                Ins::Str(rep, op, if rng.chance(1, 2) { W::B } else { W::W })
            }
            9 => {
                if labels.is_empty() {
                    continue;
                }
                Ins::J(*rng.pick(&ALL_JCC), rng.pick(labels).clone())
            }
            10 => match rng.below(3) {
                0 => {
                    if procs.is_empty() {
                        continue;
                    }
                    Ins::Call(rng.pick(procs).clone())
                }
                1 => Ins::Ret,
                _ => Ins::Int(*rng.pick(&[3u8, 0x10, 0x21])),
            },
            11 => Ins::Simple(*rng.pick(&SIMPLE)),
            _ => {
                // print statements are not allowed inside procedures; callers place them at top level only
                if labels.is_empty() {
                    continue;
                }
                Ins::Print(match rng.below(5) {
                    0 => PrintCmd::Flags,
                    1 => PrintCmd::Reg,
                    2 => {
                        let a = rng.below(1 << 20) as u32;
                        PrintCmd::MemRange(a, a + rng.below(((1 << 20) - a as usize).min(40)) as u32)
                    }
                    3 => {
                        let a = rng.below((1 << 20) - 64) as u32;
                        PrintCmd::MemLen(a, rng.below(40) as u32)
                    }
                    _ => PrintCmd::MemDs(rng.below(64) as u32),
                })
            }
        };
        // immediates of byte width must fit the byte form when rendered
        return ins;
    }
}

// ---------------------------------------------------------------------------------------
// structured terminating programs

pub struct SOpts {
    pub prints: bool,
    pub int3: bool,
    pub macros: bool,
    pub procs: bool,
    pub out_chars: bool,
    pub max_blocks: usize,
}
impl Default for SOpts {
    fn default() -> Self {
        SOpts { prints: false, int3: false, macros: true, procs: true, out_chars: false, max_blocks: 8 }
    }
}

struct SGen<'a> {
    rng: &'a mut Rng,
    uid: u16,
    lab: usize,
    o: &'a SOpts,
    macros: Vec<(String, usize)>, // name, number of parameters
    procs: Vec<String>,
}

impl<'a> SGen<'a> {
    fn uid(&mut self) -> u16 {
        self.uid += 1;
        self.uid
    }
    fn label(&mut self) -> String {
        self.lab += 1;
        format!("L{}", self.lab)
    }
    /// an identity-carrying instruction that never touches CX, SP, flags-dependent control or memory
    fn ident(&mut self) -> Ins {
        let u = self.uid();
        match self.rng.below(4) {
            0 => Ins::Mov(Loc::R16(R16::AX), Src::Imm(u)),
            1 => Ins::Mov(Loc::R16(R16::BX), Src::Imm(u)),
            2 => Ins::Mov(Loc::R16(R16::SI), Src::Imm(u)),
            _ => Ins::Mov(Loc::R16(R16::DI), Src::Imm(u)),
        }
    }
    fn leaf(&mut self, top: bool) -> Vec<Item> {
        // one leaf block
        let mut v = Vec::new();
        let k = self.rng.below(10);
        match k {
            0 if self.o.macros && !self.macros.is_empty() => {
                let (name, np) = self.macros[self.rng.below(self.macros.len())].clone();
                let args: Vec<u16> = (0..np).map(|_| self.uid()).collect();
                let exp = macro_expansion(&name, &args);
                v.push(Item::MacroUse(name, args.iter().map(|a| a.to_string()).collect(), exp));
            }
            1 if top && self.o.prints => {
                v.push(Item::Ins(Ins::Print(if self.rng.chance(1, 2) { PrintCmd::Reg } else { PrintCmd::Flags })));
            }
            2 if self.o.int3 => v.push(Item::Ins(Ins::Int(3))),
            3 if self.o.out_chars => {
                let ch = b'a' + self.rng.below(26) as u8;
                v.push(Item::Ins(Ins::Mov(Loc::R8(R8::DL), Src::Imm(ch as u16))));
                v.push(Item::Ins(Ins::Mov(Loc::R8(R8::AH), Src::Imm(2))));
                v.push(Item::Ins(Ins::Int(0x21)));
            }
            _ => v.push(Item::Ins(self.ident())),
        }
        v
    }
    fn block(&mut self, depth: usize, top: bool, in_loop: bool) -> Vec<Item> {
        let mut v = Vec::new();
        let k = self.rng.below(if depth >= 2 { 4 } else { 9 });
        match k {
            0..=3 => {
                for _ in 0..1 + self.rng.below(2) {
                    v.extend(self.leaf(top));
                }
            }
            4 => {
                // unconditional forward jump over a block
                let l = self.label();
                v.push(Item::Ins(Ins::J(Jcc::Jmp, l.clone())));
                v.extend(self.block(depth + 1, top, in_loop));
                v.push(Item::Label(l));
            }
            5 => {
                // conditional forward jump with a known flag state
                let l = self.label();
                let taken = self.rng.chance(1, 2);
                let (setup, j) = match self.rng.below(4) {
                    0 => (Ins::Simple(if taken { "stc" } else { "clc" }), Jcc::Jb),
                    1 => (Ins::Simple(if taken { "clc" } else { "stc" }), Jcc::Jae),
                    2 => (Ins::Alu2(Alu2::Cmp, Loc::R16(R16::AX), Src::Loc(Loc::R16(R16::AX))), if taken { Jcc::Je } else { Jcc::Jne }),
                    _ => (Ins::Alu2(Alu2::Xor, Loc::R16(R16::DX), Src::Loc(Loc::R16(R16::DX))), if taken { Jcc::Je } else { Jcc::Jne }),
                };
                v.push(Item::Ins(setup));
                v.push(Item::Ins(Ins::J(j, l.clone())));
                v.extend(self.block(depth + 1, top, in_loop));
                v.push(Item::Label(l));
            }
            6 if !in_loop && top => {
                // counted loop (CX is reserved for it)
                let l = self.label();
                let n = 1 + self.rng.below(4) as u16;
                v.push(Item::Ins(Ins::Mov(Loc::R16(R16::CX), Src::Imm(n))));
                v.push(Item::Label(l.clone()));
                v.extend(self.block(depth + 1, top, true));
                v.push(Item::Ins(Ins::J(Jcc::Loop, l)));
            }
            7 if self.o.procs && !self.procs.is_empty() => {
                let p = self.procs[self.rng.below(self.procs.len())].clone();
                v.push(Item::Ins(Ins::Call(p)));
            }
            _ => v.extend(self.leaf(top)),
        }
        v
    }
}

/// the fixed macro library of structured programs: (name, parameter count)
pub const SMACROS: [(&str, usize); 3] = [("mset", 1), ("mtwo", 2), ("mnone", 0)];
pub fn macro_defs() -> Vec<Item> {
    vec![
        Item::MacroDef("mset".into(), vec!["val".into()], "mov dx,val".into()),
        Item::MacroDef("mtwo".into(), vec!["a".into(), "b".into()], "mov ax,a mov bx,b".into()),
        Item::MacroDef("mnone".into(), vec!["_".into()], "cld".into()),
    ]
}
pub fn macro_expansion(name: &str, args: &[u16]) -> Vec<Ins> {
    match name {
        "mset" => vec![Ins::Mov(Loc::R16(R16::DX), Src::Imm(args[0]))],
        "mtwo" => vec![Ins::Mov(Loc::R16(R16::AX), Src::Imm(args[0])), Ins::Mov(Loc::R16(R16::BX), Src::Imm(args[1]))],
        _ => vec![Ins::Simple("cld")],
    }
}

pub fn structured_program(rng: &mut Rng, o: &SOpts) -> Program {
    let mut items: Vec<Item> = Vec::new();
    let mut g = SGen { rng, uid: 100, lab: 0, o, macros: Vec::new(), procs: Vec::new() };
    if o.macros {
        items.extend(macro_defs());
        g.macros = SMACROS.iter().map(|(n, p)| (n.to_string(), *p)).collect();
        // "mnone" takes the dummy parameter `_` in definition and use
    }
    if o.procs {
        let np = g.rng.below(4);
        for pi in 0..np {
            let name = format!("fn{}", pi);
            let mut body = Vec::new();
            for _ in 0..1 + g.rng.below(3) {
                body.extend(g.block(1, false, true));
            }
            // explicit ret in the middle of some procedures
            if g.rng.chance(1, 3) {
                let l = g.label();
                let mut b2 = vec![Item::Ins(Ins::Simple("stc")), Item::Ins(Ins::J(Jcc::Jae, l.clone())), Item::Ins(Ins::Ret), Item::Label(l)];
                b2.push(Item::Ins(g.ident()));
                body.extend(b2);
            }
            items.push(Item::Proc(name.clone(), body));
            g.procs.push(name);
        }
    }
    items.push(Item::Label("start".into()));
    let nb = 1 + g.rng.below(o.max_blocks);
    for _ in 0..nb {
        let b = g.block(0, true, false);
        items.extend(b);
    }
    match g.rng.below(6) {
        0 => items.push(Item::Ins(Ins::Simple("hlt"))),
        1 => {
            // label last in the program, jumped to
            let l = g.label();
            items.push(Item::Ins(Ins::J(Jcc::Jmp, l.clone())));
            items.push(Item::Ins(g.ident()));
            items.push(Item::Label(l));
        }
        2 => {
            // a written hlt is the last instruction and a label follows it, reached by a taken jump
            let l = g.label();
            items.push(Item::Ins(Ins::J(Jcc::Jmp, l.clone())));
            items.push(Item::Ins(g.ident()));
            items.push(Item::Ins(Ins::Simple("hlt")));
            items.push(Item::Label(l));
        }
        _ => {}
    }
    // "mnone" uses: fix argument list to the dummy `_`
    for it in items.iter_mut() {
        fix_mnone(it);
    }
    Program { data: vec![], items }
}

fn fix_mnone(it: &mut Item) {
    match it {
        Item::MacroUse(n, args, _) if n == "mnone" => {
            *args = vec!["_".to_string()];
        }
        Item::Proc(_, body) => {
            for b in body.iter_mut() {
                fix_mnone(b);
            }
        }
        _ => {}
    }
}

/// Give one code label the name of a procedure (the two live in different tables: CALL uses procedure names,
/// jumps use label names). Returns false when the program has no such pair or a macro body mentions the label.
pub fn collide_names(p: &mut Program, rng: &mut Rng) -> bool {
    fn labels_of(items: &[Item], out: &mut Vec<String>) {
        for it in items {
            match it {
                Item::Label(l) if l != "start" => out.push(l.clone()),
                Item::Proc(_, b) => labels_of(b, out),
                _ => {}
            }
        }
    }
    fn rename(items: &mut [Item], from: &str, to: &str) {
        for it in items.iter_mut() {
            match it {
                Item::Label(l) if l == from => *l = to.to_string(),
                Item::Ins(Ins::J(_, l)) if l == from => *l = to.to_string(),
                Item::MacroUse(_, _, exp) => {
                    for e in exp.iter_mut() {
                        if let Ins::J(_, l) = e {
                            if l == from {
                                *l = to.to_string();
                            }
                        }
                    }
                }
                Item::Proc(_, b) => rename(b, from, to),
                _ => {}
            }
        }
    }
    let procs: Vec<String> = p.items.iter().filter_map(|i| if let Item::Proc(n, _) = i { Some(n.clone()) } else { None }).collect();
    let mut labels = Vec::new();
    labels_of(&p.items, &mut labels);
    if procs.is_empty() || labels.is_empty() {
        return false;
    }
    let l = labels[rng.below(labels.len())].clone();
    let pn = procs[rng.below(procs.len())].clone();
    let in_macro = p.items.iter().any(|i| match i {
        Item::MacroDef(_, _, body) => body.contains(l.as_str()),
        Item::MacroUse(_, args, _) => args.iter().any(|a| a == &l),
        _ => false,
    });
    if in_macro {
        return false;
    }
    rename(&mut p.items, &l, &pn);
    true
}
